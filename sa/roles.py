"""Engine D -- dimension / role analysis for coordinates.

A type-like abstract interpretation: every coordinate value has a role (axis in {SHEET, ROW, COL}, base in {'text', 0, 1}),
where base 1 also stands for "exclusive end / count" (last 0-based index + 1).  Containers have a level: the workbook data is
Level(SHEET) -> Level(ROW) -> Level(COL) -> value.  Sinks require roles: Cell(title, column, row), data[SHEET0][ROW0][COL0],
bounds tests compare like with like, range(a, b) needs a base 0 and b base 1 of the same axis, size keys last_row/last_column
take (ROW,1)/(COL,1), an A1 address is title, column letters, 1-based row.  A clash at a sink is the finding.
"""
from __future__ import annotations

import ast
from dataclasses import dataclass, field

from .core import AnalysisError

SHEET, ROW, COL = 'SHEET', 'ROW', 'COL'
NEXT = {SHEET: ROW, ROW: COL, COL: None}


@dataclass(frozen=True)
class Role:
    axis: str
    base: object            # 'text' | 0 | 1 | int offset

    def __repr__(self):
        b = {'text': 'text', 0: '0-based', 1: '1-based/count'}.get(self.base, f'0-based{self.base:+d}' if isinstance(self.base, int) else self.base)
        return f'{self.axis}:{b}'


@dataclass(frozen=True)
class Delta:
    axis: str


@dataclass(frozen=True)
class Level:
    axis: str | None        # None = a stored value
    elem: str = ''          # '', 'ocell' (openpyxl cell objects at the innermost level), 'worksheet'


@dataclass(frozen=True)
class Iter:
    elem: object


@dataclass(frozen=True)
class CellR:
    state: str              # '0' (handled: 0-based ints) | 'text' | 'any'
    fields: tuple = ()      # ((name, role), ...) for freshly constructed cells


@dataclass(frozen=True)
class OCell:
    pass


@dataclass(frozen=True)
class Sheet:
    pass


@dataclass(frozen=True)
class Num:
    v: object


@dataclass(frozen=True)
class Sizes:
    level: int              # 0 = list of dicts, 1 = dict {'last_row','last_column'}


@dataclass(frozen=True)
class TupleR:
    items: tuple


@dataclass(frozen=True)
class BuiltList:
    """a list that receives one element per iteration of a loop over the given axis"""
    axis: str
    elem: object = None


@dataclass
class Clash:
    kind: str
    msg: str
    node: ast.AST


class RoleChecker:
    def __init__(self, fn: ast.FunctionDef, env: dict, cell_fields: list, self_attrs: dict | None = None, qual: str = ''):
        self.fn = fn
        self.env = dict(env)
        self.cell_fields = cell_fields          # positional order of the Cell dataclass fields
        self.self_attrs = self_attrs or {}      # 'self._data' -> Level(SHEET) ...
        self.clashes: list[Clash] = []
        self.sinks = 0
        self.qual = qual
        self.returns: list = []
        self.loop_axes: list = []

    # ------------------------------------------------------------------------------------------------
    def clash(self, kind, msg, node):
        self.clashes.append(Clash(kind, f'{self.qual}: {msg}', node))

    def run(self):
        self.block(self.fn.body)
        return self

    def block(self, stmts):
        for st in stmts:
            self.stmt(st)

    def stmt(self, st):
        if isinstance(st, (ast.Assign, ast.AnnAssign)):
            if isinstance(st, ast.AnnAssign) and st.value is None:
                return
            v = self.ev(st.value)
            targets = st.targets if isinstance(st, ast.Assign) else [st.target]
            for t in targets:
                self.assign(t, v, st)
        elif isinstance(st, ast.AugAssign):
            cur = self.ev(_as_load(st.target))
            new = self.arith(st.op, cur, self.ev(st.value), st)
            self.assign(st.target, new, st)
        elif isinstance(st, ast.Expr):
            self.ev(st.value)
        elif isinstance(st, ast.Return):
            if st.value is not None:
                self.returns.append((self.ev(st.value), st))
        elif isinstance(st, ast.If):
            self.ev(st.test)
            saved = dict(self.env)
            self.block(st.body)
            env_a = self.env
            self.env = dict(saved)
            self.block(st.orelse)
            env_b = self.env
            merged = {}
            for k in set(env_a) | set(env_b):
                a, b = env_a.get(k), env_b.get(k)
                if isinstance(a, Num) and isinstance(b, Role):
                    a = b
                if isinstance(b, Num) and isinstance(a, Role):
                    b = a
                merged[k] = a if a == b else (a if b is None else b if a is None else a if _compat(a, b) else None)
                if a is not None and b is not None and a != b and not _compat(a, b) and isinstance(a, Role) and isinstance(b, Role):
                    self.clash('branch-role', f'`{k}` is {a!r} on one branch and {b!r} on the other', st)
            self.env = merged
        elif isinstance(st, ast.For):
            it = self.ev(st.iter)
            elem = it.elem if isinstance(it, Iter) else self.iter_elem(it, st.iter)
            self.assign(st.target, elem, st)
            axis = it.axis if isinstance(it, (Level, BuiltList)) else None
            if axis is None and isinstance(it, Iter):
                e = it.elem
                if isinstance(e, Role):
                    axis = e.axis
                elif isinstance(e, TupleR) and e.items and isinstance(e.items[0], Role):
                    axis = e.items[0].axis
            self.loop_axes.append(axis)
            self.block(st.body)
            self.loop_axes.pop()
            self.block(st.orelse)
        elif isinstance(st, ast.While):
            self.ev(st.test)
            self.block(st.body)
        elif isinstance(st, ast.With):
            self.block(st.body)
        elif isinstance(st, ast.Try):
            self.block(st.body)
            for h in st.handlers:
                self.block(h.body)
            self.block(st.orelse)
            self.block(st.finalbody)
        elif isinstance(st, (ast.Raise, ast.Pass, ast.Import, ast.ImportFrom, ast.Break, ast.Continue, ast.Global, ast.Delete,
                             ast.Assert)):
            if isinstance(st, ast.Raise) and st.exc is not None:
                pass
        elif isinstance(st, (ast.FunctionDef, ast.ClassDef)):
            pass
        else:
            raise AnalysisError('D', f'{self.qual}: unmodelled statement {type(st).__name__}')

    def assign(self, target, v, st):
        if isinstance(target, ast.Name):
            self.env[target.id] = v
        elif isinstance(target, (ast.Tuple, ast.List)):
            items = v.items if isinstance(v, TupleR) and len(v.items) == len(target.elts) else [None] * len(target.elts)
            for t, x in zip(target.elts, items):
                self.assign(t, x, st)
        elif isinstance(target, ast.Attribute):
            base = self.ev(target.value)
            if isinstance(base, CellR) and target.attr in ('title', 'column', 'row'):
                want = {'title': SHEET, 'column': COL, 'row': ROW}[target.attr]
                self.sinks += 1
                if isinstance(v, Role) and v.axis != want:
                    self.clash('cell-field-role', f'`{ast.unparse(st)[:70]}` stores a {v!r} value in the {target.attr} of a cell', st)
                key = ast.unparse(target)
                self.env[key] = v
            else:
                self.env[ast.unparse(target)] = v
        elif isinstance(target, ast.Subscript):
            # sizes[sheet]['last_row'] = ...
            base = self.ev(target.value)
            key = target.slice
            if isinstance(base, Sizes) and base.level == 1 and isinstance(key, ast.Constant):
                self.size_key(key.value, v, st)
        else:
            pass

    def size_key(self, key, v, node):
        want = {'last_row': ROW, 'last_column': COL}.get(key)
        if want is None:
            return
        self.sinks += 1
        if isinstance(v, Role):
            if v.axis != want:
                self.clash('size-role', f'the size key {key!r} receives a {v!r} value', node)
            elif v.base != 1:
                self.clash('size-base', f'the size key {key!r} receives {v!r}; it must be a count (last 0-based index + 1)', node)
        elif isinstance(v, Num):
            pass
        elif v is None:
            self.clash('size-unknown', f'the role of the value stored under {key!r} cannot be derived', node)

    # ------------------------------------------------------------------------------------------------
    def iter_elem(self, it, node):
        if isinstance(it, Level):
            if it.axis == COL:
                return OCell() if it.elem == 'ocell' else Level(None)
            if it.axis == SHEET and it.elem == 'worksheet':
                return Sheet()
            return Level(NEXT[it.axis], it.elem) if it.axis else None
        if isinstance(it, Iter):
            return it.elem
        if isinstance(it, BuiltList):
            return it.elem
        return None

    def ev(self, node):
        m = getattr(self, 'e_' + type(node).__name__, None)
        if m is None:
            for c in ast.iter_child_nodes(node):
                if isinstance(c, ast.expr):
                    self.ev(c)
            return None
        return m(node)

    def e_Constant(self, node):
        if isinstance(node.value, bool) or node.value is None:
            return Num(node.value)
        if isinstance(node.value, int):
            return Num(node.value)
        return None

    def e_Name(self, node):
        return self.env.get(node.id)

    def e_Attribute(self, node):
        txt = ast.unparse(node)
        if txt in self.env:
            return self.env[txt]
        if txt in self.self_attrs:
            return self.self_attrs[txt]
        base = self.ev(node.value)
        a = node.attr
        if isinstance(base, CellR):
            for name, role in base.fields:
                if name == a:
                    return role
            if a in ('title', 'column', 'row'):
                axis = {'title': SHEET, 'column': COL, 'row': ROW}[a]
                if base.state == '0':
                    return Role(axis, 0)
                if base.state == 'text':
                    return Role(axis, 'text')
                return None
            return None
        if isinstance(base, OCell):
            return {'row': Role(ROW, 1), 'column': Role(COL, 1), 'column_letter': Role(COL, 'text'), 'col_idx': Role(COL, 1),
                    'coordinate': TupleR((Role(COL, 'text'), Role(ROW, 1)))}.get(a)
        if isinstance(base, Sheet):
            return {'title': Role(SHEET, 'text'), 'max_row': Role(ROW, 1), 'max_column': Role(COL, 1)}.get(a)
        return None

    def e_Subscript(self, node):
        base = self.ev(node.value)
        if isinstance(node.slice, ast.Slice):
            for x in (node.slice.lower, node.slice.upper, node.slice.step):
                if x is not None:
                    self.ev(x)
            return base
        idx = self.ev(node.slice)
        if isinstance(base, Level) and base.axis:
            self.sinks += 1
            if isinstance(idx, Role):
                if idx.axis != base.axis:
                    self.clash('index-role', f'`{ast.unparse(node)[:70]}`: a {idx!r} value indexes the {base.axis} level of the data', node)
                elif idx.base != 0:
                    self.clash('index-base', f'`{ast.unparse(node)[:70]}`: the {base.axis} level is indexed with {idx!r}; it needs '
                                             f'the 0-based index', node)
            elif idx is None:
                self.clash('index-unknown', f'`{ast.unparse(node)[:70]}`: the role of the index into the {base.axis} level cannot be '
                                            f'derived', node)
            nxt = NEXT[base.axis]
            if nxt is None:
                return OCell() if base.elem == 'ocell' else Level(None)
            return Level(nxt, base.elem)
        if isinstance(base, Sizes):
            if base.level == 0:
                if isinstance(idx, Role):
                    self.sinks += 1
                    if idx.axis != SHEET or idx.base != 0:
                        self.clash('sizes-index', f'the sheet-size list is indexed with {idx!r}', node)
                return Sizes(1)
            if isinstance(node.slice, ast.Constant):
                return {'last_row': Role(ROW, 1), 'last_column': Role(COL, 1)}.get(node.slice.value)
        if isinstance(base, TupleR) and isinstance(idx, Num) and isinstance(idx.v, int) and -len(base.items) <= idx.v < len(base.items):
            return base.items[idx.v]
        return None

    def e_BinOp(self, node):
        return self.arith(node.op, self.ev(node.left), self.ev(node.right), node)

    def arith(self, op, a, b, node):
        if isinstance(op, (ast.Add, ast.Sub)):
            sign = 1 if isinstance(op, ast.Add) else -1
            if isinstance(a, Role) and isinstance(b, Num) and isinstance(b.v, int) and not isinstance(b.v, bool) and a.base != 'text':
                return Role(a.axis, a.base + sign * b.v)
            if isinstance(b, Role) and isinstance(a, Num) and isinstance(a.v, int) and isinstance(op, ast.Add) and b.base != 'text':
                return Role(b.axis, b.base + a.v)
            if isinstance(a, Role) and isinstance(b, Role):
                if a.axis != b.axis:
                    self.clash('mixed-axes', f'`{ast.unparse(node)[:70]}` combines a {a!r} with a {b!r}', node)
                    return None
                if isinstance(op, ast.Sub) and a.base == b.base:
                    return Delta(a.axis)
                return None
            if isinstance(a, Role) and isinstance(b, Delta) or isinstance(a, Delta) and isinstance(b, Role):
                r, d = (a, b) if isinstance(a, Role) else (b, a)
                if r.axis != d.axis:
                    self.clash('mixed-axes', f'`{ast.unparse(node)[:70]}` shifts a {r!r} by a {d.axis} distance', node)
                    return None
                return r
            if isinstance(a, Delta) and isinstance(b, Num):
                return a
            if isinstance(a, Num) and isinstance(b, Num) and isinstance(a.v, int) and isinstance(b.v, int):
                return Num(a.v + sign * b.v)
        return None

    def e_IfExp(self, node):
        self.ev(node.test)
        a, b = self.ev(node.body), self.ev(node.orelse)
        if a == b:
            return a
        if isinstance(a, Num) and a.v is None:
            return b
        if isinstance(b, Num) and b.v is None:
            return a
        if isinstance(a, Role) and isinstance(b, Role) and a != b:
            self.clash('branch-role', f'`{ast.unparse(node)[:70]}` is {a!r} or {b!r}', node)
        return a or b

    def e_BoolOp(self, node):
        vals = [self.ev(v) for v in node.values]
        roles = [v for v in vals if isinstance(v, Role)]
        return roles[0] if roles and all(r == roles[0] for r in roles) else None

    def e_Compare(self, node):
        vals = [self.ev(node.left)] + [self.ev(c) for c in node.comparators]
        for (a, b), op in zip(zip(vals, vals[1:]), node.ops):
            if isinstance(op, (ast.Lt, ast.LtE, ast.Gt, ast.GtE)) and isinstance(a, Role) and isinstance(b, Role):
                self.sinks += 1
                if a.axis != b.axis:
                    self.clash('compare-axes', f'`{ast.unparse(node)[:70]}` compares a {a!r} with a {b!r}', node)
                elif isinstance(op, ast.Lt) and (a.base, b.base) not in ((0, 1), (0, 0), (1, 1), ('text', 'text')):
                    self.clash('compare-base', f'`{ast.unparse(node)[:70]}` compares {a!r} < {b!r}', node)
                elif isinstance(op, ast.LtE) and a.base == 0 and b.base == 1:
                    self.clash('compare-base', f'`{ast.unparse(node)[:70]}`: a 0-based index may equal the count (off by one)', node)
        return None

    def e_Tuple(self, node):
        return TupleR(tuple(self.ev(e) for e in node.elts))

    def e_List(self, node):
        items = [self.ev(e) for e in node.elts]
        return Iter(items[0]) if items else None

    def e_Dict(self, node):
        for k, v in zip(node.keys, node.values):
            val = self.ev(v)
            if isinstance(k, ast.Constant) and k.value in ('last_row', 'last_column'):
                self.size_key(k.value, val, node)
        return None

    def e_ListComp(self, node):
        saved = dict(self.env)
        for g in node.generators:
            it = self.ev(g.iter)
            elem = it.elem if isinstance(it, Iter) else self.iter_elem(it, g.iter)
            self.assign(g.target, elem, node)
            for c in g.ifs:
                self.ev(c)
        v = self.ev(node.elt)
        self.env = saved
        return Iter(v)

    e_GeneratorExp = e_ListComp

    def e_JoinedStr(self, node):
        parts = []
        for v in node.values:
            if isinstance(v, ast.FormattedValue):
                parts.append(self.ev(v.value))
        return TupleR(tuple(parts))

    def e_Call(self, node):
        f = node.func
        name = f.id if isinstance(f, ast.Name) else f.attr if isinstance(f, ast.Attribute) else ''
        args = [self.ev(a) for a in node.args]
        kwargs = {k.arg: self.ev(k.value) for k in node.keywords if k.arg}
        if name == 'Cell':
            fields = dict(zip(self.cell_fields, args))
            fields.update(kwargs)
            self.sinks += 1
            want = {'title': SHEET, 'column': COL, 'row': ROW}
            out = []
            bases = set()
            for fld, axis in want.items():
                v = fields.get(fld)
                if isinstance(v, Role):
                    if v.axis != axis:
                        self.clash('cell-ctor-role', f'`{ast.unparse(node)[:80]}`: the {fld} of the new cell receives a {v!r} value', node)
                    bases.add(v.base)
                    out.append((fld, v))
                elif v is None and fld in fields:
                    self.clash('cell-ctor-unknown', f'`{ast.unparse(node)[:80]}`: the role of the {fld} argument cannot be derived', node)
            if len({b for b in bases if b != 'text'}) > 1:
                self.clash('cell-ctor-bases', f'`{ast.unparse(node)[:80]}` mixes coordinate bases {sorted(map(str, bases))}', node)
            state = 'text' if bases == {'text'} else '0' if bases <= {0} and bases else 'any'
            return CellR(state, tuple(out))
        if name == 'len' and args:
            a = args[0]
            if isinstance(a, (Level, BuiltList)) and a.axis:
                return Role(a.axis, 1)
            return None
        if name == 'range':
            self.sinks += 1
            lo, hi = (Num(0), args[0]) if len(args) == 1 else (args[0], args[1]) if len(args) >= 2 else (None, None)
            if isinstance(hi, Role):
                if hi.base != 1:
                    self.clash('range-end', f'`{ast.unparse(node)[:70]}`: the end of the range is {hi!r}; to include the last index it '
                                            f'must be the last 0-based index + 1 (or a count)', node)
                if isinstance(lo, Role):
                    if lo.axis != hi.axis:
                        self.clash('range-axes', f'`{ast.unparse(node)[:70]}` runs from a {lo!r} to a {hi!r}', node)
                    elif lo.base != 0:
                        self.clash('range-start', f'`{ast.unparse(node)[:70]}`: the start of the range is {lo!r}, not the 0-based index', node)
                elif isinstance(lo, Num) and lo.v != 0:
                    self.clash('range-start', f'`{ast.unparse(node)[:70]}` starts at {lo.v}', node)
                return Iter(Role(hi.axis, 0))
            if hi is None and len(args) >= 1:
                self.clash('range-unknown', f'`{ast.unparse(node)[:70]}`: the role of the range end cannot be derived', node)
            return Iter(None)
        if name == 'enumerate' and args:
            a = args[0]
            start = args[1] if len(args) > 1 else kwargs.get('start', Num(0))
            base = start.v if isinstance(start, Num) and isinstance(start.v, int) else None
            if isinstance(a, BuiltList) and a.axis:
                return Iter(TupleR((Role(a.axis, base) if base is not None else None, a.elem)))
            if isinstance(a, Level) and a.axis:
                return Iter(TupleR((Role(a.axis, base) if base is not None else None, self.iter_elem(a, node))))
            if isinstance(a, Iter):
                return Iter(TupleR((None, a.elem)))
            return Iter(TupleR((None, None)))
        if name == 'zip':
            return Iter(TupleR(tuple(a.elem if isinstance(a, Iter) else self.iter_elem(a, node) for a in args)))
        if name == 'max' and len(args) == 1 and isinstance(args[0], Iter) and isinstance(args[0].elem, Role):
            d = kwargs.get('default')
            if d is None or (isinstance(d, Num) and d.v == 0 and args[0].elem.base == 1):
                return args[0].elem                      # the largest of the counts (0 when there is none)
        if name in ('max', 'min') and len(args) == 2:
            a, b = args
            if isinstance(a, Role) and isinstance(b, Role):
                self.sinks += 1
                if a != b:
                    self.clash('max-roles', f'`{ast.unparse(node)[:70]}` takes the {name} of a {a!r} and a {b!r}', node)
                return a
            return a if isinstance(a, Role) else b if isinstance(b, Role) else None
        if name == 'column_index_from_string' and args:
            self.sinks += 1
            a = args[0]
            if isinstance(a, Role) and (a.axis != COL or a.base != 'text'):
                self.clash('colidx-arg', f'`{ast.unparse(node)[:70]}` is applied to a {a!r}', node)
            return Role(COL, 1)
        if name == 'get_column_letter' and args:
            self.sinks += 1
            a = args[0]
            if isinstance(a, Role) and (a.axis != COL or a.base != 1):
                self.clash('colletter-arg', f'`{ast.unparse(node)[:70]}` is applied to {a!r}; it needs the 1-based column number', node)
            return Role(COL, 'text')
        if name == 'int' and args:
            a = args[0]
            if isinstance(a, Role) and a.base == 'text':
                return Role(a.axis, 1)
            return a if isinstance(a, Role) else None
        if name == 'str' and args:
            return args[0]
        if name in ('list', 'tuple', 'reversed', 'sorted') and args:
            return args[0]
        if name == 'iter_rows':
            return Level(ROW, 'ocell')
        if name == 'get':
            recv = self.ev(f.value) if isinstance(f, ast.Attribute) else None
            if isinstance(recv, Sizes) and recv.level == 1 and node.args and isinstance(node.args[0], ast.Constant):
                return {'last_row': Role(ROW, 1), 'last_column': Role(COL, 1)}.get(node.args[0].value)
            return None
        if name == 'append' and isinstance(f, ast.Attribute):
            recv_name = ast.unparse(f.value)
            if args:
                cur = self.env.get(recv_name)
                axis = self.loop_axes[-1] if self.loop_axes else None
                if axis is not None and (cur is None or isinstance(cur, (Iter, BuiltList))):
                    self.env[recv_name] = BuiltList(axis, args[0])
                elif cur is None or isinstance(cur, Iter):
                    self.env[recv_name] = Iter(args[0])
            return None
        # calls of sibling methods with seeds registered in env as ('call', name)
        hook = self.env.get(('call', name))
        if hook is not None:
            return hook(self, node, args, kwargs)
        return None


def _compat(a, b):
    return type(a) is type(b) and not isinstance(a, Role)


def _as_load(t):
    import copy
    t = copy.deepcopy(t)
    for n in ast.walk(t):
        if hasattr(n, 'ctx'):
            n.ctx = ast.Load()
    return t


def cell_field_order(src) -> list:
    """positional field order of the Cell dataclass"""
    ci = src.cls('Cell')
    out = []
    for st in ci.node.body:
        if isinstance(st, ast.AnnAssign) and isinstance(st.target, ast.Name) and not st.target.id.startswith('_'):
            out.append(st.target.id)
    if not {'title', 'column', 'row'} <= set(out):
        raise AnalysisError('D', f'Cell fields are {out}')
    return out
