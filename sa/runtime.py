"""Engine R -- the two copies of the runtime: the importable base class and the class template.

The template text is obtained by reading the string constant returned by Context.__class_template and
passing it through str.format with sentinel holes: a data transformation of an extracted constant, not a
run of repository code.
"""
from __future__ import annotations

import ast
import copy
import string
import warnings
from dataclasses import dataclass, field

from .core import AnalysisError, loc_of
from .source import SourceModel, ClassInfo, FunctionInfo

BASE_MODULE = 'excel2pycl.src.utilities.abstract_excel_in_python_class'
BASE_CLASS = 'AbstractExcelInPython'
CONTEXT_MODULE = 'excel2pycl.src.context'
GENERATED_CLASS = 'ExcelInPython'
HOLE = '__HOLE_{}__'


@dataclass
class RuntimeCopy:
    label: str                 # 'base' | 'template'
    path: str
    cls_node: ast.ClassDef
    module_tree: ast.Module
    line_offset: int = 0       # template line 1 is at this line of context.py
    members: dict = field(default_factory=dict)     # qualname -> FunctionDef
    nested: dict = field(default_factory=dict)      # qualname -> ClassDef
    imports: dict = field(default_factory=dict)     # bound name -> (module, symbol)

    def loc(self, node) -> str:
        return f'{self.path}:{getattr(node, "lineno", 0) + self.line_offset}'


def _const_str(expr):
    if isinstance(expr, ast.Constant) and isinstance(expr.value, str):
        return expr.value
    try:
        v = ast.literal_eval(expr)
    except Exception:
        return None
    return v if isinstance(v, str) else None


def find_template(src: SourceModel, which: str):
    """(text, node, FunctionInfo) of Context.__class_template / __function_template."""
    ctx = src.cls('Context')
    for name, fi in ctx.methods.items():
        if name.strip('_').endswith(which):
            rets = [n for n in ast.walk(fi.node) if isinstance(n, ast.Return)]
            if len(rets) != 1:
                raise AnalysisError('R', f'Context.{name}: expected a single return of a string constant')
            text = _const_str(rets[0].value)
            if text is None:
                raise AnalysisError('R', f'Context.{name} does not return a string constant')
            return text, rets[0].value, fi
    for name, expr in ctx.attrs.items():
        if name.strip('_').endswith(which):
            text = _const_str(expr)
            if text is not None:
                return text, expr, None
    raise AnalysisError('R', f'Context has no *{which} member returning the template text')


def template_holes(text: str):
    try:
        return [(lit, fld, spec, conv) for lit, fld, spec, conv in string.Formatter().parse(text)]
    except ValueError as e:
        raise AnalysisError('R', f'template is not a valid format string: {e}')


def _collect(cls_node: ast.ClassDef, prefix=''):
    members, nested = {}, {}
    for st in cls_node.body:
        if isinstance(st, (ast.FunctionDef, ast.AsyncFunctionDef)):
            members[prefix + st.name] = st
        elif isinstance(st, ast.ClassDef):
            nested[prefix + st.name] = st
            m2, n2 = _collect(st, prefix + st.name + '.')
            members.update(m2)
            nested.update(n2)
    return members, nested


def _inline_module_functions(tree: ast.Module, cls_node: ast.ClassDef):
    """helpers of a runtime copy that were written as functions of the module (beside the class) are analysed in place, in the
    members that call them"""
    fns = {st.name for st in tree.body if isinstance(st, ast.FunctionDef)}
    if not fns:
        return
    from .inline import inline_methods, module_resolver
    resolve = module_resolver(tree)

    def visit(cls):
        for i, st in enumerate(cls.body):
            if isinstance(st, ast.FunctionDef):
                if any(isinstance(c, ast.Call) and isinstance(c.func, ast.Name) and c.func.id in fns for c in ast.walk(st)):
                    new = inline_methods(st, resolve, depth=3)
                    ast.fix_missing_locations(new)
                    cls.body[i] = new
            elif isinstance(st, ast.ClassDef):
                visit(st)
    visit(cls_node)


def _imports(tree: ast.Module):
    out = {}
    for st in tree.body:
        if isinstance(st, ast.Import):
            for a in st.names:
                if a.asname:
                    out[a.asname] = (a.name, None)
                else:
                    out[a.name.split('.')[0]] = (a.name.split('.')[0], None)
        elif isinstance(st, ast.ImportFrom):
            for a in st.names:
                out[a.asname or a.name] = (st.module, a.name)
    return out


class RuntimeModel:
    def __init__(self, src: SourceModel):
        self.src = src
        # --- base copy
        if BASE_MODULE not in src.modules:
            raise AnalysisError('R', f'module {BASE_MODULE} not found')
        bm = src.modules[BASE_MODULE]
        cands = [st for st in bm.tree.body if isinstance(st, ast.ClassDef)]
        base = [c for c in cands if c.name == BASE_CLASS] or cands
        if len(base) != 1:
            raise AnalysisError('R', f'cannot identify the runtime base class in {BASE_MODULE}')
        _inline_module_functions(bm.tree, base[0])
        self.base = RuntimeCopy('base', str(bm.path.relative_to(src.repo)), base[0], bm.tree)
        self.base.members, self.base.nested = _collect(base[0])
        self.base.imports = _imports(bm.tree)
        # --- template copy
        text, node, fi = find_template(src, 'class_template')
        self.template_text = text
        self.holes = [f for _, f, _, _ in template_holes(text) if f is not None]
        self.hole_specs = [(f, s, c) for _, f, s, c in template_holes(text) if f is not None]
        try:
            inst = text.format(**{h: HOLE.format(h) for h in set(self.holes) if h.isidentifier()})
        except (KeyError, IndexError, ValueError) as e:
            raise AnalysisError('R', f'class template cannot be instantiated with its named holes: {e!r}')
        self.instantiated = inst
        try:
            with warnings.catch_warnings():
                warnings.simplefilter('ignore')
                tree = ast.parse(inst)
                from .normalize import canonicalize_module
                tree = canonicalize_module(tree)
        except SyntaxError as e:
            self.template_syntax_error = e
            raise AnalysisError('R', f'instantiated class template does not parse: {e}')
        cm = src.modules[CONTEXT_MODULE]
        gen = [st for st in tree.body if isinstance(st, ast.ClassDef)]
        g = [c for c in gen if c.name == GENERATED_CLASS] or gen
        if len(g) != 1:
            raise AnalysisError('R', 'cannot identify the generated class in the class template')
        _inline_module_functions(tree, g[0])
        # the template constant starts on the line of its opening quotes
        self.template = RuntimeCopy('template', str(cm.path.relative_to(src.repo)), g[0], tree,
                                    line_offset=node.lineno - 1)
        self.template.members, self.template.nested = _collect(g[0])
        self.template.imports = _imports(tree)
        ftext, fnode, _ = find_template(src, 'function_template')
        self.function_template_text = ftext
        self.function_holes = [f for _, f, _, _ in template_holes(ftext) if f is not None]

    def copies(self):
        return [self.base, self.template]

    def method(self, copy_: RuntimeCopy, name: str) -> ast.FunctionDef:
        if name not in copy_.members:
            raise AnalysisError('R', f'runtime helper {name} not found in the {copy_.label} copy')
        return copy_.members[name]

    def has(self, name: str) -> bool:
        return name in self.template.members and name in self.base.members


_rt_cache: dict = {}


def get_runtime(src: SourceModel) -> RuntimeModel:
    k = id(src)
    if k not in _rt_cache:
        _rt_cache[k] = RuntimeModel(src)
    return _rt_cache[k]


# ------------------------------------------------------------------------------------------------
# normalisation and structural comparison
# ------------------------------------------------------------------------------------------------
class _Normalizer(ast.NodeTransformer):
    """Drop annotations and docstrings, turn AnnAssign into Assign, alpha-rename local variables
    (not parameters: they are part of the call interface) in binding order."""

    def __init__(self, rename):
        self.rename = rename

    def visit_arg(self, node):
        node.annotation = None
        node.type_comment = None
        if node.arg in self.rename:
            node.arg = self.rename[node.arg]
        return node

    def visit_FunctionDef(self, node):
        node.returns = None
        node.type_comment = None
        if node.name in self.rename:
            node.name = self.rename[node.name]
        self.generic_visit(node)
        node.body = _strip_doc(node.body)
        return node

    visit_AsyncFunctionDef = visit_FunctionDef

    def visit_ClassDef(self, node):
        if node.name in self.rename:
            node.name = self.rename[node.name]
        self.generic_visit(node)
        node.body = _strip_doc(node.body)
        return node

    def visit_AnnAssign(self, node):
        self.generic_visit(node)
        if node.value is None:
            return None
        return ast.copy_location(ast.Assign(targets=[node.target], value=node.value, type_comment=None), node)

    def visit_Name(self, node):
        if node.id in self.rename:
            node.id = self.rename[node.id]
        return node

    def visit_MatchAs(self, node):
        self.generic_visit(node)
        if node.name in self.rename:
            node.name = self.rename[node.name]
        return node

    def visit_MatchStar(self, node):
        if node.name in self.rename:
            node.name = self.rename[node.name]
        return node

    def visit_ExceptHandler(self, node):
        self.generic_visit(node)
        if node.name in self.rename:
            node.name = self.rename[node.name]
        return node


def _strip_doc(body):
    if body and isinstance(body[0], ast.Expr) and isinstance(body[0].value, ast.Constant) \
            and isinstance(body[0].value.value, str):
        body = body[1:]
    return body or [ast.Pass()]


def local_names(fn: ast.FunctionDef):
    """Names bound inside fn (and nested scopes), excluding parameters of fn itself, in binding order."""
    params = {a.arg for a in fn.args.posonlyargs + fn.args.args + fn.args.kwonlyargs}
    if fn.args.vararg:
        params.add(fn.args.vararg.arg)
    if fn.args.kwarg:
        params.add(fn.args.kwarg.arg)
    order = []

    def add(n):
        if n and n not in params and n not in order:
            order.append(n)

    class V(ast.NodeVisitor):
        def visit_Name(self, node):
            if isinstance(node.ctx, (ast.Store, ast.Del)):
                add(node.id)

        def visit_FunctionDef(self, node):
            if node is not fn:
                add(node.name)
                for a in node.args.posonlyargs + node.args.args + node.args.kwonlyargs:
                    add(a.arg)
                if node.args.vararg:
                    add(node.args.vararg.arg)
                if node.args.kwarg:
                    add(node.args.kwarg.arg)
            self.generic_visit(node)

        def visit_Lambda(self, node):
            for a in node.args.posonlyargs + node.args.args + node.args.kwonlyargs:
                add(a.arg)
            self.generic_visit(node)

        def visit_ClassDef(self, node):
            add(node.name)
            self.generic_visit(node)

        def visit_MatchAs(self, node):
            add(node.name)
            self.generic_visit(node)

        def visit_MatchStar(self, node):
            add(node.name)

        def visit_ExceptHandler(self, node):
            add(node.name)
            self.generic_visit(node)

        def visit_Import(self, node):
            for a in node.names:
                add(a.asname or a.name.split('.')[0])

        def visit_ImportFrom(self, node):
            for a in node.names:
                add(a.asname or a.name)

    V().visit(fn)
    return order, params


def normalize_function(fn: ast.FunctionDef) -> ast.FunctionDef:
    f = copy.deepcopy(fn)
    order, params = local_names(f)
    # local imports keep their names (they denote external objects)
    imported = set()
    for n in ast.walk(f):
        if isinstance(n, ast.Import):
            imported.update(a.asname or a.name.split('.')[0] for a in n.names)
        elif isinstance(n, ast.ImportFrom):
            imported.update(a.asname or a.name for a in n.names)
    rename = {n: f'_v{i}' for i, n in enumerate(x for x in order if x not in imported)}
    f.decorator_list = []
    f = _Normalizer(rename).visit(f)
    ast.fix_missing_locations(f)
    return f


def first_difference(a, b, path='') -> tuple | None:
    """First structural difference between two (normalised) trees: (path, node_a, node_b)."""
    if type(a) is not type(b):
        return (path, a, b)
    if isinstance(a, ast.AST):
        for fld in a._fields:
            if fld in ('ctx', 'type_comment', 'kind'):
                continue
            r = first_difference(getattr(a, fld, None), getattr(b, fld, None), f'{path}.{fld}')
            if r:
                if not isinstance(r[1], ast.AST) and not isinstance(r[1], list):
                    return (r[0], a, b) if r[1] is not None or r[2] is not None else r
                return r
        return None
    if isinstance(a, list):
        for i, (x, y) in enumerate(zip(a, b)):
            r = first_difference(x, y, f'{path}[{i}]')
            if r:
                return r
        if len(a) != len(b):
            longer = a if len(a) > len(b) else b
            extra = longer[min(len(a), len(b))]
            return (f'{path}[{min(len(a), len(b))}]', extra if longer is a else None, extra if longer is b else None)
        return None
    if a != b:
        return (path, a, b)
    return None


def show(node) -> str:
    if node is None:
        return '<absent>'
    if isinstance(node, ast.AST):
        try:
            s = ast.unparse(node)
        except Exception:
            s = ast.dump(node)
        s = ' '.join(s.split())
        return s[:200]
    return repr(node)[:200]


# ------------------------------------------------------------------------------------------------
# small shared analyses on helper bodies
# ------------------------------------------------------------------------------------------------
def may_complete_normally(stmts) -> bool:
    """JLS-style: can control fall off the end of this statement list?"""
    for st in stmts:
        if not _stmt_completes(st):
            return False
    return True


def _stmt_completes(st) -> bool:
    if isinstance(st, (ast.Return, ast.Raise, ast.Continue, ast.Break)):
        return False
    if isinstance(st, ast.If):
        if _chain_sign_exhaustive(st):
            return any(may_complete_normally(b) for b in _chain_bodies(st))
        return may_complete_normally(st.body) or may_complete_normally(st.orelse or [ast.Pass()])
    if isinstance(st, (ast.For, ast.AsyncFor)):
        return True    # zero iterations possible (orelse then runs)
    if isinstance(st, ast.While):
        infinite = isinstance(st.test, ast.Constant) and bool(st.test.value)
        if infinite:
            return any(isinstance(n, ast.Break) for n in _walk_loop_body(st.body))
        return True
    if isinstance(st, (ast.With, ast.AsyncWith)):
        return may_complete_normally(st.body)
    if isinstance(st, ast.Try):
        if st.finalbody and not may_complete_normally(st.finalbody):
            return False
        body_ok = may_complete_normally(st.body) and may_complete_normally(st.orelse or [ast.Pass()])
        return body_ok or any(may_complete_normally(h.body) for h in st.handlers)
    if isinstance(st, ast.Match):
        exhaustive = any(_irrefutable(c) for c in st.cases) or _sign_exhaustive(st)
        if not exhaustive:
            return True
        return any(may_complete_normally(c.body) for c in st.cases)
    return True


_ALL_SIGNS = frozenset(('neg', 'zero', 'pos'))


def _sign_cover(test, names) -> frozenset:
    """the signs of the number called `names` for which the test is certainly true (a Boolean formula over comparisons with 0;
    anything else: no sign is certain).  Values that are not ordered numbers raise TypeError in such a test; NaN is ignored."""
    if isinstance(test, ast.BoolOp):
        parts = [_sign_cover(v, names) for v in test.values]
        out = parts[0]
        for q in parts[1:]:
            out = (out | q) if isinstance(test.op, ast.Or) else (out & q)
        return out
    if isinstance(test, ast.UnaryOp) and isinstance(test.op, ast.Not):
        inner = _sign_exact(test.operand, names)
        return _ALL_SIGNS - inner if inner is not None else frozenset()
    got = _sign_exact(test, names)
    return got if got is not None else frozenset()


def _sign_exact(test, names):
    """the signs for which the test is true, when the test is exactly a sign test (None otherwise)"""
    if isinstance(test, ast.BoolOp):
        parts = [_sign_exact(v, names) for v in test.values]
        if any(q is None for q in parts):
            return None
        out = parts[0]
        for q in parts[1:]:
            out = (out | q) if isinstance(test.op, ast.Or) else (out & q)
        return out
    if isinstance(test, ast.UnaryOp) and isinstance(test.op, ast.Not):
        inner = _sign_exact(test.operand, names)
        return None if inner is None else _ALL_SIGNS - inner
    if isinstance(test, ast.Name) and test.id in names:
        return frozenset(('neg', 'pos'))          # truthiness of a number
    if isinstance(test, ast.Compare) and len(test.ops) == 1:
        l, r, op = test.left, test.comparators[0], test.ops[0]
        flip = {ast.Gt: ast.Lt, ast.GtE: ast.LtE, ast.Lt: ast.Gt, ast.LtE: ast.GtE, ast.Eq: ast.Eq, ast.NotEq: ast.NotEq}
        if isinstance(l, ast.Constant) and isinstance(r, ast.Name):
            if type(op) not in flip:
                return None
            l, r, op = r, l, flip[type(op)]()
        if isinstance(l, ast.Name) and l.id in names and isinstance(r, ast.Constant) and r.value == 0 and not isinstance(r.value, bool):
            table = {ast.Gt: ('pos',), ast.GtE: ('pos', 'zero'), ast.Lt: ('neg',), ast.LtE: ('neg', 'zero'), ast.Eq: ('zero',),
                     ast.NotEq: ('neg', 'pos')}
            if type(op) in table:
                return frozenset(table[type(op)])
    return None


def _sign_exhaustive(st: ast.Match) -> bool:
    """cases such as {literal 0, capture if x > 0, capture if x < 0}, in any spelling: exhaustive over ordered numbers when the
    signs the cases certainly accept are all three (anything else raises TypeError in the guard; NaN is ignored)"""
    subject = {st.subject.id} if isinstance(st.subject, ast.Name) else set()
    covered = frozenset()
    for c in st.cases:
        p = c.pattern
        if isinstance(p, ast.MatchValue) and isinstance(p.value, ast.Constant) and p.value.value == 0 and c.guard is None:
            covered |= {'zero'}
        elif isinstance(p, ast.MatchAs) and p.pattern is None and c.guard is not None:
            covered |= _sign_cover(c.guard, subject | ({p.name} if p.name else set()))
    return covered == _ALL_SIGNS


def _chain_sign_exhaustive(st: ast.If) -> bool:
    """if / elif / ... without a final else whose tests together accept every sign of one number"""
    tests, cur = [], st
    while True:
        tests.append(cur.test)
        if len(cur.orelse) == 1 and isinstance(cur.orelse[0], ast.If):
            cur = cur.orelse[0]
            continue
        if cur.orelse:
            return False
        break
    names = {n.id for t in tests for n in ast.walk(t) if isinstance(n, ast.Name)}
    for nm in names:
        covered = frozenset()
        for t in tests:
            covered |= _sign_cover(t, {nm})
        if covered == _ALL_SIGNS:
            return True
    return False


def _chain_bodies(st: ast.If):
    cur = st
    while True:
        yield cur.body
        if len(cur.orelse) == 1 and isinstance(cur.orelse[0], ast.If):
            cur = cur.orelse[0]
            continue
        break


def _irrefutable(case: ast.match_case) -> bool:
    p = case.pattern
    return case.guard is None and ((isinstance(p, ast.MatchAs) and p.pattern is None))


def _walk_loop_body(stmts):
    for st in stmts:
        yield st
        for f in ('body', 'orelse', 'handlers', 'finalbody', 'cases'):
            sub = getattr(st, f, None)
            if sub and not isinstance(st, (ast.For, ast.While, ast.FunctionDef, ast.Lambda)):
                for s in sub:
                    if isinstance(s, ast.stmt):
                        yield from _walk_loop_body([s])
                    elif isinstance(s, (ast.ExceptHandler, ast.match_case)):
                        yield from _walk_loop_body(s.body)


def returned_exprs(fn: ast.FunctionDef):
    out = []

    class V(ast.NodeVisitor):
        def visit_Return(self, node):
            out.append(node)

        def visit_FunctionDef(self, node):
            if node is fn:
                self.generic_visit(node)

        def visit_Lambda(self, node):
            pass

    V().visit(fn)
    return out
