"""Engine G -- the token grammar: regex terminals, ordered token-set productions, lexer order."""
from __future__ import annotations

import ast
from dataclasses import dataclass, field

from .core import AnalysisError, loc_of
from .source import SourceModel, ClassInfo
from .regexmodel import Regex, wrapped

REGEXP_BASE = 'RegexpBaseToken'
KEYWORD_BASE = 'KeywordRegexpBaseToken'
COMPOSITE_BASE = 'CompositeBaseToken'
RECURSIVE_BASE = 'RecursiveCompositeBaseToken'
CC_BASE = 'ControlConstructionCompositeBaseToken'
ENTRY = 'EntryPointToken'
UNDEFINED = 'UndefinedToken'
CLS_MARK = '<CLS>'


@dataclass
class Terminal:
    name: str
    ci: ClassInfo
    regexp: str
    tail: str
    value_range: tuple
    keyword: bool
    init: object = None            # FunctionInfo of a custom __init__ (own class), if any
    _rx: Regex | None = None
    _rx_own: Regex | None = None

    @property
    def rx(self) -> Regex:
        """the wrapped pattern ^(<regexp>)(<tail>)$ that RegexpBaseToken.get compiles"""
        if self._rx is None:
            self._rx = Regex(wrapped(self.regexp, self.tail))
        return self._rx

    @property
    def rx_own(self) -> Regex:
        if self._rx_own is None:
            self._rx_own = Regex(self.regexp)
        return self._rx_own

    def n_own_groups(self) -> int:
        return self.rx_own.ngroups

    def value_len(self):
        """number of elements of self.value (findall tuple sliced by value_range)"""
        n = self.rx.ngroups
        lo, hi = self.value_range
        return len(list(range(n))[lo:hi])

    def value_group(self, i: int):
        """wrapped group number behind self.value[i] (None when out of range)"""
        n = self.rx.ngroups
        idx = list(range(1, n + 1))[self.value_range[0]:self.value_range[1]]
        if -len(idx) <= i < len(idx):
            return idx[i]
        return None


@dataclass
class Composite:
    name: str
    ci: ClassInfo
    productions: list              # list[list[str]] symbol class names (CLS resolved); unknown symbols kept as '?name'
    recursive: bool
    prod_nodes: list = field(default_factory=list)
    is_function: bool = False      # member of ControlConstructionCompositeBaseToken._TOKEN_SETS


class Grammar:
    def __init__(self, src: SourceModel):
        self.src = src
        self.terminals: dict[str, Terminal] = {}
        self.composites: dict[str, Composite] = {}
        self.problems: list[tuple] = []     # (kind, construct, message, loc)
        self._load_terminals()
        self._load_composites()
        self.lexer_order = self._lexer_order()

    # ---------------------------------------------------------------------------------------
    def _class_const(self, ci: ClassInfo, attr: str):
        expr, owner = self.src.find_attr(ci, attr)
        if expr is None:
            raise AnalysisError('G', f'{ci.name}.{attr} not found')
        try:
            return ast.literal_eval(expr), owner
        except Exception:
            raise AnalysisError('G', f'{ci.name}.{attr} is not a literal constant')

    def _load_terminals(self):
        src = self.src
        if not src.has_cls(REGEXP_BASE):
            raise AnalysisError('G', f'{REGEXP_BASE} not found')
        base = src.cls(REGEXP_BASE)
        kw = src.cls(KEYWORD_BASE) if src.has_cls(KEYWORD_BASE) else None
        for ci in src.subclasses(base):
            if kw is not None and ci == kw:
                continue
            if src.direct_subclasses(ci):
                # an intermediate base (like KeywordRegexpBaseToken): not instantiated by the lexer
                continue
            regexp, _ = self._class_const(ci, 'regexp')
            tail, _ = self._class_const(ci, 'last_match_regexp')
            vr, _ = self._class_const(ci, 'value_range')
            if not (isinstance(regexp, str) and isinstance(tail, str) and isinstance(vr, (list, tuple)) and len(vr) == 2):
                raise AnalysisError('G', f'{ci.name}: regexp/last_match_regexp/value_range have unexpected types')
            init = ci.methods.get('__init__')
            self.terminals[ci.name] = Terminal(ci.name, ci, regexp, tail, tuple(vr),
                                               bool(kw and src.is_subclass(ci, kw)), init)

    def _symbol(self, node, ci: ClassInfo, recursive: bool):
        if isinstance(node, ast.Name):
            r = self.src.resolve(node.id, ci.module)
            if r and r[0] == 'class':
                return r[1].name
            if r and r[0] == 'value':
                try:
                    v = ast.literal_eval(r[1])
                except Exception:
                    v = None
                if v == 'cls':
                    return ci.name if recursive else '?cls-marker-in-non-recursive-class'
            # forward reference to a class defined later in the same module
            if self.src.has_cls(node.id):
                return self.src.cls(node.id).name
            return f'?{node.id}'
        if isinstance(node, ast.Constant) and node.value == 'cls':
            return ci.name if recursive else '?cls-marker-in-non-recursive-class'
        return f'?{ast.unparse(node)}'

    def _load_composites(self):
        src = self.src
        if not src.has_cls(COMPOSITE_BASE):
            raise AnalysisError('G', f'{COMPOSITE_BASE} not found')
        base = src.cls(COMPOSITE_BASE)
        rec = src.cls(RECURSIVE_BASE) if src.has_cls(RECURSIVE_BASE) else None
        for ci in src.subclasses(base):
            if rec is not None and ci == rec:
                continue
            if '_TOKEN_SETS' not in ci.attrs:
                continue
            expr = ci.attrs['_TOKEN_SETS']
            if not isinstance(expr, ast.List) or not all(isinstance(e, ast.List) for e in expr.elts):
                raise AnalysisError('G', f'{ci.name}._TOKEN_SETS is not a literal list of lists')
            recursive = bool(rec and src.is_subclass(ci, rec))
            prods = [[self._symbol(s, ci, recursive) for s in e.elts] for e in expr.elts]
            self.composites[ci.name] = Composite(ci.name, ci, prods, recursive, list(expr.elts))
        # post-hoc additions: X.add_token_set([...]) at module level
        for m in src.modules.values():
            for st in m.tree.body:
                if isinstance(st, ast.Expr) and isinstance(st.value, ast.Call) and \
                        isinstance(st.value.func, ast.Attribute) and st.value.func.attr == 'add_token_set' and \
                        isinstance(st.value.func.value, ast.Name):
                    r = src.resolve(st.value.func.value.id, m)
                    if not (r and r[0] == 'class' and r[1].name in self.composites):
                        raise AnalysisError('G', f'add_token_set on unknown class at {loc_of(m.path, st)}')
                    comp = self.composites[r[1].name]
                    if len(st.value.args) != 1 or not isinstance(st.value.args[0], ast.List):
                        raise AnalysisError('G', f'add_token_set with a non-literal argument at {loc_of(m.path, st)}')
                    comp.productions.append([self._symbol(s, comp.ci, comp.recursive) for s in st.value.args[0].elts])
                    comp.prod_nodes.append(st.value.args[0])
        cc = self.composites.get(CC_BASE)
        if cc:
            for p in cc.productions:
                if len(p) == 1 and p[0] in self.composites:
                    self.composites[p[0]].is_function = True
        for c in self.composites.values():
            for i, p in enumerate(c.productions):
                for s in p:
                    if s.startswith('?') or (s not in self.terminals and s not in self.composites):
                        self.problems.append(('unknown-symbol', f'{c.name}/production[{i}]',
                                              f'symbol {s} is not a token class', loc_of(c.ci.module.path, c.ci.node)))

    # ---------------------------------------------------------------------------------------
    def _lexer_order(self):
        """Order in which Lexer.parse tries terminals: direct subclasses of RegexpBaseToken in definition order
        (KeywordRegexpBaseToken replaced by its subclasses sorted by len(regexp) descending, stable, appended after
        the direct ones), then UndefinedToken."""
        src = self.src
        base = src.cls(REGEXP_BASE)
        kw = src.cls(KEYWORD_BASE) if src.has_cls(KEYWORD_BASE) else None
        direct = [c for c in src.direct_subclasses(base) if c != kw]
        mods = {c.module.name for c in direct}
        if len(mods) > 1:
            raise AnalysisError('G', 'regex terminals are defined in several modules; their relative order depends on '
                                     'import order, which is not modelled')
        direct.sort(key=lambda c: c.node.lineno)
        order = [c.name for c in direct if c.name in self.terminals]
        if kw is not None:
            kws = [c for c in src.direct_subclasses(kw)]
            kmods = {c.module.name for c in kws}
            if len(kmods) > 1:
                raise AnalysisError('G', 'keyword terminals are defined in several modules (order not modelled)')
            kws.sort(key=lambda c: c.node.lineno)
            kws = [c for c in kws if c.name in self.terminals]
            kws.sort(key=lambda c: len(self.terminals[c.name].regexp), reverse=True)
            order += [c.name for c in kws]
        return order

    # ---------------------------------------------------------------------------------------
    def is_terminal(self, name): return name in self.terminals
    def is_composite(self, name): return name in self.composites

    def keywords(self):
        return [t for t in self.terminals.values() if t.keyword]

    def functions(self):
        return [c for c in self.composites.values() if c.is_function]

    def first_terminals(self, sym: str, _seen=None) -> set:
        """terminals that can start a derivation of sym"""
        _seen = _seen if _seen is not None else set()
        if sym in self.terminals:
            return {sym}
        if sym in _seen or sym not in self.composites:
            return set()
        _seen.add(sym)
        out = set()
        for p in self.composites[sym].productions:
            if p:
                out |= self.first_terminals(p[0], _seen)
        return out

    def left_recursive(self):
        """nonterminals A with A =>+ A ... (first symbol chains; no production is nullable here)."""
        out = []
        for a in self.composites:
            seen, stack = set(), [p[0] for p in self.composites[a].productions if p]
            while stack:
                s = stack.pop()
                if s == a:
                    out.append(a)
                    break
                if s in seen or s not in self.composites:
                    continue
                seen.add(s)
                stack += [p[0] for p in self.composites[s].productions if p]
        return out

    def reachable(self, start=ENTRY):
        seen, stack = set(), [start]
        while stack:
            s = stack.pop()
            if s in seen:
                continue
            seen.add(s)
            if s in self.composites:
                for p in self.composites[s].productions:
                    stack += p
        return seen

    def derives_recursively(self, sym: str) -> bool:
        """can sym derive a string containing sym again (nested)?"""
        seen, stack = set(), [s for p in self.composites.get(sym, Composite('', None, [], False)).productions for s in p]
        while stack:
            s = stack.pop()
            if s == sym:
                return True
            if s in seen or s not in self.composites:
                continue
            seen.add(s)
            stack += [x for p in self.composites[s].productions for x in p]
        return False


    # ---- ordered-choice shadowing ------------------------------------------------------------------
    def covers(self, a: str, b: str, _assume=frozenset()) -> bool:
        """Structural (coinductive) approximation of: whatever token sequence b matches, a matches too.
        Used only to recognise productions that an earlier alternative always pre-empts."""
        if a == b:
            return True
        if (a, b) in _assume:
            return True
        if a not in self.composites:
            return False
        assume = _assume | {(a, b)}
        pa = self.composites[a].productions
        if any(len(p) == 1 and self.covers(p[0], b, assume) for p in pa):
            return True
        if b not in self.composites:
            return False
        pb = self.composites[b].productions
        return bool(pb) and all(any(len(x) == len(y) and all(self.covers(u, v, assume) for u, v in zip(x, y)) for x in pa)
                                for y in pb)

    def covers_flat(self, pa: list, seq: list, depth: int = 0) -> bool:
        """pa (a production) covers the flat symbol sequence seq, expanding symbols of pa where needed"""
        if not pa:
            return not seq
        if not seq:
            return False
        a = pa[0]
        if self.covers(a, seq[0]) and self.covers_flat(pa[1:], seq[1:], depth):
            return True
        if depth < 4 and a in self.composites:
            for q in self.composites[a].productions:
                if len(q) > 1 and self.covers_flat(list(q) + list(pa[1:]), seq, depth + 1):
                    return True
        return False

    def shadowed_by(self, cls: str, j: int, expansions: dict | None = None):
        """index of an earlier production of cls that pre-empts production j (with the given child expansions:
        position -> list of symbols), or None"""
        comp = self.composites[cls]
        seq = []
        for k, sym in enumerate(comp.productions[j]):
            if expansions and k in expansions:
                seq.extend(expansions[k])
            else:
                seq.append(sym)
        for i in range(j):
            if self.covers_flat(list(comp.productions[i]), seq):
                return i
        return None


_g_cache: dict = {}


def get_grammar(src: SourceModel) -> Grammar:
    if id(src) not in _g_cache:
        _g_cache[id(src)] = Grammar(src)
    return _g_cache[id(src)]
