"""Normalisations that make the rules independent of how a function is split up:

inline_methods(fn, resolve)   -- calls of small helpers of the same class / module (self.h(..), cls.h(..), Class.h(..), h(..)) are
                                  replaced by the helper's body with the arguments substituted:
                                    return h(..)            -> the body of h (its returns stay returns)
                                    h(..)   (statement)     -> the body of h, early `return`s turned into if/else nesting
                                    x = h(..) / ..h(..)..   -> when the body of h reduces to one expression (if/return chains become
                                                               conditional expressions) the call is replaced by that expression;
                                                               when it is straight-line code ending in one `return E`, the statements
                                                               are spliced in front and the call is replaced by E
nest_guards(fn)               -- guard clauses become nesting:  `if c: ...; return/raise/continue` followed by REST  ->
                                  `if c: ... else: REST`, so that "what is executed under which condition" is visible as structure.

Both work on deep copies and keep the original line numbers (reports still point at the real source).  They never change what
the analysed code means; arguments may be duplicated textually, which is harmless for a static reading."""
from __future__ import annotations

import ast
import copy
import itertools

from .runtime import may_complete_normally

_counter = itertools.count()


class _Subst(ast.NodeTransformer):
    def __init__(self, mapping: dict, rename: dict):
        self.mapping = mapping          # parameter name -> expression
        self.rename = rename            # local name -> fresh name

    def visit_Name(self, node):
        if node.id in self.mapping and isinstance(node.ctx, ast.Load):
            return copy.deepcopy(self.mapping[node.id])
        if node.id in self.rename:
            return ast.copy_location(ast.Name(id=self.rename[node.id], ctx=node.ctx), node)
        return node

    def visit_FunctionDef(self, node):   # do not descend into nested scopes that rebind the names
        return node

    visit_Lambda = visit_FunctionDef


def _locals_of(fn: ast.FunctionDef) -> set:
    out = set()
    for n in ast.walk(fn):
        if isinstance(n, ast.Name) and isinstance(n.ctx, (ast.Store, ast.Del)):
            out.add(n.id)
    return out


def _bind(callee: ast.FunctionDef, call: ast.Call, implicit_first: bool):
    """parameter -> argument expression, or None when the binding is not a plain positional/keyword one"""
    a = callee.args
    if a.vararg or a.kwarg or a.kwonlyargs or a.posonlyargs:
        if a.vararg or a.kwarg or a.posonlyargs:
            return None
    params = [x.arg for x in a.args]
    if implicit_first and params:
        params = params[1:]
    if any(isinstance(x, ast.Starred) for x in call.args) or any(k.arg is None for k in call.keywords):
        return None
    if len(call.args) > len(params):
        return None
    m = {}
    for p, v in zip(params, call.args):
        m[p] = v
    for k in call.keywords:
        if k.arg not in params or k.arg in m:
            return None
        m[k.arg] = k.value
    defaults = a.defaults
    for i, p in enumerate(params):
        if p not in m:
            di = i - (len(params) - len(defaults))
            if di < 0:
                return None
            if not isinstance(defaults[di], (ast.Constant, ast.Name, ast.Attribute, ast.UnaryOp, ast.Tuple)):
                return None          # a mutable default is one shared object: substituting its display would hide that
            m[p] = defaults[di]
    return m


def _strip_doc(body):
    if body and isinstance(body[0], ast.Expr) and isinstance(body[0].value, ast.Constant) and isinstance(body[0].value.value, str):
        return body[1:]
    return body


def _as_expression(stmts):
    """one expression equivalent to a statement list made of if/return chains (None when it is not of that shape)"""
    stmts = [s for s in stmts if not isinstance(s, (ast.Import, ast.ImportFrom, ast.Pass))]
    if not stmts:
        return None
    s0 = stmts[0]
    if isinstance(s0, ast.Return) and s0.value is not None:
        return s0.value
    if isinstance(s0, ast.If):
        then = _as_expression(s0.body)
        if then is None:
            return None
        if s0.orelse:
            other = _as_expression(s0.orelse)
            if other is None and len(stmts) > 1 and not may_complete_normally(s0.orelse):
                return None
            if other is None:
                return None
        else:
            other = _as_expression(stmts[1:])
            if other is None:
                return None
        return ast.copy_location(ast.IfExp(test=s0.test, body=then, orelse=other), s0)
    return None


def _straight_line(stmts):
    """(statements, final expression) when the list is straight-line code (no return inside) ending in `return E`"""
    stmts = list(stmts)
    if not stmts or not isinstance(stmts[-1], ast.Return) or stmts[-1].value is None:
        return None
    for s in stmts[:-1]:
        if any(isinstance(n, ast.Return) for n in ast.walk(s)):
            return None
    return stmts[:-1], stmts[-1].value


def nest_guards_list(stmts: list) -> list:
    out = []
    for i, st in enumerate(stmts):
        st = _nest_in(st)
        if isinstance(st, ast.If) and not st.orelse and not may_complete_normally(st.body) and i + 1 < len(stmts):
            rest = nest_guards_list(stmts[i + 1:])
            new = ast.copy_location(ast.If(test=st.test, body=st.body, orelse=rest), st)
            out.append(new)
            return out
        out.append(st)
    return out


def _nest_in(st):
    for fld in ('body', 'orelse', 'finalbody'):
        lst = getattr(st, fld, None)
        if isinstance(lst, list) and lst and isinstance(lst[0], ast.stmt) and not isinstance(st, (ast.FunctionDef, ast.ClassDef)):
            setattr(st, fld, nest_guards_list(lst))
    if isinstance(st, ast.Try):
        for h in st.handlers:
            h.body = nest_guards_list(h.body)
    if isinstance(st, ast.Match):
        for c in st.cases:
            c.body = nest_guards_list(c.body)
    return st


def nest_guards(fn: ast.FunctionDef) -> ast.FunctionDef:
    fn = copy.deepcopy(fn)
    fn.body = nest_guards_list(fn.body)
    ast.fix_missing_locations(fn)
    return fn


def _drop_tail_returns(stmts):
    """for a body spliced in statement position: `if c: ...; return` guards become nesting, a trailing bare return is dropped;
    returns None when a value is returned or a return remains in a loop"""
    stmts = nest_guards_list(copy.deepcopy(list(stmts)))

    def clean(lst):
        out = []
        for s in lst:
            if isinstance(s, ast.Return):
                if s.value is not None and not (isinstance(s.value, ast.Constant) and s.value.value is None):
                    raise ValueError
                break
            if isinstance(s, ast.If):
                s.body = clean(s.body) or [ast.copy_location(ast.Pass(), s)]
                s.orelse = clean(s.orelse)
            elif isinstance(s, (ast.For, ast.While, ast.With, ast.Try, ast.Match)):
                if any(isinstance(n, ast.Return) for n in ast.walk(s)):
                    raise ValueError
            out.append(s)
        return out
    try:
        return clean(stmts)
    except ValueError:
        return None


def inline_methods(fn: ast.FunctionDef, resolve, depth: int = 2, exclude: set | None = None) -> ast.FunctionDef:
    """resolve(call: ast.Call) -> (callee FunctionDef, implicit_first: bool) | None"""
    fn = copy.deepcopy(fn)
    exclude = set(exclude or ()) | {fn.name}

    def prepare(call):
        r = resolve(call)
        if r is None:
            return None
        callee, implicit = r
        if callee.name in exclude or any(isinstance(n, (ast.Yield, ast.YieldFrom, ast.Await)) for n in ast.walk(callee)):
            return None
        # recursion / large bodies are left alone
        if sum(1 for _ in ast.walk(callee)) > 400:
            return None
        m = _bind(callee, call, implicit)
        if m is None:
            return None
        k = next(_counter)
        rename = {n: f'{n}__i{k}' for n in _locals_of(callee) if n not in m}
        # parameters that are re-bound inside the callee become locals initialised with the argument
        rebound = [p for p in m if p in _locals_of(callee)]
        pre = []
        for p in rebound:
            rename[p] = f'{p}__i{k}'
            pre.append(ast.copy_location(ast.Assign(targets=[ast.Name(id=rename[p], ctx=ast.Store())], value=copy.deepcopy(m[p])), call))
        mapping = {p: v for p, v in m.items() if p not in rebound}
        body = [_Subst(mapping, rename).visit(copy.deepcopy(s)) for s in _strip_doc(callee.body)]
        return pre, body

    def expr_inline(node):
        """replace calls inside an expression; returns (prefix statements, new expression)"""
        prefix = []

        class T(ast.NodeTransformer):
            def visit_Lambda(self, n):
                return n

            def visit_Call(self, n):
                self.generic_visit(n)
                p = prepare(n)
                if p is None:
                    return n
                pre, body = p
                e = _as_expression(body)
                if e is not None and not pre:
                    return ast.copy_location(e, n)
                sl = _straight_line(body)
                if sl is not None:
                    prefix.extend(pre + sl[0])
                    return ast.copy_location(sl[1], n)
                return n
        new = T().visit(node)
        return prefix, new

    def block(stmts):
        out = []
        for st in stmts:
            if isinstance(st, ast.Return) and isinstance(st.value, ast.Call):
                p = prepare(st.value)
                if p is not None:
                    pre, body = p
                    args_pref = []
                    out.extend(pre + block(body))
                    continue
            if isinstance(st, ast.Expr) and isinstance(st.value, ast.Call):
                p = prepare(st.value)
                if p is not None:
                    pre, body = p
                    cleaned = _drop_tail_returns(body)
                    if cleaned is not None:
                        out.extend(pre + block(cleaned))
                        continue
            if isinstance(st, (ast.FunctionDef, ast.ClassDef)):
                out.append(st)
                continue
            # compound statements: recurse into blocks, inline in header expressions
            for fld in ('body', 'orelse', 'finalbody'):
                lst = getattr(st, fld, None)
                if isinstance(lst, list) and lst and isinstance(lst[0], ast.stmt):
                    setattr(st, fld, block(lst))
            if isinstance(st, ast.Try):
                for h in st.handlers:
                    h.body = block(h.body)
            if isinstance(st, ast.Match):
                for c in st.cases:
                    c.body = block(c.body)
            pref = []
            for fld in ('value', 'test', 'iter', 'subject', 'exc'):
                e = getattr(st, fld, None)
                if isinstance(e, ast.expr):
                    p2, new = expr_inline(e)
                    pref.extend(p2)
                    setattr(st, fld, new)
            if isinstance(st, ast.While) and pref:
                pref = []            # a spliced prefix would not be re-evaluated per iteration: leave the call as it is
            out.extend(pref)
            out.append(st)
        return out
    for _ in range(depth):
        fn.body = block(fn.body)
    ast.fix_missing_locations(fn)
    return fn


def class_resolver(src, ci, fi=None):
    """resolver for calls of methods of the class `ci` (self./cls./ClassName.) and of functions of its module"""
    def resolve(call: ast.Call):
        f = call.func
        if isinstance(f, ast.Attribute) and isinstance(f.value, ast.Name) and f.value.id in ('self', 'cls', ci.name):
            m = src.find_method(ci, f.attr)
            if m is None:
                return None
            node = m.node
            static = any(isinstance(d, ast.Name) and d.id == 'staticmethod' for d in node.decorator_list)
            if any(isinstance(d, ast.Name) and d.id == 'property' for d in node.decorator_list):
                return None
            return node, not static
        if isinstance(f, ast.Name) and fi is not None:
            for st in fi.module.tree.body:
                if isinstance(st, ast.FunctionDef) and st.name == f.id:
                    return st, False
        return None
    return resolve


def members_resolver(members: dict):
    """resolver for runtime copies: members = {name: FunctionDef}"""
    def resolve(call: ast.Call):
        f = call.func
        if isinstance(f, ast.Attribute) and isinstance(f.value, ast.Name) and f.value.id in ('self', 'cls'):
            node = members.get(f.attr)
            if not isinstance(node, ast.FunctionDef):
                return None
            static = any(isinstance(d, ast.Name) and d.id == 'staticmethod' for d in node.decorator_list)
            return node, not static
        return None
    return resolve


# ----------------------------------------------------------------------------------------------------------------------------
# desugaring of collection-building expressions and conditional expressions in statement position

def _reads(node) -> set:
    return {n.id for n in ast.walk(node) if isinstance(n, ast.Name)}


def _pure_test(e) -> bool:
    """an expression that only inspects its operands (isinstance, comparisons, boolean connectives, attribute reads)"""
    for n in ast.walk(e):
        if isinstance(n, ast.Call):
            if not (isinstance(n.func, ast.Name) and n.func.id in ('isinstance', 'len', 'type', 'callable', 'hasattr')):
                return False
        elif isinstance(n, (ast.NamedExpr, ast.Await, ast.Yield, ast.YieldFrom, ast.Lambda, ast.ListComp, ast.SetComp, ast.DictComp,
                            ast.GeneratorExp)):
            return False
    return isinstance(e, (ast.Call, ast.Compare, ast.BoolOp, ast.UnaryOp))


def _expand_test_aliases(stmts: list) -> list:
    """`t = <pure test>` (bound once in the function, read afterwards in the same block while its operands are not re-bound): the
    reads of t are replaced by the test"""
    out = list(stmts)
    i = 0
    while i < len(out):
        st = out[i]
        if isinstance(st, ast.Assign) and len(st.targets) == 1 and isinstance(st.targets[0], ast.Name) and _pure_test(st.value):
            name = st.targets[0].id
            if name in _reads(st.value):
                i += 1
                continue
            rest = out[i + 1:]
            stores = [n for s in rest for n in ast.walk(s) if isinstance(n, ast.Name) and isinstance(n.ctx, ast.Store) and
                      n.id in (_reads(st.value) | {name})]
            if not stores and not any(isinstance(n, (ast.FunctionDef, ast.Lambda)) for s in rest for n in ast.walk(s)):
                sub = _Subst({name: st.value}, {})
                out[i + 1:] = [sub.visit(s) for s in rest]
        i += 1
    return out


def desugar_list(stmts: list) -> list:
    stmts = _expand_test_aliases(stmts)
    out = []
    for st in stmts:
        for fld in ('body', 'orelse', 'finalbody'):
            lst = getattr(st, fld, None)
            if isinstance(lst, list) and lst and isinstance(lst[0], ast.stmt) and not isinstance(st, (ast.FunctionDef, ast.ClassDef)):
                setattr(st, fld, desugar_list(lst))
        if isinstance(st, ast.Try):
            for h in st.handlers:
                h.body = desugar_list(h.body)
        # L.append(A if c else B)  ->  if c: L.append(A) else: L.append(B)
        if isinstance(st, ast.Expr) and isinstance(st.value, ast.Call) and isinstance(st.value.func, ast.Attribute) and \
                st.value.func.attr == 'append' and len(st.value.args) == 1 and isinstance(st.value.args[0], ast.IfExp) and \
                not st.value.keywords:
            c = st.value
            ie = c.args[0]

            def app(v):
                return ast.copy_location(ast.Expr(value=ast.copy_location(
                    ast.Call(func=copy.deepcopy(c.func), args=[v], keywords=[]), c)), st)
            new = ast.copy_location(ast.If(test=ie.test, body=desugar_list([app(ie.body)]), orelse=desugar_list([app(ie.orelse)])), st)
            out.append(new)
            continue
        # L.append([E for x in it if c])  /  name = [E for x in it if c]   ->  explicit loop filling a fresh list
        comp = None
        if isinstance(st, ast.Expr) and isinstance(st.value, ast.Call) and isinstance(st.value.func, ast.Attribute) and \
                st.value.func.attr == 'append' and len(st.value.args) == 1 and isinstance(st.value.args[0], ast.ListComp):
            comp = st.value.args[0]
            k = next(_counter)
            tmp = f'built__d{k}'
        elif isinstance(st, ast.Assign) and len(st.targets) == 1 and isinstance(st.targets[0], ast.Name) and \
                isinstance(st.value, ast.ListComp):
            comp = st.value
            tmp = st.targets[0].id
            if tmp in _reads(comp):
                comp = None
        if comp is not None and len(comp.generators) == 1 and not comp.generators[0].is_async:
            g = comp.generators[0]
            init = ast.copy_location(ast.Assign(targets=[ast.Name(id=tmp, ctx=ast.Store())], value=ast.List(elts=[], ctx=ast.Load())), st)
            add = ast.copy_location(ast.Expr(value=ast.Call(func=ast.Attribute(value=ast.Name(id=tmp, ctx=ast.Load()), attr='append',
                                                                              ctx=ast.Load()), args=[comp.elt], keywords=[])), comp)
            body = [add]
            for c in reversed(g.ifs):
                body = [ast.copy_location(ast.If(test=c, body=body, orelse=[]), comp)]
            loop = ast.copy_location(ast.For(target=g.target, iter=g.iter, body=desugar_list(body), orelse=[]), comp)
            out.extend([init, loop])
            if isinstance(st, ast.Expr):
                st.value.args[0] = ast.copy_location(ast.Name(id=tmp, ctx=ast.Load()), comp)
                out.append(st)
            continue
        out.append(st)
    return out


def desugar(fn: ast.FunctionDef) -> ast.FunctionDef:
    """list comprehensions that are appended / bound become explicit loops, appended conditional expressions become if/else,
    locals that merely name a pure test are replaced by the test"""
    fn = copy.deepcopy(fn)
    fn.body = desugar_list(fn.body)
    ast.fix_missing_locations(fn)
    return fn


def inline_class_constants(fn: ast.FunctionDef, cls_node: ast.ClassDef, class_name: str) -> ast.FunctionDef:
    """`cls.NAME` / `self.NAME` / `Class.NAME` where NAME is bound once at class level to a literal (str, number, tuple of
    literals) and never re-bound through an attribute store anywhere in the class -> the literal"""
    consts = {}
    for st in cls_node.body:
        tgt = val = None
        if isinstance(st, ast.Assign) and len(st.targets) == 1 and isinstance(st.targets[0], ast.Name):
            tgt, val = st.targets[0].id, st.value
        elif isinstance(st, ast.AnnAssign) and isinstance(st.target, ast.Name) and st.value is not None:
            tgt, val = st.target.id, st.value
        if tgt is None:
            continue
        try:
            ast.literal_eval(val)
        except Exception:
            continue
        consts[tgt] = val if tgt not in consts else None
    consts = {k: v for k, v in consts.items() if v is not None}
    for n in ast.walk(cls_node):
        if isinstance(n, ast.Attribute) and isinstance(n.ctx, (ast.Store, ast.Del)) and n.attr in consts:
            consts.pop(n.attr, None)
    if not consts:
        return fn

    class T(ast.NodeTransformer):
        def visit_Attribute(self, node):
            self.generic_visit(node)
            if isinstance(node.ctx, ast.Load) and isinstance(node.value, ast.Name) and node.value.id in ('cls', 'self', class_name) and \
                    node.attr in consts:
                return ast.copy_location(copy.deepcopy(consts[node.attr]), node)
            return node
    fn = T().visit(copy.deepcopy(fn))
    ast.fix_missing_locations(fn)
    return fn


def split_tuple_assign(fn: ast.FunctionDef) -> ast.FunctionDef:
    """`a, b = (x, y)` with plain names on the left that the right side does not read -> `a = x; b = y`"""
    fn = copy.deepcopy(fn)

    def block(stmts):
        out = []
        for st in stmts:
            for fld in ('body', 'orelse', 'finalbody'):
                lst = getattr(st, fld, None)
                if isinstance(lst, list) and lst and isinstance(lst[0], ast.stmt) and not isinstance(st, (ast.FunctionDef, ast.ClassDef)):
                    setattr(st, fld, block(lst))
            if isinstance(st, ast.Try):
                for h in st.handlers:
                    h.body = block(h.body)
            if isinstance(st, ast.Assign) and len(st.targets) == 1 and isinstance(st.targets[0], ast.Tuple) and \
                    isinstance(st.value, ast.Tuple) and len(st.targets[0].elts) == len(st.value.elts) and \
                    all(isinstance(t, ast.Name) for t in st.targets[0].elts) and \
                    not ({t.id for t in st.targets[0].elts} & _reads(st.value)):
                for t, v in zip(st.targets[0].elts, st.value.elts):
                    out.append(ast.copy_location(ast.Assign(targets=[t], value=v), st))
                continue
            out.append(st)
        return out
    fn.body = block(fn.body)
    ast.fix_missing_locations(fn)
    return fn


def coalesce_copies(fn: ast.FunctionDef) -> ast.FunctionDef:
    """`X = Y` where X is bound nowhere else and Y is a local introduced by inlining (name__iN): Y is renamed to X and the copy
    dropped (the helper's variable IS the caller's variable)"""
    fn = copy.deepcopy(fn)
    for _ in range(8):
        stores = {}
        for n in ast.walk(fn):
            if isinstance(n, ast.Name) and isinstance(n.ctx, ast.Store):
                stores[n.id] = stores.get(n.id, 0) + 1
        cand = None
        for n in ast.walk(fn):
            if isinstance(n, ast.Assign) and len(n.targets) == 1 and isinstance(n.targets[0], ast.Name) and isinstance(n.value, ast.Name) \
                    and '__i' in n.value.id and stores.get(n.targets[0].id) == 1 and n.targets[0].id != n.value.id:
                cand = n
                break
        if cand is None:
            break
        x, y = cand.targets[0].id, cand.value.id

        class R(ast.NodeTransformer):
            def visit_Name(self, node):
                if node.id == y:
                    node.id = x
                return node

            def visit_Assign(self, node):
                if node is cand:
                    return None
                self.generic_visit(node)
                return node
        fn = R().visit(fn)
        for n in ast.walk(fn):
            for fld in ('body', 'orelse', 'finalbody'):
                lst = getattr(n, fld, None)
                if isinstance(lst, list) and fld == 'body' and not lst and isinstance(n, (ast.If, ast.For, ast.While, ast.With, ast.FunctionDef)):
                    n.body = [ast.Pass()]
    ast.fix_missing_locations(fn)
    return fn


def module_resolver(module_tree: ast.Module, exclude: set | None = None):
    """resolver for calls of functions of the same module by bare name"""
    fns = {st.name: st for st in module_tree.body if isinstance(st, ast.FunctionDef)}

    def resolve(call: ast.Call):
        f = call.func
        if isinstance(f, ast.Name) and f.id in fns and f.id not in (exclude or ()):
            return fns[f.id], False
        return None
    return resolve
