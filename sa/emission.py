"""Engine T (driver) -- emission templates of every translator, per production, and their Python skeletons."""
from __future__ import annotations

import ast
from dataclasses import dataclass, field

from .core import AnalysisError, loc_of
from .source import SourceModel, ClassInfo
from .grammar import Grammar, get_grammar, ENTRY
from .symeval import (Interp, explore, Outcome, Tok, ClsV, ObjV, Code, Part, Const, CellV, ListV, TupleV, GroupStr, NumV,
                      Opaque, DictV, world_str, root_production, code_of, V)

ENTRY_TRANSLATOR = 'EntryPointTokenTranslator'
TRANSLATOR_BASE = 'AbstractTranslator'


@dataclass
class Emission:
    translator: str
    token_cls: str
    outcome: Outcome

    @property
    def production(self):
        return root_production(self.outcome.world)

    @property
    def construct(self):
        p = self.production
        return f'{self.translator}/{self.token_cls}' + (f'/production[{p}]' if p is not None else '')

    @property
    def world(self):
        return world_str(self.outcome.world)


class EmissionModel:
    def __init__(self, src: SourceModel, g: Grammar):
        self.src, self.g = src, g
        self.pairs: dict[tuple, list[Emission]] = {}
        self.errors: list[str] = []
        self._close()

    def analyse(self, translator: str, token_cls: str) -> list[Emission]:
        ci = self.src.cls(translator)
        fi = self.src.find_method(ci, 'translate')
        if fi is None:
            raise AnalysisError('T', f'{translator} has no translate method')

        def run(it: Interp):
            tok = Tok(token_cls)
            return it.call_repo(fi, [ClsV(ci), tok, ObjV('excel'), ObjV('context')], {}, None)
        outs = explore(self.src, self.g, run)
        return [Emission(translator, token_cls, o) for o in outs]

    def _close(self):
        if not self.src.has_cls(ENTRY_TRANSLATOR):
            raise AnalysisError('T', f'{ENTRY_TRANSLATOR} not found')
        work = [(ENTRY_TRANSLATOR, ENTRY)]
        while work:
            pair = work.pop()
            if pair in self.pairs:
                continue
            tr, tk = pair
            if tk not in self.g.composites and tk not in self.g.terminals:
                raise AnalysisError('T', f'{tr} is applied to {tk}, which is not a token class')
            ems = self.analyse(tr, tk)
            self.pairs[pair] = ems
            for e in ems:
                for eff in e.outcome.effects:
                    if eff.kind == 'translate-call':
                        subj = eff.detail['subject']
                        if isinstance(subj, Tok):
                            nxt = (eff.detail['translator'], subj.cls)
                            if nxt not in self.pairs:
                                work.append(nxt)

    # ---- inlining of terminal slots ------------------------------------------------------------------
    def closed_text(self, translator: str, token_cls: str):
        """the text a translator prints for a terminal token when it is the same in every world"""
        ems = self.pairs.get((translator, token_cls))
        if not ems or token_cls not in self.g.terminals:
            return None
        texts = set()
        for e in ems:
            o = e.outcome
            if o.kind != 'return':
                return None
            v = o.value
            if isinstance(v, Const) and isinstance(v.value, str):
                texts.add(v.value)
            elif isinstance(v, Code) and v.text_only() is not None:
                texts.add(v.text_only())
            elif isinstance(v, GroupStr):
                lang = self.g.terminals[v.owner].rx.group_lang(v.gid)
                if lang.finite is not None and len(lang.finite) == 1 and not v.derived:
                    texts.add(next(iter(lang.finite)))
                else:
                    return None
            else:
                return None
        return texts.pop() if len(texts) == 1 else None

    def inline(self, code: Code) -> Code:
        parts = []
        for p in code.parts:
            if isinstance(p, Part) and p.kind == 'slot' and isinstance(p.b, Tok):
                t = self.closed_text(p.a, p.b.cls)
                if t is not None:
                    parts.append(t)
                    continue
            if isinstance(p, Part) and p.kind == 'sub':
                parts.append(Part('sub', self.inline(p.a), p.b, node=p.node))
                continue
            parts.append(p)
        return code_of(*parts)

    # ---- reachability under ordered choice ------------------------------------------------------------------
    def _expansions(self, tok_cls: str, world: dict) -> dict:
        """child position -> symbols of the production chosen for that child in this world (one level)"""
        out = {}
        r = world.get(('prod', ()))
        if r is None:
            return out
        syms = self.g.composites[tok_cls].productions[r]
        for k, sym in enumerate(syms):
            pk = world.get(('prod', (k,)))
            if pk is not None and sym in self.g.composites:
                out[k] = list(self.g.composites[sym].productions[pk])
        return out

    def shadow_of(self, e: Emission):
        """(index of the pre-empting production) when this emission's root production, with the child productions its
        world fixed, can never be selected by the ordered-choice parser; None when reachable"""
        cache = self.__dict__.setdefault('_shadow_cache', {})
        if id(e) not in cache:
            cache[id(e)] = self._shadow_of(e)
        return cache[id(e)]

    def _shadow_of(self, e: Emission):
        r = e.production
        if r is None or e.token_cls not in self.g.composites:
            return None
        return self.g.shadowed_by(e.token_cls, r, self._expansions(e.token_cls, e.outcome.world))

    def occurrences(self, translator: str, token_cls: str):
        """(parent emission, child path) for every place the pair is invoked from"""
        cache = self.__dict__.setdefault('_occ_cache', {})
        if (translator, token_cls) not in cache:
            cache[(translator, token_cls)] = self._occurrences(translator, token_cls)
        return cache[(translator, token_cls)]

    def _occurrences(self, translator: str, token_cls: str):
        out = []
        for ems in self.pairs.values():
            for pe in ems:
                for eff in pe.outcome.effects:
                    if eff.kind == 'translate-call' and eff.detail['translator'] == translator and \
                            isinstance(eff.detail['subject'], Tok) and eff.detail['subject'].cls == token_cls:
                        out.append((pe, eff.detail['subject'].path))
        return out

    def unreachable(self, e: Emission) -> str | None:
        """reason why this emission cannot occur, or None (cached)"""
        cache = self.__dict__.setdefault('_unreach_cache', {})
        k = id(e)
        if k not in cache:
            cache[k] = self._unreachable(e)
        return cache[k]

    def _unreachable(self, e: Emission) -> str | None:
        sh = self.shadow_of(e)
        if sh is not None:
            return f'production[{e.production}] is always pre-empted by production[{sh}] of {e.token_cls}'
        r = e.production
        if (e.translator, e.token_cls) == (ENTRY_TRANSLATOR, ENTRY):
            return None
        occ = self.occurrences(e.translator, e.token_cls)
        if not occ:
            return None
        reasons = []
        for pe, path in occ:
            psh = self.shadow_of(pe)
            if psh is not None:
                reasons.append(f'only invoked from {pe.token_cls}/production[{pe.production}], which production[{psh}] pre-empts')
                continue
            if r is None:
                return None
            if len(path) != 1 or pe.production is None:
                return None
            fixed = pe.outcome.world.get(('prod', path))
            if fixed is not None and fixed != r:
                reasons.append('parent world has another production')
                continue
            exp = self._expansions(pe.token_cls, pe.outcome.world)
            exp[path[0]] = list(self.g.composites[e.token_cls].productions[r])
            sh = self.g.shadowed_by(pe.token_cls, pe.production, exp)
            if sh is None:
                return None
            reasons.append(f'{pe.token_cls}/production[{pe.production}] with this child is pre-empted by production[{sh}]')
        return '; '.join(sorted(set(reasons))) or None

    def emissions(self, translator: str = None, token_cls: str = None) -> list[Emission]:
        out = []
        for (tr, tk), ems in self.pairs.items():
            if (translator is None or tr == translator) and (token_cls is None or tk == token_cls):
                out.extend(ems)
        return out

    def translators_of(self, token_cls: str) -> list[str]:
        return sorted({tr for (tr, tk) in self.pairs if tk == token_cls})

    def function_pairs(self):
        """(translator, function token class) for the 40 function constructions"""
        fns = {c.name for c in self.g.functions()}
        return sorted(p for p in self.pairs if p[1] in fns)


_em_cache: dict = {}


def get_emission(src: SourceModel) -> EmissionModel:
    if id(src) not in _em_cache:
        _em_cache[id(src)] = EmissionModel(src, get_grammar(src))
    return _em_cache[id(src)]


# ---------------------------------------------------------------------------------------------------
# skeletons
# ---------------------------------------------------------------------------------------------------
@dataclass
class Skeleton:
    text: str
    atoms: dict                 # atom name -> Part
    tree: ast.AST | None = None
    error: str = ''
    subs: dict = field(default_factory=dict)     # atom name -> Skeleton of the sub-cell code


def render(code: Code, prefix='A') -> Skeleton:
    atoms, subs = {}, {}
    out = []
    n = [0]

    def atom(p: Part, tag):
        name = f'__{tag}{prefix}{n[0]}__'
        n[0] += 1
        atoms[name] = p
        return name

    for p in code.parts:
        if isinstance(p, str):
            out.append(p)
        elif p.kind == 'slot':
            out.append(atom(p, 'S'))
        elif p.kind == 'sub':
            name = atom(p, 'B')
            subs[name] = render(p.a, prefix + 'b' + str(len(subs)))
            out.append(name)
        elif p.kind == 'cellref':
            out.append(atom(p, 'C'))
        elif p.kind == 'raw':
            out.append(atom(p, 'T'))
        elif p.kind == 'repr':
            out.append(atom(p, 'R'))
        elif p.kind == 'num':
            out.append(atom(p, 'N'))
        elif p.kind == 'pyrepr':
            out.append(render_pyrepr(p.a, atom))
        elif p.kind == 'tokrepr':
            out.append(atom(p, 'K'))
        else:
            out.append(atom(p, 'O'))
    text = ''.join(out)
    sk = Skeleton(text, atoms, subs=subs)
    try:
        sk.tree = ast.parse(text.strip() or 'None', mode='eval')
    except SyntaxError as e:
        sk.error = f'{e.msg} at col {e.offset}'
    return sk


def render_pyrepr(v, atom) -> str:
    """text produced by formatting a Python list/tuple/dict object: strings inside appear repr-quoted"""
    if isinstance(v, ListV):
        return '[' + ', '.join(render_pyrepr(x, atom) for x in v.items) + ']'
    if isinstance(v, TupleV):
        inner = ', '.join(render_pyrepr(x, atom) for x in v.items)
        return '(' + inner + (',' if len(v.items) == 1 else '') + ')'
    if isinstance(v, DictV):
        return '{' + ', '.join(f'{render_pyrepr(k, atom)}: {render_pyrepr(x, atom)}' for k, x in v.items) + '}'
    if isinstance(v, Const):
        return repr(v.value)
    if isinstance(v, Code):
        t = v.text_only()
        if t is not None:
            return repr(t)
        # a string object inside a container: its repr is a quoted constant whatever its content
        return repr(''.join(p if isinstance(p, str) else atom(Part('quoted', p), 'Q') for p in v.parts))
    if isinstance(v, GroupStr):
        return repr(atom(Part('quoted', Part('raw', v)), 'Q'))
    return atom(Part('opaque', f'repr({type(v).__name__})'), 'O')


def atom_names(node) -> list:
    return [n.id for n in ast.walk(node) if isinstance(n, ast.Name) and n.id.startswith('__') and n.id.endswith('__')]


def is_atomic(tree: ast.Expression) -> bool:
    """the expression keeps its meaning as an operand of any Python operator"""
    b = tree.body
    return isinstance(b, (ast.Call, ast.Name, ast.Constant, ast.Attribute, ast.Subscript, ast.List, ast.Tuple, ast.Dict,
                          ast.Set, ast.ListComp, ast.JoinedStr)) and not (isinstance(b, ast.Tuple) and not _parenthesised(tree))


def _parenthesised(tree) -> bool:
    return False


def helper_calls(tree) -> list:
    """(name, Call node) for every self._xxx(...) / self.xxx(...) call in a skeleton"""
    out = []
    for n in ast.walk(tree):
        if isinstance(n, ast.Call) and isinstance(n.func, ast.Attribute) and isinstance(n.func.value, ast.Name) and \
                n.func.value.id == 'self':
            out.append((n.func.attr, n))
    return out


def deferred_positions(tree) -> dict:
    """atom name -> 'eager' | 'ifexp-body' | 'ifexp-orelse' | 'ifexp-test' | 'lambda' (innermost deferring construct)"""
    res = {}

    def walk(node, ctx):
        if isinstance(node, ast.Name) and node.id.startswith('__') and node.id.endswith('__'):
            res[node.id] = ctx
            return
        if isinstance(node, ast.IfExp):
            walk(node.test, ctx if ctx != 'eager' else 'ifexp-test' if False else ctx)
            walk(node.body, 'ifexp-body')
            walk(node.orelse, 'ifexp-orelse')
            return
        if isinstance(node, ast.Lambda):
            walk(node.body, 'lambda')
            return
        if isinstance(node, ast.BoolOp):
            walk(node.values[0], ctx)
            for v in node.values[1:]:
                walk(v, 'boolop-rhs' if ctx == 'eager' else ctx)
            return
        for c in ast.iter_child_nodes(node):
            walk(c, ctx)
    walk(tree, 'eager')
    return res
