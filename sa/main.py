"""check <ID>|all [--tier quick|thorough] [--replay <path>] [--list]"""
from __future__ import annotations

import argparse
import importlib
import json
import os
import sys
import traceback

from .core import Run, AnalysisError, EVIDENCE_DIR, REPO

PROPS = [f'C{i:02d}' for i in range(1, 21)]


def run_property(prop: str, tier: str, seed: int, quiet=False) -> int:
    run = Run(prop, tier, seed, quiet=quiet)
    try:
        mod = importlib.import_module(f'sa.rules.{prop.lower()}')
    except ModuleNotFoundError:
        print(f'ANALYSIS-ERROR property={prop} rule=core: no check is built for this property')
        return 2
    try:
        info = mod.run(run)
    except AnalysisError as e:
        run.error(e.rule, e.reason)
        info = getattr(mod, 'INFO', {})
    except Exception as e:
        run.error('core', f'internal error {type(e).__name__}: {e}\n{traceback.format_exc(limit=8)}')
        info = getattr(mod, 'INFO', {})
    info = info or getattr(mod, 'INFO', {})
    if tier == 'thorough' and not os.environ.get('VERIF_NO_SELFTEST'):
        try:
            from .selfcheck import thorough
            thorough(run, prop)
        except Exception as e:
            run.error('selftest', f'self-test could not run: {type(e).__name__}: {e}')
    return run.finish(info.get('explanation', ''), info.get('rule', ''), info.get('trusted', []))


def main(argv=None) -> int:
    ap = argparse.ArgumentParser(prog='check')
    ap.add_argument('prop', nargs='?', default='all')
    ap.add_argument('--tier', default=os.environ.get('VERIF_TIER') or 'quick', choices=['quick', 'thorough'])
    ap.add_argument('--replay')
    ap.add_argument('--quiet', action='store_true')
    a = ap.parse_args(argv)
    try:
        seed = int(os.environ.get('VERIF_SEED', '0') or 0)
    except ValueError:
        seed = 0
    if a.replay:
        try:
            f = json.load(open(a.replay))
        except Exception as e:
            print(f'cannot read replay file: {e}')
            return 2
        prop = f['property']
        print(f"replaying {f['key']} (recorded at {f.get('loc')}): {f.get('message')}")
        rc = run_property(prop, a.tier, seed)
        return rc
    props = PROPS if a.prop == 'all' else [a.prop.upper()]
    worst = 0
    for p in props:
        rc = run_property(p, a.tier, seed, quiet=a.quiet)
        worst = max(worst, rc) if rc != 1 else (1 if worst != 2 else 2)
    return worst


if __name__ == '__main__':
    try:
        sys.exit(main())
    except SystemExit:
        raise
    except BaseException as e:  # never let a traceback look like a violation (exit 1)
        print(f'ANALYSIS-ERROR property=? rule=core: {type(e).__name__}: {e}')
        traceback.print_exc()
        sys.exit(2)
