"""Argument plumbing: for every (Excel function, production) the canonical form of the emitted code in which every slot
is named after the Excel argument it comes from (arg1, arg2, ...) and every runtime-helper call is rewritten with keyword
arguments taken from the helper's signature in the class template.  The canonical forms of today's tree were confirmed
against Excel's documented signatures and frozen in sa/reference/plumbing.json (oracle (c) of DESIGN section 1)."""
from __future__ import annotations

import ast
import json
import re
from pathlib import Path

from .core import AnalysisError
from .emission import EmissionModel, Emission, render, Skeleton
from .runtime import RuntimeModel
from .symeval import Code, Part, Tok, CellV, Const, NumV, GroupStr
from .rules.common import expanded_leaves, PUNCTUATION, skeleton_of, _tag_path

REF_FILE = Path(__file__).resolve().parent / 'reference' / 'plumbing.json'


def _arg_units(em: EmissionModel, e: Emission):
    """ordered list of argument leaves (paths) of the production in this world"""
    g = em.g
    out = []
    for path, sym in expanded_leaves(g, e.token_cls, e.outcome.world):
        if not path or sym in PUNCTUATION or (sym in g.terminals and g.terminals[sym].keyword):
            continue
        out.append(path)
    return out


def _name_for(path, units):
    covered = [i + 1 for i, u in enumerate(units) if u[:len(path)] == path or path[:len(u)] == u]
    if not covered:
        return 'arg?'
    if len(covered) == 1:
        return f'arg{covered[0]}'
    return f'arg{covered[0]}to{covered[-1]}'


def _atom_label(p: Part, units):
    if p.kind == 'slot':
        subj = p.b
        if isinstance(subj, Tok):
            return _name_for(subj.path, units)
        if isinstance(subj, CellV):
            return _cell_label(subj.tag, units) if subj.tag else 'cell_' + re.sub(r'\W+', '_', subj.origin.split('@')[0])
    if p.kind == 'cellref':
        return 'cellref'
    if p.kind == 'num':
        return 'number'
    if p.kind == 'repr':
        return 'repr_text'
    if p.kind == 'raw':
        return 'raw_text'
    if p.kind == 'quoted':
        inner = p.a
        return 'quoted_' + (_atom_label(inner, units) if isinstance(inner, Part) else 'text')
    return p.kind


def _cell_label(tag: str, units) -> str:
    """label of a Cell object from its provenance tag: tok:<path> | area:<tag>;<tag> | similar:(<tag>;<tag>;<tag>)"""
    def one(t):
        tp = _tag_path(t)
        n = t.split('#')[1] if '#' in t else ''
        if tp is not None:
            return ('cell_of_' if not n else f'cell{int(n) + 1}_of_') + _name_for(tp, units)
        return re.sub(r'\W+', '_', t)
    out = re.sub(r'tok:[0-9/]*(#[0-9]+)?', lambda m: one(m.group(0)), tag)
    out = out.replace('area:', 'cells_from_').replace('similar:', 'shifted')
    return re.sub(r'[^A-Za-z0-9_]+', '_', out).strip('_')


class _Canon(ast.NodeTransformer):
    def __init__(self, labels, subs, rt: RuntimeModel, problems):
        self.labels, self.subs, self.rt, self.problems = labels, subs, rt, problems

    def visit_Name(self, node):
        if node.id in self.subs:
            return self.subs[node.id]
        if node.id in self.labels:
            return ast.copy_location(ast.Name(id=self.labels[node.id], ctx=ast.Load()), node)
        return node

    def visit_Constant(self, node):
        if isinstance(node.value, str):
            v = node.value
            for a, lab in self.labels.items():
                v = v.replace(a, '<' + lab + '>')
            return ast.copy_location(ast.Constant(value=v), node)
        return node

    def visit_Call(self, node):
        self.generic_visit(node)
        f = node.func
        if isinstance(f, ast.Attribute) and isinstance(f.value, ast.Name) and f.value.id == 'self':
            fn = self.rt.template.members.get(f.attr)
            if fn is None:
                self.problems.append(f'helper {f.attr} does not exist in the class template')
                return node
            static = any(isinstance(d, ast.Name) and d.id == 'staticmethod' for d in fn.decorator_list)
            params = [a.arg for a in fn.args.posonlyargs + fn.args.args]
            if not static:
                params = params[1:]
            kws = []
            rest = []
            i = 0
            for a in node.args:
                if isinstance(a, ast.Starred):
                    rest.append(a)
                    continue
                if i < len(params) and not rest:
                    kws.append(ast.keyword(arg=params[i], value=a))
                    i += 1
                else:
                    rest.append(a)
            kws += node.keywords
            # parameters that are not supplied take the helper's own default: print it, so that moving a default between the
            # translator and the helper's signature does not change the canonical form
            supplied = {k.arg for k in kws}
            nd = len(fn.args.defaults)
            allp = [a.arg for a in fn.args.posonlyargs + fn.args.args]
            if not rest:
                for a, d in zip(allp[len(allp) - nd:], fn.args.defaults):
                    if a not in supplied and a in params:
                        try:
                            kws.append(ast.keyword(arg=a, value=ast.Constant(value=ast.literal_eval(d))))
                        except Exception:
                            pass
            kws.sort(key=lambda k: k.arg or '')
            return ast.copy_location(ast.Call(func=node.func, args=rest, keywords=kws), node)
        return node


def canonical(em: EmissionModel, e: Emission, rt: RuntimeModel):
    """(canonical text, problems) for a returning emission"""
    sk = skeleton_of(em, e)
    if sk is None:
        return None, ['not code']
    units = _arg_units(em, e)
    problems = []

    def canon(s: Skeleton):
        if s.tree is None:
            problems.append(f'unparseable: {s.text[:60]}')
            return ast.Constant(value=f'<unparseable {s.text[:40]}>')
        labels = {n: _atom_label(p, units) for n, p in s.atoms.items() if n not in s.subs}
        subs = {n: canon(sub) for n, sub in s.subs.items()}
        tree = _Canon(labels, subs, rt, problems).visit(ast.parse(s.text.strip() or 'None', mode='eval'))
        return tree.body
    body = canon(sk)
    try:
        text = ast.unparse(ast.fix_missing_locations(ast.Expression(body=body)))
    except Exception as ex:  # pragma: no cover
        return None, [f'cannot unparse: {ex}']
    return text, problems


def load_reference() -> dict:
    if not REF_FILE.exists():
        raise AnalysisError('plumbing', f'{REF_FILE} missing')
    return json.loads(REF_FILE.read_text())


def helpers_in(text: str) -> set:
    return set(re.findall(r'self\.(_?[A-Za-z]\w*)\(', text))


def keyword_names(text: str) -> dict:
    """helper -> set of keyword names used in the canonical text"""
    out = {}
    try:
        tree = ast.parse(text, mode='eval')
    except SyntaxError:
        return out
    for n in ast.walk(tree):
        if isinstance(n, ast.Call) and isinstance(n.func, ast.Attribute) and isinstance(n.func.value, ast.Name) and \
                n.func.value.id == 'self':
            out.setdefault(n.func.attr, set()).update(k.arg for k in n.keywords if k.arg)
    return out
