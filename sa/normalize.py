"""Source-level canonicalisation applied to every module the analysis reads (repository modules and the instantiated runtime
template) right after parsing, so that every rule sees one spelling of constructs that differ only in spelling:

  return temporaries   `x = E` directly followed by `return x` (x used nowhere else)            ->  `return E`
  conditional returns  `return A if c else B`                                                     ->  `if c: return A` / `else: return B`
  leading negation     `if not c: A else: B` (else present, not an elif chain)                    ->  `if c: B else: A`
                       `A if not c else B`                                                        ->  `B if c else A`
  constant on the left `0 < x`, `'=' == s`                                                        ->  `x > 0`, `s == '='`
  bound comprehensions `L = [E for x in xs if c]`                                                 ->  `L = []` + loop with `L.append(E)`

Every rewrite preserves the meaning of the program; line numbers of the rewritten nodes are kept so that reports still point at
the real source.  Switched off with VERIF_NO_CANON=1 (used to show that the rules do not depend on it for detection)."""
from __future__ import annotations

import ast
import os

_FLIP = {ast.Lt: ast.Gt, ast.Gt: ast.Lt, ast.LtE: ast.GtE, ast.GtE: ast.LtE, ast.Eq: ast.Eq, ast.NotEq: ast.NotEq}


def enabled() -> bool:
    return not os.environ.get('VERIF_NO_CANON')


class _Expr(ast.NodeTransformer):
    def visit_IfExp(self, node):
        self.generic_visit(node)
        if isinstance(node.test, ast.UnaryOp) and isinstance(node.test.op, ast.Not):
            return ast.copy_location(ast.IfExp(test=node.test.operand, body=node.orelse, orelse=node.body), node)
        return node

    def visit_Compare(self, node):
        self.generic_visit(node)
        if len(node.ops) == 1 and type(node.ops[0]) in _FLIP and isinstance(node.left, ast.Constant) and \
                not isinstance(node.comparators[0], ast.Constant):
            return ast.copy_location(ast.Compare(left=node.comparators[0], ops=[_FLIP[type(node.ops[0])]()], comparators=[node.left]), node)
        return node

    def visit_If(self, node):
        self.generic_visit(node)
        if node.orelse and isinstance(node.test, ast.UnaryOp) and isinstance(node.test.op, ast.Not) and \
                not (len(node.orelse) == 1 and isinstance(node.orelse[0], ast.If)):
            return ast.copy_location(ast.If(test=node.test.operand, body=node.orelse, orelse=node.body), node)
        return node


def _own_nodes(fn):
    """nodes of fn's own scope (nested function / lambda bodies excluded)"""
    stack = list(ast.iter_child_nodes(fn))
    while stack:
        n = stack.pop()
        yield n
        if isinstance(n, (ast.FunctionDef, ast.AsyncFunctionDef, ast.Lambda)):
            continue
        stack.extend(ast.iter_child_nodes(n))


def _uses(fn, name) -> int:
    """occurrences of the variable `name` of fn's scope: in fn itself and in nested scopes that do not bind the name themselves"""
    total = 0
    for n in _own_nodes(fn):
        if isinstance(n, ast.Name) and n.id == name:
            total += 1
        if isinstance(n, (ast.FunctionDef, ast.AsyncFunctionDef, ast.Lambda)):
            binds = any(isinstance(x, ast.Name) and x.id == name and isinstance(x.ctx, ast.Store) for x in ast.walk(n)) or \
                any(a.arg == name for a in n.args.args + n.args.kwonlyargs + n.args.posonlyargs)
            if not binds:
                total += sum(1 for x in ast.walk(n) if isinstance(x, ast.Name) and x.id == name)
    return total


def _blocks(node):
    for n in [node] + list(_own_nodes(node)):
        for fld in ('body', 'orelse', 'finalbody'):
            lst = getattr(n, fld, None)
            if isinstance(lst, list) and lst and isinstance(lst[0], ast.stmt):
                yield n, fld, lst
        if isinstance(n, ast.Try):
            for h in n.handlers:
                yield h, 'body', h.body
        if isinstance(n, ast.Match):
            for c in n.cases:
                yield c, 'body', c.body


def _return_pairs(fn, name) -> int:
    n = 0
    for _, _, lst in _blocks(fn):
        for a, b in zip(lst, lst[1:]):
            if isinstance(a, ast.Assign) and len(a.targets) == 1 and isinstance(a.targets[0], ast.Name) and a.targets[0].id == name and \
                    isinstance(b, ast.Return) and isinstance(b.value, ast.Name) and b.value.id == name:
                n += 1
    return n


def _statement_level(fn):
    from .inline import desugar_list
    changed = True
    rounds = 0
    while changed and rounds < 4:
        changed = False
        rounds += 1
        for owner, fld, lst in list(_blocks(fn)):
            out = []
            i = 0
            while i < len(lst):
                st = lst[i]
                nxt = lst[i + 1] if i + 1 < len(lst) else None
                # x = E ; return x
                if isinstance(st, ast.Assign) and len(st.targets) == 1 and isinstance(st.targets[0], ast.Name) and \
                        isinstance(nxt, ast.Return) and isinstance(nxt.value, ast.Name) and nxt.value.id == st.targets[0].id and \
                        _uses(fn, st.targets[0].id) == 2 * max(1, _return_pairs(fn, st.targets[0].id)):
                    out.append(ast.copy_location(ast.Return(value=st.value), st))
                    i += 2
                    changed = True
                    continue
                # return A if c else B
                if isinstance(st, ast.Return) and isinstance(st.value, ast.IfExp):
                    e = st.value
                    out.append(ast.copy_location(ast.If(test=e.test, body=[ast.copy_location(ast.Return(value=e.body), st)],
                                                        orelse=[ast.copy_location(ast.Return(value=e.orelse), st)]), st))
                    i += 1
                    changed = True
                    continue
                out.append(st)
                i += 1
            setattr(owner, fld, out)
    # bound / appended comprehensions -> loops (a comprehension that is returned or passed on stays an expression)
    if not isinstance(fn, ast.Lambda) and any(isinstance(n, ast.ListComp) for n in ast.walk(fn)):
        fn.body = _desugar_comprehensions(fn.body)
    return fn


def _desugar_comprehensions(stmts):
    from .inline import _counter, _reads
    out = []
    for st in stmts:
        for fld in ('body', 'orelse', 'finalbody'):
            lst = getattr(st, fld, None)
            if isinstance(lst, list) and lst and isinstance(lst[0], ast.stmt) and not isinstance(st, (ast.FunctionDef, ast.ClassDef)):
                setattr(st, fld, _desugar_comprehensions(lst))
        if isinstance(st, ast.Try):
            for h in st.handlers:
                h.body = _desugar_comprehensions(h.body)
        comp = None
        if isinstance(st, ast.Expr) and isinstance(st.value, ast.Call) and isinstance(st.value.func, ast.Attribute) and \
                st.value.func.attr == 'append' and len(st.value.args) == 1 and isinstance(st.value.args[0], ast.ListComp):
            comp = st.value.args[0]
            tmp = f'built__d{next(_counter)}'
        elif isinstance(st, ast.Assign) and len(st.targets) == 1 and isinstance(st.targets[0], ast.Name) and isinstance(st.value, ast.ListComp):
            comp = st.value
            tmp = st.targets[0].id
            if tmp in _reads(comp):
                comp = None
        if comp is not None and len(comp.generators) == 1 and not comp.generators[0].is_async:
            g = comp.generators[0]
            init = ast.copy_location(ast.Assign(targets=[ast.Name(id=tmp, ctx=ast.Store())], value=ast.List(elts=[], ctx=ast.Load())), st)
            add = ast.copy_location(ast.Expr(value=ast.Call(func=ast.Attribute(value=ast.Name(id=tmp, ctx=ast.Load()), attr='append',
                                                                              ctx=ast.Load()), args=[comp.elt], keywords=[])), comp)
            body = [add]
            for c in reversed(g.ifs):
                body = [ast.copy_location(ast.If(test=c, body=body, orelse=[]), comp)]
            loop = ast.copy_location(ast.For(target=g.target, iter=g.iter, body=_desugar_comprehensions(body), orelse=[]), comp)
            out.extend([init, loop])
            if isinstance(st, ast.Expr):
                st.value.args[0] = ast.copy_location(ast.Name(id=tmp, ctx=ast.Load()), comp)
                out.append(st)
            continue
        out.append(st)
    return out


def canonicalize_module(tree: ast.Module) -> ast.Module:
    if not enabled():
        return tree
    for fn in [n for n in ast.walk(tree) if isinstance(n, (ast.FunctionDef, ast.AsyncFunctionDef))]:
        _statement_level(fn)
    tree = _Expr().visit(tree)
    # after the expression rewrites a conditional return may have appeared in canonical polarity only now: one more pass
    for fn in [n for n in ast.walk(tree) if isinstance(n, (ast.FunctionDef, ast.AsyncFunctionDef))]:
        _statement_level(fn)
    tree = _Expr().visit(tree)
    ast.fix_missing_locations(tree)
    return tree
