"""Canonical form of runtime helpers for the comparison of the two runtime copies (C20), and the edit script between two
canonical trees.

The canonical form removes spelling choices that cannot change what a helper computes:

  names       locals, nested functions and their parameters are renamed in binding order; parameters of the helper itself are
              renamed by position unless some call anywhere passes them by keyword
  guards      `if c: ...; return` followed by REST  ==  `if c: ... else: REST`
  polarity    `if not c: A else: B` == `if c: B else: A`   (statements and conditional expressions)
  returns     `if c: return A else: return B` == `return A if c else B`;  `True if c else X` == `c or X`,
              `X if c else False` == `c and X`  for boolean-valued c
  no-ops      `pass` next to other statements, a `continue` that ends a loop body
  literals    a list display that is only iterated or searched (`for x in [..]`, `x in [..]`) == the tuple display
  dict merge  `{**a, **b}` == `a | b`;  `d.copy()` == `dict(d)` for attributes initialised with a dict
  class refs  `self.NAME` / `cls.NAME` where NAME is a class-level constant of the copy == the constant's expression
  patterns    `match x: case A() | B(): ...` with class patterns only == the isinstance chain
  comparisons a constant on the left is moved to the right (`0 < x` == `x > 0`)
  aliases     a local that names a pure test and is read afterwards == the test

Every rewrite is an equivalence of Python programs under the stated side conditions (checked syntactically below)."""
from __future__ import annotations

import ast
import copy

from .inline import nest_guards_list, _expand_test_aliases, _Subst
from .runtime import _strip_doc, local_names, _Normalizer

_FLIP = {ast.Lt: ast.Gt, ast.Gt: ast.Lt, ast.LtE: ast.GtE, ast.GtE: ast.LtE, ast.Eq: ast.Eq, ast.NotEq: ast.NotEq}


def _boolean_valued(e) -> bool:
    if isinstance(e, ast.Compare):
        return True
    if isinstance(e, ast.UnaryOp) and isinstance(e.op, ast.Not):
        return True
    if isinstance(e, ast.Call) and isinstance(e.func, ast.Name) and e.func.id in ('isinstance', 'bool', 'callable', 'hasattr', 'any', 'all'):
        return True
    if isinstance(e, ast.BoolOp):
        return all(_boolean_valued(v) for v in e.values)
    if isinstance(e, ast.Constant) and isinstance(e.value, bool):
        return True
    return False


def _is_const(e, v) -> bool:
    return isinstance(e, ast.Constant) and e.value is v


_NEGOP = {ast.In: ast.NotIn, ast.NotIn: ast.In, ast.Is: ast.IsNot, ast.IsNot: ast.Is, ast.Eq: ast.NotEq, ast.NotEq: ast.Eq}


def nnf(e, neg: bool = False):
    """negation normal form of a test (only its truth value is preserved): negations are pushed through and/or and into
    ==, !=, in, is; ordering comparisons keep an explicit `not` (a < b and not a >= b differ on unordered operands)"""
    if isinstance(e, ast.UnaryOp) and isinstance(e.op, ast.Not):
        return nnf(e.operand, not neg)
    if isinstance(e, ast.Compare) and len(e.ops) == 1 and isinstance(e.ops[0], (ast.Is, ast.IsNot)) and \
            _is_const(e.comparators[0], None) and isinstance(e.left, ast.Call) and isinstance(e.left.func, ast.Attribute) and \
            e.left.func.attr in ('search', 'match', 'fullmatch'):
        # a match object is always true: `m is None` == `not m`
        return nnf(e.left, (not neg) if isinstance(e.ops[0], ast.Is) else neg)
    if isinstance(e, ast.BoolOp):
        op = e.op
        if neg:
            op = ast.Or() if isinstance(e.op, ast.And) else ast.And()
        vals = []
        for v in e.values:
            w = nnf(v, neg)
            if isinstance(w, ast.BoolOp) and type(w.op) is type(op):
                vals.extend(w.values)
            else:
                vals.append(w)
        return ast.copy_location(ast.BoolOp(op=op, values=vals), e)
    if neg and isinstance(e, ast.Compare) and len(e.ops) == 1 and type(e.ops[0]) in _NEGOP:
        return ast.copy_location(ast.Compare(left=e.left, ops=[_NEGOP[type(e.ops[0])]()], comparators=e.comparators), e)
    if neg and isinstance(e, ast.Constant) and isinstance(e.value, bool):
        return ast.copy_location(ast.Constant(value=not e.value), e)
    if neg:
        return ast.copy_location(ast.UnaryOp(op=ast.Not(), operand=e), e)
    return e


def _polarity(test):
    """(canonical test, swapped?) for a two-armed choice: of the test and its negation the one whose normal form sorts first"""
    a, b = nnf(test, False), nnf(test, True)
    if ast.dump(b) < ast.dump(a):
        return b, True
    return a, False


class _Rewrite(ast.NodeTransformer):
    def __init__(self, class_consts: dict, dict_attrs: set):
        self.class_consts = class_consts
        self.dict_attrs = dict_attrs

    # ---- expressions -----------------------------------------------------------------------------
    def visit_Attribute(self, node):
        self.generic_visit(node)
        if isinstance(node.value, ast.Name) and node.value.id in ('self', 'cls') and node.attr in self.class_consts and \
                isinstance(node.ctx, ast.Load):
            return copy.deepcopy(self.class_consts[node.attr])
        return node

    def visit_IfExp(self, node):
        self.generic_visit(node)
        t, swapped = _polarity(node.test)
        node = ast.copy_location(ast.IfExp(test=t, body=node.orelse if swapped else node.body,
                                           orelse=node.body if swapped else node.orelse), node)
        if _boolean_valued(node.test):
            if _is_const(node.body, True):
                return ast.copy_location(ast.BoolOp(op=ast.Or(), values=[node.test, node.orelse]), node)
            if _is_const(node.orelse, False):
                return ast.copy_location(ast.BoolOp(op=ast.And(), values=[node.test, node.body]), node)
        return node

    def visit_BoolOp(self, node):
        self.generic_visit(node)
        # flatten nested operators of the same kind
        vals = []
        for v in node.values:
            if isinstance(v, ast.BoolOp) and type(v.op) is type(node.op):
                vals.extend(v.values)
            else:
                vals.append(v)
        node.values = vals
        return node

    def visit_Compare(self, node):
        self.generic_visit(node)
        if len(node.ops) == 1:
            op, r = node.ops[0], node.comparators[0]
            if isinstance(node.left, ast.Constant) and not isinstance(r, ast.Constant) and type(op) in _FLIP:
                return ast.copy_location(ast.Compare(left=r, ops=[_FLIP[type(op)]()], comparators=[node.left]), node)
            if isinstance(op, (ast.In, ast.NotIn)) and isinstance(r, ast.List):
                node.comparators = [ast.copy_location(ast.Tuple(elts=r.elts, ctx=ast.Load()), r)]
        return node

    def visit_UnaryOp(self, node):
        self.generic_visit(node)
        if isinstance(node.op, ast.Not) and isinstance(node.operand, ast.Compare) and len(node.operand.ops) == 1:
            neg = {ast.In: ast.NotIn, ast.NotIn: ast.In, ast.Is: ast.IsNot, ast.IsNot: ast.Is, ast.Eq: ast.NotEq, ast.NotEq: ast.Eq}
            t = type(node.operand.ops[0])
            if t in neg:
                c = node.operand
                return ast.copy_location(ast.Compare(left=c.left, ops=[neg[t]()], comparators=c.comparators), node)
        if isinstance(node.op, ast.Not) and isinstance(node.operand, ast.UnaryOp) and isinstance(node.operand.op, ast.Not) and \
                _boolean_valued(node.operand.operand):
            return node.operand.operand
        return node

    def visit_Dict(self, node):
        self.generic_visit(node)
        if len(node.keys) == 2 and node.keys[0] is None and node.keys[1] is None:
            return ast.copy_location(ast.BinOp(left=node.values[0], op=ast.BitOr(), right=node.values[1]), node)
        return node

    def visit_Call(self, node):
        self.generic_visit(node)
        f = node.func
        if isinstance(f, ast.Attribute) and f.attr == 'copy' and not node.args and not node.keywords and \
                isinstance(f.value, ast.Attribute) and isinstance(f.value.value, ast.Name) and f.value.value.id == 'self' and \
                f.value.attr in self.dict_attrs:
            return ast.copy_location(ast.Call(func=ast.Name(id='dict', ctx=ast.Load()), args=[f.value], keywords=[]), node)
        return node

    def _iter(self, it):
        if isinstance(it, ast.List):
            return ast.copy_location(ast.Tuple(elts=it.elts, ctx=ast.Load()), it)
        return it

    def visit_comprehension(self, node):
        self.generic_visit(node)
        node.ifs = [nnf(c) for c in node.ifs]
        node.iter = self._iter(node.iter)
        return node

    # ---- statements ------------------------------------------------------------------------------
    def visit_For(self, node):
        self.generic_visit(node)
        node.iter = self._iter(node.iter)
        node.body = _drop_tail_continue(node.body) or [ast.copy_location(ast.Pass(), node)]
        return node

    def visit_While(self, node):
        self.generic_visit(node)
        node.test = nnf(node.test)
        node.body = _drop_tail_continue(node.body) or [ast.copy_location(ast.Pass(), node)]
        return node

    def visit_If(self, node):
        self.generic_visit(node)
        if node.orelse:
            t, swapped = _polarity(node.test)
            node = ast.copy_location(ast.If(test=t, body=node.orelse if swapped else node.body,
                                            orelse=node.body if swapped else node.orelse), node)
        else:
            node.test = nnf(node.test)
        # if c: return A else: return B  ->  return A if c else B
        if len(node.body) == 1 and len(node.orelse) == 1 and isinstance(node.body[0], ast.Return) and \
                isinstance(node.orelse[0], ast.Return) and node.body[0].value is not None and node.orelse[0].value is not None:
            e = ast.copy_location(ast.IfExp(test=node.test, body=node.body[0].value, orelse=node.orelse[0].value), node)
            return ast.copy_location(ast.Return(value=self.visit_IfExp(e)), node)
        return node

    def visit_Match(self, node):
        self.generic_visit(node)

        def classes(p):
            if isinstance(p, ast.MatchClass) and not p.patterns and not p.kwd_patterns:
                return [p.cls]
            if isinstance(p, ast.MatchOr):
                out = []
                for q in p.patterns:
                    c = classes(q)
                    if c is None:
                        return None
                    out += c
                return out
            return None
        chain = []
        default = None
        for i, case in enumerate(node.cases):
            if case.guard is not None:
                return node
            if isinstance(case.pattern, ast.MatchAs) and case.pattern.pattern is None and case.pattern.name is None:
                if i != len(node.cases) - 1:
                    return node
                default = case.body
                continue
            cs = classes(case.pattern)
            if cs is None:
                return node
            second = cs[0] if len(cs) == 1 else ast.Tuple(elts=cs, ctx=ast.Load())
            test = ast.Call(func=ast.Name(id='isinstance', ctx=ast.Load()), args=[copy.deepcopy(node.subject), second], keywords=[])
            chain.append((test, case.body))
        if not chain or not isinstance(node.subject, ast.Name):
            return node
        orelse = default or []
        for test, body in reversed(chain):
            orelse = [ast.copy_location(ast.If(test=test, body=body, orelse=orelse), node)]
        return orelse[0]


def _drop_tail_continue(stmts: list) -> list:
    """a `continue` in tail position of a loop body does nothing"""
    if not stmts:
        return stmts
    last = stmts[-1]
    if isinstance(last, ast.Continue):
        return _drop_tail_continue(stmts[:-1])
    if isinstance(last, ast.If):
        last.body = _drop_tail_continue(last.body) or [ast.copy_location(ast.Pass(), last)]
        last.orelse = _drop_tail_continue(last.orelse)
    elif isinstance(last, ast.Try) and not last.finalbody:
        last.body = _drop_tail_continue(last.body) or [ast.copy_location(ast.Pass(), last)]
        for h in last.handlers:
            h.body = _drop_tail_continue(h.body) or [ast.copy_location(ast.Pass(), h)]
        last.orelse = _drop_tail_continue(last.orelse)
    return stmts


def _drop_pass(node):
    for n in ast.walk(node):
        for fld in ('body', 'orelse', 'finalbody'):
            lst = getattr(n, fld, None)
            if isinstance(lst, list) and lst and isinstance(lst[0], ast.stmt):
                kept = [s for s in lst if not isinstance(s, ast.Pass)]
                if fld == 'body' and not kept:
                    kept = [lst[0]]
                setattr(n, fld, kept)
        if isinstance(n, ast.If) and n.orelse and len(n.body) == 1 and isinstance(n.body[0], ast.Pass):
            # if c: pass else: B   ->   if not c: B
            n.test = ast.copy_location(ast.UnaryOp(op=ast.Not(), operand=n.test), n.test)
            n.body, n.orelse = n.orelse, []


def _alias_blocks(node):
    from .inline import _pure_test
    for n in ast.walk(node):
        for fld in ('body', 'orelse', 'finalbody'):
            lst = getattr(n, fld, None)
            if isinstance(lst, list) and lst and isinstance(lst[0], ast.stmt):
                setattr(n, fld, _expand_test_aliases(lst))
    # a local that names a pure test and is never read (any more) is a dead store
    reads = {x.id for x in ast.walk(node) if isinstance(x, ast.Name) and isinstance(x.ctx, ast.Load)}
    for n in ast.walk(node):
        for fld in ('body', 'orelse', 'finalbody'):
            lst = getattr(n, fld, None)
            if isinstance(lst, list) and lst and isinstance(lst[0], ast.stmt):
                kept = [s for s in lst if not (isinstance(s, ast.Assign) and len(s.targets) == 1 and isinstance(s.targets[0], ast.Name)
                                               and s.targets[0].id not in reads and _pure_test(s.value))]
                setattr(n, fld, kept or [ast.copy_location(ast.Pass(), lst[0])])


def _drop_tail_return(stmts: list) -> list:
    """a bare `return` / `return None` in tail position of the function does nothing"""
    if not stmts:
        return stmts
    last = stmts[-1]
    if isinstance(last, ast.Return) and (last.value is None or _is_const(last.value, None)):
        return _drop_tail_return(stmts[:-1])
    if isinstance(last, ast.If):
        last.body = _drop_tail_return(last.body) or [ast.copy_location(ast.Pass(), last)]
        last.orelse = _drop_tail_return(last.orelse)
    return stmts


def copy_context(cp) -> tuple:
    """(class-level constants, dict-valued attributes) of a runtime copy"""
    consts = {}
    for st in cp.cls_node.body:
        if isinstance(st, ast.AnnAssign) and st.value is not None and isinstance(st.target, ast.Name):
            consts[st.target.id] = st.value
        if isinstance(st, ast.Assign) and len(st.targets) == 1 and isinstance(st.targets[0], ast.Name):
            consts[st.targets[0].id] = st.value
    # class-level names that are re-bound somewhere are not constants
    for fn in cp.members.values():
        for n in ast.walk(fn):
            if isinstance(n, ast.Attribute) and isinstance(n.ctx, (ast.Store, ast.Del)) and n.attr in consts:
                consts.pop(n.attr, None)
    dict_attrs = set()
    init = cp.members.get('__init__')
    if init is not None:
        for n in ast.walk(init):
            tgt = None
            if isinstance(n, ast.Assign) and len(n.targets) == 1:
                tgt, val = n.targets[0], n.value
            elif isinstance(n, ast.AnnAssign) and n.value is not None:
                tgt, val = n.target, n.value
            if tgt is not None and isinstance(tgt, ast.Attribute) and isinstance(tgt.value, ast.Name) and tgt.value.id == 'self' and \
                    (isinstance(val, ast.Dict) or (isinstance(val, ast.Call) and isinstance(val.func, ast.Name) and val.func.id == 'dict')):
                dict_attrs.add(tgt.attr)
    return consts, dict_attrs


def canonical(fn: ast.FunctionDef, ctx: tuple, keyword_params: set) -> ast.FunctionDef:
    consts, dict_attrs = ctx
    f = copy.deepcopy(fn)
    f.decorator_list = []
    f.body = _strip_doc(f.body)
    # 1. rewrites (to a fixpoint: each pass may expose the next)
    prev = None
    for _ in range(6):
        f.body = nest_guards_list(f.body)
        if not any(isinstance(n, (ast.Yield, ast.YieldFrom)) for n in ast.walk(f)):
            f.body = _drop_tail_return(f.body) or [ast.copy_location(ast.Pass(), f)]
        _alias_blocks(f)
        f = _Rewrite(consts, dict_attrs).visit(f)
        _drop_pass(f)
        ast.fix_missing_locations(f)
        cur = ast.dump(f)
        if cur == prev:
            break
        prev = cur
    # 2. names
    order, params = local_names(f)
    imported = set()
    for n in ast.walk(f):
        if isinstance(n, ast.Import):
            imported.update(a.asname or a.name.split('.')[0] for a in n.names)
        elif isinstance(n, ast.ImportFrom):
            imported.update(a.asname or a.name for a in n.names)
    rename = {n: f'_v{i}' for i, n in enumerate(x for x in order if x not in imported)}
    plist = [a.arg for a in f.args.posonlyargs + f.args.args]
    for i, p in enumerate(plist):
        if p in ('self', 'cls') and i == 0:
            continue
        if p not in keyword_params:
            rename[p] = f'_p{i}'
    f = _Normalizer(rename).visit(f)
    ast.fix_missing_locations(f)
    return f


# ------------------------------------------------------------------------------------------------------------------------
# edit script

ATOM_FIELDS = {'value', 'id', 'attr', 'arg', 'name', 'n', 's', 'op', 'ops', 'is_async', 'conversion', 'level', 'module', 'asname',
               'simple', 'lineno'}


import re as _re

_LOCAL = _re.compile(r'^_v\d+$')


def _eq(a, b) -> bool:
    return _dump(a) == _dump(b)


def _dump(x) -> str:
    if isinstance(x, ast.AST):
        return ast.dump(x)
    if isinstance(x, list):
        return '[' + ','.join(_dump(e) for e in x) + ']'
    return repr(x)


def _erased(x) -> str:
    """dump with the numbering of renamed locals erased (for aligning statement lists)"""
    return _re.sub(r"'_v\d+'", "'_v'", _dump(x))


def _contains(big, small) -> bool:
    if not isinstance(big, ast.AST) or not isinstance(small, ast.AST):
        return False
    d = _erased(small)
    return any(_erased(n) == d for n in ast.walk(big) if n is not big and type(n) is type(small))


def _lcs(a: list, b: list):
    """alignment of two lists of nodes by structural equality (numbering of locals ignored): list of (i, j) pairs"""
    da, db = [_erased(x) for x in a], [_erased(x) for x in b]
    n, m = len(a), len(b)
    t = [[0] * (m + 1) for _ in range(n + 1)]
    for i in range(n - 1, -1, -1):
        for j in range(m - 1, -1, -1):
            t[i][j] = t[i + 1][j + 1] + 1 if da[i] == db[j] else max(t[i + 1][j], t[i][j + 1])
    out = []
    i = j = 0
    while i < n and j < m:
        if da[i] == db[j]:
            out.append((i, j))
            i += 1
            j += 1
        elif t[i + 1][j] >= t[i][j + 1]:
            i += 1
        else:
            j += 1
    return out


def _names(x):
    out = []
    for n in (ast.walk(x) if isinstance(x, ast.AST) else [y for e in x for y in ast.walk(e)] if isinstance(x, list) else []):
        if isinstance(n, ast.Name):
            out.append(n.id)
        elif isinstance(n, ast.arg):
            out.append(n.arg)
    return out


def edit_script(a, b) -> list:
    """differences between two canonical trees: [(kind, path, node_a, node_b)], kind in atom | wrap | insert | structural.
    Differences that only renumber local variables consistently (a bijection over all aligned positions) are not differences."""
    pairs = []
    es = _script(a, b, '', pairs)
    fwd, bwd, ok = {}, {}, True
    for x, y in pairs:
        if _LOCAL.match(x) or _LOCAL.match(y):
            if fwd.setdefault(x, y) != y or bwd.setdefault(y, x) != x:
                ok = False
    if ok:
        es = [e for e in es if not (e[0] == 'atom' and e[1].endswith(('.id', '.arg', '.name')) and _is_local_pair(e))]
    return es


def _is_local_pair(e) -> bool:
    _, path, xa, xb = e
    fld = path.rsplit('.', 1)[-1]
    va, vb = getattr(xa, fld, None), getattr(xb, fld, None)
    return isinstance(va, str) and isinstance(vb, str) and bool(_LOCAL.match(va)) and bool(_LOCAL.match(vb))


def _guard_insert(a: list, b: list, path, pairs):
    """a == [if c: <does not complete> else: REST] against b == REST': an inserted guard clause"""
    from .runtime import may_complete_normally
    if len(a) == 1 and isinstance(a[0], ast.If) and a[0].orelse and not may_complete_normally(a[0].body) and len(b) >= 1 and \
            not (len(b) == 1 and isinstance(b[0], ast.If) and _erased(b[0].test) == _erased(a[0].test)):
        sub_pairs = []
        sub = _script(a[0].orelse, b, path + '[0].orelse', sub_pairs)
        if not any(k == 'structural' for k, *_ in sub):
            pairs.extend(sub_pairs)
            g = ast.copy_location(ast.If(test=a[0].test, body=a[0].body, orelse=[]), a[0])
            return g, sub
    return None


def _script(a, b, path, pairs) -> list:
    if _eq(a, b):
        for nm in _names(a):
            pairs.append((nm, nm))
        return []
    if isinstance(a, list) and isinstance(b, list):
        if a and b and isinstance(a[0], ast.stmt) and isinstance(b[0], ast.stmt):
            g = _guard_insert(a, b, path, pairs)
            if g is not None:
                return [('insert', path + '[0]', g[0], None)] + g[1]
            g = _guard_insert(b, a, path, [])
            if g is not None:
                sub_pairs = []
                sub = _script(a, b[0].orelse, path + '[0].orelse', sub_pairs)
                pairs.extend(sub_pairs)
                return [('insert', path + '[0]', None, g[0])] + sub
        if len(a) == len(b):
            out = []
            for i, (x, y) in enumerate(zip(a, b)):
                out += _script(x, y, f'{path}[{i}]', pairs)
            return out
        al = _lcs(a, b)
        out = []
        pi = pj = 0
        for (i, j) in al + [(len(a), len(b))]:
            ga, gb = a[pi:i], b[pj:j]
            if ga and gb and len(ga) == len(gb):
                for k, (x, y) in enumerate(zip(ga, gb)):
                    out += _script(x, y, f'{path}[{pi + k}]', pairs)
            elif ga and gb:
                out.append(('structural', f'{path}[{pi}]', ga[0], gb[0]))
            else:
                for x in ga:
                    out.append(('insert', f'{path}[{pi}]', x, None))
                for y in gb:
                    out.append(('insert', f'{path}[{pj}]', None, y))
            if i < len(a) and j < len(b):
                out += _script(a[i], b[j], f'{path}[{i}]', pairs)
            pi, pj = i + 1, j + 1
        return out
    if isinstance(a, ast.AST) and isinstance(b, ast.AST):
        if type(a) is not type(b):
            if _contains(a, b) or _contains(b, a):
                return [('wrap', path, a, b)]
            return [('structural', path, a, b)]
        if isinstance(a, ast.Call) and (len(a.args) != len(b.args) or len(a.keywords) != len(b.keywords)) and \
                _erased(a.func) == _erased(b.func):
            # the same callee with another argument list: definite only when one list extends the other in one dimension
            # (an argument dropped or added); positional <-> keyword respelling is not decided here
            same_kw = _erased(a.keywords) == _erased(b.keywords)
            same_args = _erased(a.args) == _erased(b.args)
            short, long_ = (a.args, b.args) if len(a.args) <= len(b.args) else (b.args, a.args)
            if same_kw and _erased(short) == _erased(long_[:len(short)]):
                return [('insert', path + '.args', a, b)]
            ka, kb = {k.arg for k in a.keywords}, {k.arg for k in b.keywords}
            if same_args and ka != kb and (ka <= kb or kb <= ka):
                return [('insert', path + '.keywords', a, b)]
            return [('structural', path, a, b)]
        out = []
        for fld in a._fields:
            if fld in ('ctx', 'type_comment', 'kind'):
                continue
            x, y = getattr(a, fld, None), getattr(b, fld, None)
            if _eq(x, y):
                for nm in _names(x) if isinstance(x, (ast.AST, list)) else []:
                    pairs.append((nm, nm))
                if fld in ('id', 'arg') and isinstance(x, str):
                    pairs.append((x, x))
                continue
            if (isinstance(x, list) and isinstance(y, list)) or (isinstance(x, ast.AST) and isinstance(y, ast.AST)):
                if fld in ('op', 'ops'):
                    out.append(('atom', f'{path}.{fld}', a, b))
                elif isinstance(x, list) and len(x) != len(y) and not (x and isinstance(x[0], (ast.stmt, ast.excepthandler, ast.match_case))
                                                                      or y and isinstance(y[0], (ast.stmt, ast.excepthandler, ast.match_case))) \
                        and not isinstance(a, (ast.BoolOp, ast.List, ast.Tuple, ast.Set, ast.Dict)):
                    out.append(('structural', f'{path}.{fld}', a, b))
                else:
                    out += _script(x, y, f'{path}.{fld}', pairs)
            elif x is None or y is None:
                if isinstance(x if x is not None else y, ast.AST):
                    out.append(('insert', f'{path}.{fld}', x, y))
                elif isinstance(x if x is not None else y, list):
                    out.append(('structural', f'{path}.{fld}', a, b))
                else:
                    out.append(('atom', f'{path}.{fld}', a, b))
            else:
                if fld in ('id', 'arg', 'name') and isinstance(x, str) and isinstance(y, str):
                    pairs.append((x, y))
                out.append(('atom', f'{path}.{fld}', a, b))
        # same node type whose children differ structurally although one contains the other: a wrap one level up
        if any(k == 'structural' for k, *_ in out) and (_contains(a, b) or _contains(b, a)):
            return [('wrap', path, a, b)]
        return out
    return [('atom', path, a, b)]
