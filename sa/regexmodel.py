"""Engine X -- structure of the regular expressions the lexer and other sites compile (re._parser)."""
from __future__ import annotations

import re
from dataclasses import dataclass, field

try:
    import re._parser as sre_parse          # 3.11+
    import re._constants as sre_c
except ImportError:  # pragma: no cover
    import sre_parse
    import sre_constants as sre_c

from .core import AnalysisError

# probe alphabet: every ASCII character plus a few non-ASCII representatives
PROBE = [chr(i) for i in range(0, 128)] + ['é', 'я', '中', ' ', ' ', '٣']
PROBE_SET = frozenset(PROBE)
ASCII_DIGITS = frozenset('0123456789')
DIGITS = frozenset('0123456789٣')
UPPER = frozenset('ABCDEFGHIJKLMNOPQRSTUVWXYZ')
LOWER = frozenset('abcdefghijklmnopqrstuvwxyz')
MAXREPEAT = sre_c.MAXREPEAT


_cat_cache: dict = {}


def _cat(cat, ascii_only: bool = False) -> frozenset:
    name = str(cat) + ('/a' if ascii_only else '')
    if name in _cat_cache:
        return _cat_cache[name]
    py = {'CATEGORY_DIGIT': r'\d', 'CATEGORY_NOT_DIGIT': r'\D', 'CATEGORY_SPACE': r'\s', 'CATEGORY_NOT_SPACE': r'\S',
          'CATEGORY_WORD': r'\w', 'CATEGORY_NOT_WORD': r'\W'}.get(str(cat))
    if py is None:
        raise AnalysisError('X', f'unmodelled regex category {name}')
    # membership of a single probe character in a character category: computed with the category's own
    # definition on one character at a time (a table lookup, not a run of repository code)
    rx = re.compile(py, re.ASCII if ascii_only else 0)
    _cat_cache[name] = frozenset(c for c in PROBE if rx.fullmatch(c))
    return _cat_cache[name]


def _in_set(items, ascii_only: bool = False) -> frozenset:
    neg = False
    out = set()
    for op, av in items:
        if op is sre_c.NEGATE:
            neg = True
        elif op is sre_c.LITERAL:
            out.add(chr(av))
        elif op is sre_c.RANGE:
            lo, hi = av
            out.update(c for c in PROBE if lo <= ord(c) <= hi)
        elif op is sre_c.CATEGORY:
            out |= _cat(av, ascii_only)
        else:
            raise AnalysisError('X', f'unmodelled set item {op}')
    out &= PROBE_SET | out
    return frozenset(PROBE_SET - out) if neg else frozenset(out)


@dataclass
class Lang:
    """Abstract language of a sub-pattern: characters it may contain, width bounds, finite language if small."""
    chars: frozenset
    minw: int
    maxw: int                      # MAXREPEAT = unbounded
    finite: frozenset | None       # set of strings when the language is finite and small
    has_lookaround: bool = False
    has_backref: bool = False


def _concat(a: Lang, b: Lang) -> Lang:
    fin = None
    if a.finite is not None and b.finite is not None and len(a.finite) * len(b.finite) <= 512:
        fin = frozenset(x + y for x in a.finite for y in b.finite)
    mx = MAXREPEAT if MAXREPEAT in (a.maxw, b.maxw) else a.maxw + b.maxw
    return Lang(a.chars | b.chars, a.minw + b.minw, mx, fin, a.has_lookaround or b.has_lookaround,
                a.has_backref or b.has_backref)


EMPTY = Lang(frozenset(), 0, 0, frozenset(['']))


class Regex:
    _cache: dict = {}

    def __new__(cls, pattern: str, flags: int = 0):
        k = (pattern, flags)
        if k in cls._cache:
            return cls._cache[k]
        obj = super().__new__(cls)
        cls._cache[k] = obj
        return obj

    def __init__(self, pattern: str, flags: int = 0):
        if getattr(self, '_done', False):
            return
        self._done = True
        self._lang_cache = {}
        self.pattern = pattern
        try:
            self.tree = sre_parse.parse(pattern, flags)
        except re.error as e:
            raise AnalysisError('X', f'regex {pattern!r} does not compile: {e}')
        self.ngroups = self.tree.state.groups - 1
        self.group_nodes: dict[int, object] = {}      # index -> subpattern body
        self.group_parent_optional: dict[int, bool] = {}
        self.group_ctx: dict[int, dict] = {}
        self._index(self.tree, optional=False, chain=[])
        self.flags = self.tree.state.flags
        self.ascii = bool(self.flags & re.ASCII)

    # -- indexing of groups ----------------------------------------------------------------------
    def _index(self, sub, optional, chain, prev=None, nxt=None):
        """records, per capture group: its body, whether it is optional, the literal characters that must directly
        precede / follow it (inherited through enclosing groups, alternatives and optional repeats) and its chain of
        enclosing groups"""
        data = list(sub)

        def lit(item):
            return chr(item[1]) if item is not None and item[0] is sre_c.LITERAL else None

        for pos, (op, av) in enumerate(data):
            p = lit(data[pos - 1]) if pos > 0 else prev
            n = lit(data[pos + 1]) if pos + 1 < len(data) else nxt
            if pos > 0 and data[pos - 1][0] is not sre_c.LITERAL:
                p = None
            if pos + 1 < len(data) and data[pos + 1][0] is not sre_c.LITERAL:
                n = None
            if op is sre_c.SUBPATTERN:
                gid, add, dele, body = av
                if gid is not None:
                    self.group_nodes[gid] = body
                    self.group_parent_optional[gid] = optional
                    self.group_ctx[gid] = {'prev': p, 'next': n, 'chain': list(chain), 'pos': pos, 'children': []}
                    for g in chain[-1:]:
                        self.group_ctx[g]['children'].append(gid)
                    self._index(body, optional, chain + [gid], p, n)
                else:
                    self._index(body, optional, chain, p, n)
            elif op in (sre_c.MAX_REPEAT, sre_c.MIN_REPEAT):
                lo, hi, body = av
                if hi == 1:
                    self._index(body, optional or lo == 0, chain, p, n)
                else:
                    self._index(body, optional or lo == 0, chain, None, None)
            elif op is sre_c.BRANCH:
                for alt in av[1]:
                    self._index(alt, True, chain, p, n)
            elif op in (sre_c.ASSERT, sre_c.ASSERT_NOT):
                self._index(av[1], True, chain, None, None)

    # -- abstract language of a sub-pattern ------------------------------------------------------------
    def lang(self, sub=None) -> Lang:
        if sub is None:
            sub = self.tree
        res = EMPTY
        for op, av in sub:
            res = _concat(res, self._item(op, av))
        return res

    def _item(self, op, av) -> Lang:
        if op is sre_c.LITERAL:
            c = chr(av)
            return Lang(frozenset([c]), 1, 1, frozenset([c]))
        if op is sre_c.NOT_LITERAL:
            return Lang(frozenset(PROBE_SET - {chr(av)}), 1, 1, None)
        if op is sre_c.ANY:
            dotall = bool(self.tree.state.flags & re.DOTALL)
            return Lang(frozenset(PROBE_SET if dotall else PROBE_SET - {'\n'}), 1, 1, None)
        if op is sre_c.IN:
            cs = _in_set(av, self.ascii)
            fin = frozenset(cs) if len(cs) <= 16 else None
            return Lang(cs, 1, 1, fin)
        if op is sre_c.CATEGORY:
            cs = _cat(av, self.ascii)
            return Lang(cs, 1, 1, None)
        if op is sre_c.SUBPATTERN:
            return self.lang(av[3])
        if op is sre_c.BRANCH:
            alts = [self.lang(a) for a in av[1]]
            fin = None
            if all(a.finite is not None for a in alts):
                fin = frozenset().union(*[a.finite for a in alts])
                if len(fin) > 512:
                    fin = None
            return Lang(frozenset().union(*[a.chars for a in alts]), min(a.minw for a in alts),
                        MAXREPEAT if any(a.maxw == MAXREPEAT for a in alts) else max(a.maxw for a in alts), fin,
                        any(a.has_lookaround for a in alts), any(a.has_backref for a in alts))
        if op in (sre_c.MAX_REPEAT, sre_c.MIN_REPEAT):
            lo, hi, body = av
            b = self.lang(body)
            fin = None
            if b.finite is not None and hi != MAXREPEAT and hi <= 3 and len(b.finite) ** max(hi, 1) <= 512:
                fin = set()
                cur = {''}
                for n in range(0, hi + 1):
                    if n >= lo:
                        fin |= cur
                    cur = {x + y for x in cur for y in b.finite}
                fin = frozenset(fin)
            mx = MAXREPEAT if hi == MAXREPEAT or b.maxw == MAXREPEAT else b.maxw * hi
            if b.maxw == 0:
                mx = 0
            return Lang(b.chars, b.minw * lo, mx, fin, b.has_lookaround, b.has_backref)
        if op is sre_c.AT:
            return EMPTY
        if op in (sre_c.ASSERT, sre_c.ASSERT_NOT):
            return Lang(frozenset(), 0, 0, frozenset(['']), True)
        if op is sre_c.GROUPREF:
            g = self.group_nodes.get(av)
            b = self.lang(g) if g is not None else Lang(PROBE_SET, 0, MAXREPEAT, None)
            return Lang(b.chars, b.minw, b.maxw, None, b.has_lookaround, True)
        if op is sre_c.GROUPREF_EXISTS:
            raise AnalysisError('X', 'conditional group reference is not modelled')
        raise AnalysisError('X', f'unmodelled regex node {op}')

    def group_lang(self, gid: int) -> Lang:
        if gid not in self.group_nodes:
            raise AnalysisError('X', f'regex {self.pattern!r} has no group {gid}')
        if gid not in self._lang_cache:
            self._lang_cache[gid] = self.lang(self.group_nodes[gid])
        return self._lang_cache[gid]

    def group_can_be_empty(self, gid: int) -> bool:
        """Empty or not participating (findall yields '' in both cases)."""
        return self.group_parent_optional.get(gid, True) or self.group_lang(gid).minw == 0

    def repeats(self, sub=None):
        """(greedy?, lo, hi, body) for every repeat, recursively."""
        out = []
        if sub is None:
            sub = self.tree

        def walk(s):
            for op, av in s:
                if op in (sre_c.MAX_REPEAT, sre_c.MIN_REPEAT):
                    out.append((op is sre_c.MAX_REPEAT, av[0], av[1], av[2]))
                    walk(av[2])
                elif op is sre_c.SUBPATTERN:
                    walk(av[3])
                elif op is sre_c.BRANCH:
                    for a in av[1]:
                        walk(a)
                elif op in (sre_c.ASSERT, sre_c.ASSERT_NOT):
                    walk(av[1])
        walk(sub)
        return out


def safety_class(l: Lang) -> str:
    """CLOSED (finite literal language), NUMERIC, UPPER, WORD, OPEN."""
    if l.finite is not None:
        return 'CLOSED'
    if l.chars <= ASCII_DIGITS | frozenset('.e-'):
        return 'NUMERIC'
    if l.chars <= DIGITS | frozenset('.e-'):
        return 'UNICODE-NUMERIC'
    if l.chars <= UPPER:
        return 'UPPER'
    if all(c.isalnum() or c == '_' for c in l.chars):
        return 'WORD'
    return 'OPEN'


def group_role(rx: Regex, gid: int) -> str:
    """Coordinate role of a capture group in a reference regex: COL (letters), ROW (digits), ROW$ (digits with the
    absolute marker), TITLE_Q (body between quotes), TITLE_B (bare title directly before '!'), TITLE_WRAP (either form,
    quotes included), PREFIX (title with the '!'), OTHER."""
    l = rx.group_lang(gid)
    ctx = rx.group_ctx.get(gid, {})
    leaf = not ctx.get('children')
    if leaf and l.minw >= 1 and l.chars and l.chars <= UPPER:
        return 'COL'
    if leaf and l.minw >= 1 and l.chars and l.chars <= DIGITS:
        return 'ROW'
    if l.chars and l.chars <= DIGITS | {'$'} and '$' in l.chars:
        return 'ROW$'
    if leaf and ctx.get('prev') == "'" and ctx.get('next') == "'":
        return 'TITLE_Q'
    if leaf and ctx.get('next') == '!':
        return 'TITLE_B'
    if not leaf and ctx.get('next') == '!':
        return 'TITLE_WRAP'
    body = list(rx.group_nodes[gid])
    if body and body[-1][0] is sre_c.LITERAL and chr(body[-1][1]) == '!':
        return 'PREFIX'
    return 'OTHER'


def wrapped(regexp: str, tail: str) -> str:
    """The pattern RegexpBaseToken.get compiles."""
    return f'^({regexp})({tail})$'


def _nullable(items) -> bool:
    for op, av in items:
        if op in (sre_c.LITERAL, sre_c.NOT_LITERAL, sre_c.IN, sre_c.ANY, sre_c.CATEGORY, sre_c.RANGE):
            return False
        if op in (sre_c.MAX_REPEAT, sre_c.MIN_REPEAT, getattr(sre_c, 'POSSESSIVE_REPEAT', None)):
            if av[0] > 0 and not _nullable(av[2]):
                return False
        elif op is sre_c.SUBPATTERN:
            if not _nullable(av[3]):
                return False
        elif op is sre_c.BRANCH:
            if not any(_nullable(b) for b in av[1]):
                return False
        elif op in (sre_c.AT, sre_c.ASSERT, sre_c.ASSERT_NOT):
            continue
        elif op is sre_c.GROUPREF:
            return False
        elif op is getattr(sre_c, 'ATOMIC_GROUP', None):
            if not _nullable(av):
                return False
        else:
            return False
    return True


def _unwrap(item):
    """strip capturing / non-capturing group wrappers around a single item"""
    op, av = item
    while op is sre_c.SUBPATTERN and len(av[3]) == 1:
        op, av = av[3][0]
    return op, av


def exponential_repeats(pattern: str) -> list:
    """unbounded repeats whose body is `(X* Y)` with X an unbounded repeat and everything else in the body nullable -- the
    (a*)* shape: when the overall match fails the matcher tries exponentially many ways of splitting a run between the inner
    and the outer repeat.  Returns descriptions of the offending repeats (empty = none found).  Possessive repeats and atomic
    groups do not backtrack and are not reported."""
    out = []
    try:
        tree = sre_parse.parse(pattern)
    except re.error as e:
        raise AnalysisError('X', f'regex {pattern!r} does not compile: {e}')

    def walk(items):
        for op, av in items:
            if op in (sre_c.MAX_REPEAT, sre_c.MIN_REPEAT):
                mn, mx, body = av
                if mx == MAXREPEAT:
                    seq = list(body)
                    if len(seq) == 1 and seq[0][0] is sre_c.SUBPATTERN:
                        seq = list(seq[0][1][3])
                    for i, it in enumerate(seq):
                        iop, iav = _unwrap(it)
                        if iop in (sre_c.MAX_REPEAT, sre_c.MIN_REPEAT) and iav[1] == MAXREPEAT:
                            rest = seq[:i] + seq[i + 1:]
                            if _nullable(rest):
                                out.append(f'unbounded repeat of a body that is itself an unbounded repeat plus optional parts')
                walk(body)
            elif op is sre_c.SUBPATTERN:
                walk(av[3])
            elif op is sre_c.BRANCH:
                for b in av[1]:
                    walk(b)
            elif op in (sre_c.ASSERT, sre_c.ASSERT_NOT):
                walk(av[1])
    walk(tree)
    return out
