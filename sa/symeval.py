"""Engines A + T -- a symbolic interpreter for the token accessors and the translators.

It abstractly evaluates the Python subset used by the token classes (properties, __init__) and by the translators'
`translate` methods on *symbolic tokens*: a token is (class, path in the parse tree); which production a composite
token was built from and whether an optional regex group matched are *choices* recorded in a world.  Evaluation that
needs an undecided choice raises NeedChoice; the driver forks the world (bounded unrolling of recursive
nonterminals).  Strings that become generated source are kept as symbolic templates (Code) whose parts say where
each piece came from (literal text of the translator, output of a sub-translator, a sub-cell reference, raw regex
group text, repr() of something, a number).  Nothing of the repository is executed.
"""
from __future__ import annotations

import ast
from dataclasses import dataclass, field

from .core import AnalysisError, loc_of
from .source import SourceModel, ClassInfo, FunctionInfo
from .grammar import Grammar, Terminal
from .regexmodel import safety_class, Regex

REC_BOUND = 1          # a recursive nonterminal is unrolled once (lists of 1 and 2 elements)
MAX_WORLDS = 20000
MAX_DEPTH = 40


class NeedChoice(Exception):
    def __init__(self, key, options):
        self.key, self.options = key, list(options)


class SymRaise(Exception):
    """the analysed code raises (explicitly or through a modelled partial operation)"""

    def __init__(self, exc: str, node=None, msg: str = '', explicit: bool = False, where: str = ''):
        super().__init__(f'{exc}: {msg}')
        self.exc, self.node, self.msg, self.explicit, self.where = exc, node, msg, explicit, where


class _Return(Exception):
    def __init__(self, value):
        self.value = value


class _Break(Exception):
    pass


class _Continue(Exception):
    pass


# ---------------------------------------------------------------------------------------------------
# values
# ---------------------------------------------------------------------------------------------------
class V:
    pass


@dataclass(frozen=True)
class Const(V):
    value: object


NONE = Const(None)
TRUE = Const(True)
FALSE = Const(False)


@dataclass(frozen=True)
class ClsV(V):
    ci: object            # ClassInfo or str (external)

    @property
    def name(self):
        return self.ci.name if isinstance(self.ci, ClassInfo) else str(self.ci)


@dataclass(frozen=True)
class Tok(V):
    cls: str
    path: tuple = ()
    anc: tuple = ()       # classes of the ancestors (for the recursion bound)

    def __repr__(self):
        return f'Tok({self.cls}@{"/".join(map(str, self.path)) or "root"})'


@dataclass(frozen=True)
class TokValue(V):
    tok: Tok


@dataclass(frozen=True)
class GroupStr(V):
    """text of a regex capture group of a terminal (or of an inner regex applied by a translator)"""
    owner: str            # terminal class name or 'regex:<pattern>'
    gid: int              # group number in the (wrapped) pattern
    path: tuple = ()
    derived: str = ''     # '', 'slice', 'lower', ...
    src_taint: str = ''   # for inner regexes: description of the subject

    def __repr__(self):
        return f'<{self.owner}#{self.gid}{"~" + self.derived if self.derived else ""}>'


@dataclass(frozen=True)
class Part:
    kind: str             # slot | sub | raw | repr | num | cellref | pyrepr | opaque | tokrepr
    a: object = None
    b: object = None
    node: object = field(default=None, compare=False, hash=False)
    fmt: bool = field(default=False, compare=False, hash=False)     # passed through an f-string / str(): certainly text

    def __repr__(self):
        return f'{{{self.kind}:{self.a!r}{"," + repr(self.b) if self.b is not None else ""}}}'


@dataclass(frozen=True)
class Code(V):
    """symbolic string: tuple of str and Part"""
    parts: tuple = ()

    def __repr__(self):
        return 'Code(' + ''.join(p if isinstance(p, str) else repr(p) for p in self.parts) + ')'

    @property
    def is_empty(self):
        return all(isinstance(p, str) and p == '' for p in self.parts)

    def text_only(self):
        if all(isinstance(p, str) for p in self.parts):
            return ''.join(self.parts)
        return None


@dataclass(frozen=True)
class ListV(V):
    items: tuple          # known items
    filtered: bool = False      # an unknown filter condition was applied
    reordered: str = ''         # '', 'reversed', 'sorted', ...


@dataclass(frozen=True)
class TupleV(V):
    items: tuple


@dataclass(frozen=True)
class DictV(V):
    items: tuple          # ((key V, value V), ...)


@dataclass(frozen=True)
class CellV(V):
    origin: str                 # 'in_cell', 'token:<cls>@path#n', 'excel.range', 'new', ...
    title: object = None
    column: object = None
    row: object = None
    value: object = None
    tag: str = ''


@dataclass(frozen=True)
class ObjV(V):
    kind: str                   # 'excel' | 'context'


@dataclass(frozen=True)
class NumV(V):
    op: str                     # 'int','float','colidx','bin','len','const','neg'
    args: tuple = ()

    def convs(self):
        """number of text->number conversions and arithmetic operations below"""
        c = 1 if self.op in ('int', 'float') else 0
        a = 1 if self.op == 'bin' else 0
        for x in self.args:
            if isinstance(x, NumV):
                c2, a2 = x.convs()
                c, a = c + c2, a + a2
        return c, a

    def has_float(self):
        if self.op == 'float':
            return True
        if self.op == 'bin' and self.args and self.args[0] in ('**', '/'):
            return True
        return any(isinstance(x, NumV) and x.has_float() for x in self.args)


@dataclass(frozen=True)
class FuncV(V):
    kind: str                   # 'repo' | 'ext' | 'native' | 'bound' | 'lambda'
    target: object = None       # FunctionInfo | dotted name | (obj, name)
    recv: object = None


@dataclass(frozen=True)
class ModV(V):
    name: str


@dataclass(frozen=True)
class Opaque(V):
    why: str = ''


@dataclass(frozen=True)
class MatchV(V):
    """result of re.findall(<const pattern>, subject): level 0 = list, 1 = first element (tuple or str)"""
    pattern: str
    subject: object
    level: int
    flags: int = 0


@dataclass(frozen=True)
class RegexObjV(V):
    """re.compile(<const pattern>, flags)"""
    pattern: str
    flags: int = 0


@dataclass(frozen=True)
class Thunk(V):
    """unevaluated constructor argument (Cell fields are only evaluated when something reads them)"""
    node: object = field(compare=False, hash=False)
    env: object = field(compare=False, hash=False)
    fn: object = field(compare=False, hash=False)


@dataclass
class Effect:
    kind: str
    detail: dict
    node: object = None


@dataclass
class Outcome:
    world: dict
    kind: str                   # 'return' | 'raise'
    value: object = None
    exc: str = ''
    explicit: bool = False
    node: object = None
    msg: str = ''
    where: str = ''
    effects: list = field(default_factory=list)
    notes: list = field(default_factory=list)


def rx_of(owner: str) -> Regex:
    """Regex of an inner pattern owner 'regex:<flags>:<pattern>'"""
    _, flags, pat = owner.split(':', 2)
    return Regex(pat, int(flags))


# ---------------------------------------------------------------------------------------------------
def code_of(*parts) -> Code:
    out = []
    for p in parts:
        if isinstance(p, Code):
            out.extend(p.parts)
        else:
            out.append(p)
    merged = []
    for p in out:
        if isinstance(p, str) and merged and isinstance(merged[-1], str):
            merged[-1] += p
        elif isinstance(p, str) and p == '':
            continue
        else:
            merged.append(p)
    return Code(tuple(merged))


class Interp:
    def __init__(self, src: SourceModel, grammar: Grammar, world: dict, translator_base='AbstractTranslator',
                 descend_translators: bool = False):
        self.src = src
        self.g = grammar
        self.world = world
        self.effects: list[Effect] = []
        self.notes: list[str] = []
        self.tok_attrs: dict = {}        # (path, attr) -> V
        self.tok_inited: set = set()
        self.cell_attrs: dict = {}       # (origin, attr) -> V   (mutations of Cell objects)
        self.depth = 0
        self.translator_base = translator_base
        self.descend = descend_translators
        self.fn_stack: list[FunctionInfo] = []
        self.handled: set = set()        # token paths whose cached Cell objects went through handle_cell
        self.stubs: dict = {}            # qualname -> callable(interp, args, kwargs, node) replacing a repo function

    # ---- choices --------------------------------------------------------------------------------
    def choose(self, key, options):
        if key in self.world:
            return self.world[key]
        options = list(options)
        if len(options) == 1:
            self.world[key] = options[0]
            return options[0]
        if not options:
            raise AnalysisError('T', f'no option for choice {key}')
        raise NeedChoice(key, options)

    def production_of(self, tok: Tok) -> int:
        comp = self.g.composites.get(tok.cls)
        if comp is None:
            raise AnalysisError('T', f'{tok.cls} is not a composite token')
        opts = list(range(len(comp.productions)))
        if tok.anc.count(tok.cls) >= REC_BOUND:
            nr = [i for i in opts if tok.cls not in comp.productions[i]]
            opts = nr or opts[:1]
        return self.choose(('prod', tok.path), opts)

    def symbols_of(self, tok: Tok) -> list:
        return self.g.composites[tok.cls].productions[self.production_of(tok)]

    def child(self, tok: Tok, k: int, node=None) -> V:
        syms = self.symbols_of(tok)
        n = len(syms)
        if not (-n <= k < n):
            raise SymRaise('IndexError', node, f'{tok.cls}.value[{k}] on production[{self.production_of(tok)}] of length {n}',
                           where=self.where())
        if k < 0:
            k += n
        return Tok(syms[k], tok.path + (k,), tok.anc + (tok.cls,))

    def where(self):
        return self.fn_stack[-1].qualname if self.fn_stack else ''

    # ---- truthiness -----------------------------------------------------------------------------
    def truth(self, v: V, node=None) -> bool:
        if isinstance(v, Const):
            return bool(v.value)
        if isinstance(v, (Tok, CellV, ObjV, ClsV, FuncV, ModV, TokValue)):
            return True
        if isinstance(v, Code):
            if not v.parts:
                return False
            if any(not isinstance(p, str) for p in v.parts):
                # a part may be empty text only for raw groups that can be empty
                for p in v.parts:
                    if isinstance(p, str) and p:
                        return True
                    if isinstance(p, Part) and p.kind != 'raw':
                        return True
                return self.choose(('truth-code', self._nid(node)), [True, False])
            return bool(v.text_only())
        if isinstance(v, (ListV, TupleV)):
            if isinstance(v, ListV) and v.filtered:
                return self.choose(('truth-filtered', self._nid(node)), [True, False])
            return bool(v.items)
        if isinstance(v, DictV):
            return bool(v.items)
        if isinstance(v, GroupStr):
            return self.group_present(v)
        if isinstance(v, NumV):
            if v.op == 'const':
                return bool(v.args[0])
            return self.choose(('truth-num', self._nid(node)), [True, False])
        if isinstance(v, MatchV):
            if not self.match_possible(v):
                return False
            return self.choose(('match', v.pattern, v.level), [True, False])
        if isinstance(v, Opaque):
            return self.choose(('truth-opaque', self._nid(node), v.why), [True, False])
        raise AnalysisError('T', f'truthiness of {type(v).__name__} not modelled')

    def match_possible(self, m: 'MatchV') -> bool:
        """cheap refutation: the pattern is anchored and starts with a literal character the subject cannot start with"""
        import re as _re
        mm = _re.match(r"\^(\\?)(.)", m.pattern)
        if not mm:
            return True
        first = mm.group(2)
        if mm.group(1) == '' and first in '.[(\\*+?{|^$':
            return True
        subj = m.subject
        if isinstance(subj, Const) and isinstance(subj.value, str):
            return subj.value[:1] == first
        if isinstance(subj, Code) and subj.parts:
            p0 = subj.parts[0]
            if isinstance(p0, str) and p0:
                return p0[0] == first
            if isinstance(p0, Part) and p0.kind == 'num':
                return first in '0123456789-+.ein'
            if isinstance(p0, Part) and p0.kind == 'repr':
                return first in '\'"'
        if isinstance(subj, Const) and subj.value is None:
            return False
        return True

    def _nid(self, node):
        return (getattr(node, 'lineno', 0), getattr(node, 'col_offset', 0)) if node is not None else (0, 0)

    def group_value(self, g: GroupStr):
        """the text of a group whose language is finite and small is chosen per world; None otherwise"""
        if g.derived:
            return None
        lang = self.group_lang(g)
        if lang is None or lang.finite is None or len(lang.finite) > 8:
            return None
        opts = sorted(lang.finite)
        if g.owner.startswith('regex:'):
            can_empty = rx_of(g.owner).group_can_be_empty(g.gid)
        else:
            can_empty = self.g.terminals[g.owner].rx.group_can_be_empty(g.gid)
        if can_empty and '' not in opts:
            opts = [''] + opts
        return self.choose(('grp-val', g.owner, g.path, g.gid), opts)

    def group_present(self, g: GroupStr) -> bool:
        """non-empty text for this group in this world"""
        val = self.group_value(g)
        if val is not None:
            return bool(val)
        if g.owner.startswith('regex:'):
            rx = rx_of(g.owner)
            if not rx.group_can_be_empty(g.gid) and not g.derived:
                return True
            return self.choose(('grp', g.owner, g.path, g.gid, g.derived), [True, False])
        t = self.g.terminals[g.owner]
        if not t.rx.group_can_be_empty(g.gid) and not g.derived:
            return True
        # a group that encloses a present group is present
        return self.choose(('grp', g.owner, g.path, g.gid, g.derived), [True, False])

    # ---- conversion of a value into generated text --------------------------------------------------
    def to_code(self, v: V, node=None, conv: str = '') -> Code:
        if conv == 'r':
            return self.repr_of(v, node)
        if isinstance(v, Code):
            return v
        if isinstance(v, Const):
            return code_of(str(v.value))
        if isinstance(v, GroupStr):
            val = self.group_value(v)
            if val is not None:
                return code_of(val)
            return code_of(Part('raw', v, node=node))
        if isinstance(v, NumV):
            if v.op == 'const':
                return code_of(str(v.args[0]))
            return code_of(Part('num', v, node=node))
        if isinstance(v, ListV):
            return code_of(Part('pyrepr', v, node=node))
        if isinstance(v, TupleV):
            return code_of(Part('pyrepr', v, node=node))
        if isinstance(v, DictV):
            return code_of(Part('pyrepr', v, node=node))
        if isinstance(v, Tok):
            return code_of(Part('tokrepr', v, node=node))
        if isinstance(v, CellV):
            return code_of(Part('opaque', 'str(Cell)', node=node))
        if isinstance(v, MatchV):
            if v.level == 2:
                return self.to_code(self.match_group(v), node)
            return code_of(Part('opaque', f'str({v!r})', node=node))
        if isinstance(v, Opaque):
            return code_of(Part('opaque', v.why, node=node))
        return code_of(Part('opaque', f'str({type(v).__name__})', node=node))

    def repr_of(self, v: V, node=None) -> Code:
        if isinstance(v, Const):
            return code_of(repr(v.value))
        if isinstance(v, Code):
            t = v.text_only()
            if t is not None:
                return code_of(repr(t))
        return code_of(Part('repr', v, node=node))

    def group_lang(self, g: GroupStr):
        if g.owner.startswith('regex:'):
            return rx_of(g.owner).group_lang(g.gid)
        return self.g.terminals[g.owner].rx.group_lang(g.gid)

    # ---- expression evaluation ------------------------------------------------------------------------
    def ev(self, node, env) -> V:
        m = getattr(self, 'ev_' + type(node).__name__, None)
        if m is None:
            raise AnalysisError('T', f'unmodelled expression {type(node).__name__} in {self.where()} '
                                     f'(line {getattr(node, "lineno", "?")})')
        return m(node, env)

    def ev_Constant(self, node, env):
        return Const(node.value)

    def ev_Name(self, node, env):
        if node.id in env:
            return env[node.id]
        fn = self.fn_stack[-1] if self.fn_stack else None
        if fn is not None:
            r = self.src.resolve(node.id, fn.module, fn)
            v = self._from_resolution(r, node.id)
            if v is not None:
                return v
        if node.id in ('str', 'repr', 'int', 'float', 'len', 'isinstance', 'getattr', 'hasattr', 'range', 'list', 'tuple',
                       'enumerate', 'zip', 'sorted', 'reversed', 'any', 'all', 'bool', 'type', 'super', 'max', 'min', 'sum',
                       'set', 'dict', 'print', 'map', 'filter', 'abs', 'round', 'issubclass', 'id', 'hash', 'ord', 'chr',
                       'format', 'iter', 'next'):
            return FuncV('ext', f'builtins.{node.id}')
        if node.id in ('TypeError', 'ValueError', 'KeyError', 'IndexError', 'AttributeError', 'Exception',
                       'RuntimeError', 'NotImplementedError', 'AssertionError', 'RecursionError', 'StopIteration'):
            return ClsV(node.id)
        raise AnalysisError('T', f'name {node.id} cannot be resolved in {self.where()}')

    def _from_resolution(self, r, name):
        if r is None:
            return None
        k = r[0]
        if k == 'class':
            return ClsV(r[1])
        if k == 'func':
            return FuncV('repo', r[1])
        if k == 'module':
            return ModV(r[1].name)
        if k == 'ext':
            d = r[1]
            if d in ('re', 'math', 'datetime', 'calendar', 'openpyxl', 'string', 'itertools'):
                return ModV(d)
            return FuncV('ext', d)
        if k == 'value':
            try:
                return self.from_py(ast.literal_eval(r[1]))
            except Exception:
                # module-level value that is not a literal (e.g. a list of classes)
                sub = Interp(self.src, self.g, self.world)
                sub.fn_stack = []
                return self._eval_module_value(r[1], r[2])
        return None

    def _eval_module_value(self, expr, module):
        # evaluate a module-level / class-level expression with names resolved in that module
        class _F:  # minimal stand-in for a FunctionInfo
            pass
        f = _F()
        f.module, f.cls, f.qualname, f.node = module, None, f'<module {module.name}>', ast.Module(body=[], type_ignores=[])
        self.fn_stack.append(f)
        try:
            return self.ev(expr, {})
        finally:
            self.fn_stack.pop()

    def from_py(self, v):
        if isinstance(v, (list,)):
            return ListV(tuple(self.from_py(x) for x in v))
        if isinstance(v, tuple):
            return TupleV(tuple(self.from_py(x) for x in v))
        if isinstance(v, dict):
            return DictV(tuple((self.from_py(k), self.from_py(x)) for k, x in v.items()))
        return Const(v)

    def ev_JoinedStr(self, node, env):
        parts = []
        for v in node.values:
            if isinstance(v, ast.Constant):
                parts.append(str(v.value))
            elif isinstance(v, ast.FormattedValue):
                val = self.ev(v.value, env)
                conv = {114: 'r', 115: 's', 97: 'a', -1: ''}.get(v.conversion, '')
                if v.format_spec is not None:
                    parts.append(Part('opaque', 'format-spec', node=v))
                else:
                    c_ = self.to_code(val, v, conv='r' if conv in ('r', 'a') else '')
                    if isinstance(c_, Code):
                        import dataclasses as _dc
                        c_ = Code(tuple(_dc.replace(q, fmt=True) if isinstance(q, Part) and q.kind == 'slot' else q for q in c_.parts))
                    parts.append(c_)
        return code_of(*parts)

    def ev_FormattedValue(self, node, env):
        return self.to_code(self.ev(node.value, env), node)

    def ev_List(self, node, env):
        items = []
        for e in node.elts:
            if isinstance(e, ast.Starred):
                v = self.ev(e.value, env)
                items.extend(self.iterate(v, e))
            else:
                items.append(self.ev(e, env))
        return ListV(tuple(items))

    def ev_Tuple(self, node, env):
        items = []
        for e in node.elts:
            if isinstance(e, ast.Starred):
                items.extend(self.iterate(self.ev(e.value, env), e))
            else:
                items.append(self.ev(e, env))
        return TupleV(tuple(items))

    def ev_Set(self, node, env):
        return ListV(tuple(self.ev(e, env) for e in node.elts))

    def ev_Dict(self, node, env):
        items = []
        for k, v in zip(node.keys, node.values):
            if k is None:
                d = self.ev(v, env)
                if isinstance(d, DictV):
                    items.extend(d.items)
                else:
                    return Opaque('dict-unpack')
            else:
                items.append((self.ev(k, env), self.ev(v, env)))
        return DictV(tuple(items))

    def ev_IfExp(self, node, env):
        return self.ev(node.body, env) if self.truth(self.ev(node.test, env), node.test) else self.ev(node.orelse, env)

    def ev_BoolOp(self, node, env):
        is_and = isinstance(node.op, ast.And)
        v = None
        for e in node.values:
            v = self.ev(e, env)
            t = self.truth(v, e)
            if is_and and not t:
                return v
            if not is_and and t:
                return v
        return v

    def ev_UnaryOp(self, node, env):
        v = self.ev(node.operand, env)
        if isinstance(node.op, ast.Not):
            return Const(not self.truth(v, node.operand))
        if isinstance(node.op, ast.USub):
            if isinstance(v, Const) and isinstance(v.value, (int, float)):
                return Const(-v.value)
            return NumV('neg', (v,))
        if isinstance(node.op, ast.UAdd):
            return v
        raise AnalysisError('T', f'unmodelled unary operator in {self.where()}')

    def ev_NamedExpr(self, node, env):
        v = self.ev(node.value, env)
        env[node.target.id] = v
        return v

    def ev_Lambda(self, node, env):
        return FuncV('lambda', (node, dict(env)))

    def ev_Starred(self, node, env):
        return self.ev(node.value, env)

    def ev_Compare(self, node, env):
        left = self.ev(node.left, env)
        res = True
        for op, rn in zip(node.ops, node.comparators):
            right = self.ev(rn, env)
            r = self.compare(op, left, right, node)
            if not r:
                return FALSE
            left = right
        return TRUE

    def compare(self, op, a: V, b: V, node) -> bool:
        if isinstance(op, (ast.Is, ast.Eq, ast.IsNot, ast.NotEq)):
            neg = isinstance(op, (ast.IsNot, ast.NotEq))
            r = self.same(a, b, node, identity=isinstance(op, (ast.Is, ast.IsNot)))
            return (not r) if neg else r
        if isinstance(op, (ast.In, ast.NotIn)):
            if isinstance(b, (ListV, TupleV)):
                r = any(self.same(a, x, node) for x in b.items)
            elif isinstance(b, DictV):
                r = any(self.same(a, k, node) for k, _ in b.items)
            elif isinstance(b, (Const, Code)) and isinstance(a, (Const, Code)):
                ta = a.value if isinstance(a, Const) else a.text_only()
                tb = b.value if isinstance(b, Const) else b.text_only()
                if isinstance(ta, str) and isinstance(tb, str):
                    r = ta in tb
                else:
                    r = self.choose(('in-opaque', self._nid(node)), [True, False])
            else:
                r = self.choose(('in-opaque', self._nid(node)), [True, False])
            return (not r) if isinstance(op, ast.NotIn) else r
        # ordering
        if isinstance(a, Const) and isinstance(b, Const) and isinstance(a.value, (int, float)) and \
                isinstance(b.value, (int, float)):
            x, y = a.value, b.value
            return {ast.Lt: x < y, ast.LtE: x <= y, ast.Gt: x > y, ast.GtE: x >= y}[type(op)]
        return self.choose(('cmp-opaque', self._nid(node)), [True, False])

    def same(self, a: V, b: V, node=None, identity=False) -> bool:
        if isinstance(a, ClsV) and isinstance(b, ClsV):
            return a.name == b.name
        if isinstance(a, Const) and isinstance(b, Const):
            if identity and a.value is None or identity and b.value is None:
                return a.value is b.value
            return a.value == b.value and (not identity or type(a.value) is type(b.value))
        if isinstance(a, Const) and a.value is None:
            return self._is_none(b, node)
        if isinstance(b, Const) and b.value is None:
            return self._is_none(a, node)
        if isinstance(a, (Const, Code)) and isinstance(b, (Const, Code)):
            ta = a.value if isinstance(a, Const) else a.text_only()
            tb = b.value if isinstance(b, Const) else b.text_only()
            if ta is not None and tb is not None:
                return ta == tb
            if isinstance(ta, str) or isinstance(tb, str) or (ta is None and tb is None):
                # text that contains translated parts against a text: not decided by the shape
                return self.choose(('eq-code', self._nid(node)), [True, False])
        if isinstance(a, GroupStr) and isinstance(b, (Const, Code)) or isinstance(b, GroupStr) and isinstance(a, (Const, Code)):
            g, c = (a, b) if isinstance(a, GroupStr) else (b, a)
            text = c.value if isinstance(c, Const) else c.text_only()
            val = self.group_value(g)
            if val is not None and text is not None:
                return val == text
            lang = self.group_lang(g)
            if text == '':
                return not self.group_present(g)
            if lang is not None and lang.finite is not None and text not in lang.finite and not g.derived:
                return False
            return self.choose(('grp-eq', g.owner, g.path, g.gid, repr(text)), [True, False])
        if isinstance(a, Tok) and isinstance(b, Tok):
            return a == b
        if type(a) is not type(b) and not isinstance(a, Opaque) and not isinstance(b, Opaque) and \
                not isinstance(a, (NumV, MatchV, GroupStr)) and not isinstance(b, (NumV, MatchV, GroupStr)):
            return False
        return self.choose(('eq-opaque', self._nid(node)), [True, False])

    def _is_none(self, v: V, node) -> bool:
        if isinstance(v, Const):
            return v.value is None
        if isinstance(v, Opaque):
            return self.choose(('none-opaque', self._nid(node), v.why), [True, False])
        if isinstance(v, MatchV) and v.level == 3:
            # a match object is None exactly when the pattern did not match (same world variable as its truth value)
            if not self.match_possible(v):
                return True
            return not self.choose(('match', v.pattern, v.level), [True, False])
        return False

    def ev_BinOp(self, node, env):
        a = self.ev(node.left, env)
        b = self.ev(node.right, env)
        op = node.op
        if isinstance(op, ast.Add):
            if isinstance(a, (Code, GroupStr)) or isinstance(b, (Code, GroupStr)) or \
                    (isinstance(a, Const) and isinstance(a.value, str)) or (isinstance(b, Const) and isinstance(b.value, str)):
                if isinstance(a, (NumV,)) or isinstance(b, (NumV,)) or \
                        (isinstance(a, Const) and isinstance(a.value, (int, float)) and not isinstance(a.value, bool)) or \
                        (isinstance(b, Const) and isinstance(b.value, (int, float)) and not isinstance(b.value, bool)):
                    raise SymRaise('TypeError', node, 'str + number', where=self.where())
                return code_of(self.to_code(a, node), self.to_code(b, node))
            if isinstance(a, ListV) and isinstance(b, ListV):
                return ListV(a.items + b.items, a.filtered or b.filtered)
            if isinstance(a, TupleV) and isinstance(b, TupleV):
                return TupleV(a.items + b.items)
        if isinstance(a, Const) and isinstance(b, Const) and isinstance(a.value, (int, float)) and isinstance(b.value, (int, float)):
            x, y = a.value, b.value
            try:
                if isinstance(op, ast.Add): return Const(x + y)
                if isinstance(op, ast.Sub): return Const(x - y)
                if isinstance(op, ast.Mult): return Const(x * y)
                if isinstance(op, ast.FloorDiv): return Const(x // y)
                if isinstance(op, ast.Mod): return Const(x % y)
                if isinstance(op, ast.Pow) and abs(y) < 64: return Const(x ** y)
            except Exception:
                pass
        sym = {ast.Add: '+', ast.Sub: '-', ast.Mult: '*', ast.Div: '/', ast.Pow: '**', ast.FloorDiv: '//', ast.Mod: '%',
               ast.BitOr: '|', ast.BitAnd: '&'}.get(type(op))
        if sym is None:
            raise AnalysisError('T', f'unmodelled binary operator in {self.where()}')
        if isinstance(op, ast.Mod) and (isinstance(a, Code) or (isinstance(a, Const) and isinstance(a.value, str))):
            fmt = a.value if isinstance(a, Const) else a.text_only()
            vals = list(b.items) if isinstance(b, TupleV) else [b]
            if isinstance(fmt, str):
                import re as _re
                pieces = _re.split(r'(%[srd%])', fmt)
                if not _re.search(r'%[^srd%]', fmt) and sum(1 for x in pieces if x in ('%s', '%r', '%d')) == len(vals):
                    parts, i = [], 0
                    for x in pieces:
                        if x == '%%':
                            parts.append('%')
                        elif x in ('%s', '%d'):
                            parts.append(self.to_code(vals[i], node))
                            i += 1
                        elif x == '%r':
                            parts.append(self.repr_of(vals[i], node))
                            i += 1
                        else:
                            parts.append(x)
                    return code_of(*parts)
            if isinstance(a, Code) and fmt is None and any(isinstance(q, Part) and q.kind != 'opaque' for q in a.parts):
                # generated text that already contains translated / quoted parts is scanned by a formatter again
                return code_of(Part('opaque', 'REFORMAT:%-formatting applied to text that already contains translated parts', node=node))
            return code_of(Part('opaque', '%-format', node=node))
        return NumV('bin', (sym, self._num(a), self._num(b)))

    def _num(self, v):
        if isinstance(v, Const) and isinstance(v.value, (int, float)):
            return NumV('const', (v.value,))
        return v

    # ---- attribute / subscript -----------------------------------------------------------------------------
    def ev_Attribute(self, node, env):
        base = self.ev(node.value, env)
        return self.getattr(base, node.attr, node)

    def getattr(self, base: V, name: str, node=None) -> V:
        if isinstance(base, Tok):
            return self.tok_getattr(base, name, node)
        if isinstance(base, Const):
            if base.value is None:
                raise SymRaise('AttributeError', node, f"'NoneType' object has no attribute '{name}'", where=self.where())
            if isinstance(base.value, str):
                return FuncV('bound', ('str', name), base)
            if isinstance(base.value, (int, float)):
                raise SymRaise('AttributeError', node, f"number has no attribute '{name}'", where=self.where())
        if isinstance(base, (Code, GroupStr)):
            return FuncV('bound', ('str', name), base)
        if isinstance(base, CellV):
            key = (base.origin, name)
            if key in self.cell_attrs:
                return self.cell_attrs[key]
            if name in ('title', 'column', 'row') and base.tag.startswith('tok:') and base.tag.split('#')[0] in self.handled:
                return NumV('coord', (name, base.origin, base.tag))
            if name in ('title', 'column', 'row', 'value'):
                if name == 'value' and base.tag.startswith('tok:'):
                    # the stored value of a workbook cell that a reference token denotes is read while translating
                    self.effects.append(Effect('cell-value-read', {'cell': base, 'where': self.where()}, node))
                v = getattr(base, name)
                if isinstance(v, Thunk):
                    self.fn_stack.append(v.fn) if v.fn is not None else None
                    try:
                        return self.ev(v.node, dict(v.env))
                    finally:
                        self.fn_stack.pop() if v.fn is not None else None
                return v if v is not None else Opaque(f'cell.{name}')
            if name == 'uid':
                return Opaque('cell.uid')
            return FuncV('bound', ('cell', name), base)
        if isinstance(base, ObjV):
            return FuncV('native', (base.kind, name), base)
        if isinstance(base, ClsV):
            if name == '__name__':
                return Const(base.name)
            if isinstance(base.ci, ClassInfo):
                m = self.src.find_method(base.ci, name)
                if m is not None:
                    return FuncV('repo', m, base)
                expr, owner = self.src.find_attr(base.ci, name)
                if expr is not None:
                    return self._eval_module_value(expr, owner.module)
            return Opaque(f'{base.name}.{name}')
        if isinstance(base, ModV):
            sub = f'{base.name}.{name}'
            if sub in self.src.modules:
                return ModV(sub)
            if base.name in self.src.modules:
                r = self.src.lookup_in_module(base.name, name)
                v = self._from_resolution(r, name)
                if v is not None:
                    return v
            return FuncV('ext', sub)
        if isinstance(base, TokValue):
            return FuncV('bound', ('tokvalue', name), base)
        if isinstance(base, (ListV, TupleV, DictV)):
            return FuncV('bound', ('seq', name), base)
        if isinstance(base, FuncV):
            return Opaque(f'func.{name}')
        if isinstance(base, MatchV):
            if base.level == 3:
                return FuncV('bound', ('matchobj', name), base)
            return FuncV('bound', ('str', name), base)
        if isinstance(base, RegexObjV):
            return FuncV('bound', ('regexobj', name), base)
        if isinstance(base, NumV):
            raise SymRaise('AttributeError', node, f"number has no attribute '{name}'", where=self.where())
        if isinstance(base, Opaque):
            return Opaque(f'{base.why}.{name}')
        raise AnalysisError('T', f'attribute {name} of {type(base).__name__} not modelled in {self.where()}')

    def tok_getattr(self, tok: Tok, name: str, node=None) -> V:
        if name == '__class__':
            return ClsV(self.src.cls(tok.cls))
        self.ensure_init(tok)
        key = (tok.path, name)
        if key in self.tok_attrs:
            return self.tok_attrs[key]
        if name == 'value':
            return TokValue(tok)
        if name in ('in_cell', '_in_cell'):
            return CellV('in_cell', Opaque('in_cell.title'), Opaque('in_cell.column'), Opaque('in_cell.row'),
                         Opaque('in_cell.value'))
        ci = self.src.cls(tok.cls)
        m = self.src.find_method(ci, name)
        if m is not None:
            if m.kind == 'property':
                return self.call_repo(m, [tok], {}, node)
            return FuncV('repo', m, tok)
        expr, owner = self.src.find_attr(ci, name)
        if expr is not None:
            return self._eval_module_value(expr, owner.module)
        raise SymRaise('AttributeError', node, f"'{tok.cls}' object has no attribute '{name}'", where=self.where())

    def tok_hasattr(self, tok: Tok, name: str) -> bool:
        if name in ('value', 'in_cell', '_in_cell', '__class__'):
            return True
        self.ensure_init(tok)
        if (tok.path, name) in self.tok_attrs:
            return True
        ci = self.src.cls(tok.cls)
        return self.src.find_method(ci, name) is not None or self.src.find_attr(ci, name)[0] is not None

    def ensure_init(self, tok: Tok):
        if tok.path in self.tok_inited:
            return
        self.tok_inited.add(tok.path)
        ci = self.src.cls(tok.cls)
        init = None
        for c in self.src.mro(ci):
            if isinstance(c, ClassInfo) and '__init__' in c.methods:
                init = c.methods['__init__']
                break
        if init is None or init.cls.name == 'BaseToken':
            return
        try:
            self.call_repo(init, [tok, Opaque('init-arg-value'), Opaque('init-arg-in_cell')], {}, None)
        except _Return:
            pass

    def ev_Subscript(self, node, env):
        base = self.ev(node.value, env)
        sl = node.slice
        if isinstance(sl, ast.Slice):
            lo = self.ev(sl.lower, env) if sl.lower else NONE
            hi = self.ev(sl.upper, env) if sl.upper else NONE
            st = self.ev(sl.step, env) if sl.step else NONE
            return self.slice(base, lo, hi, st, node)
        idx = self.ev(sl, env)
        return self.index(base, idx, node)

    def index(self, base: V, idx: V, node) -> V:
        if isinstance(base, TokValue):
            tok = base.tok
            if not (isinstance(idx, Const) and isinstance(idx.value, int)):
                raise AnalysisError('T', f'token value indexed by a non-constant in {self.where()}')
            k = idx.value
            if tok.cls in self.g.composites:
                return self.child(tok, k, node)
            t = self.g.terminals.get(tok.cls)
            if t is None:
                raise AnalysisError('T', f'{tok.cls} is neither terminal nor composite')
            gid = t.value_group(k)
            if gid is None:
                raise SymRaise('IndexError', node, f'{tok.cls}.value[{k}] but value has {t.value_len()} element(s)',
                               where=self.where())
            return GroupStr(tok.cls, gid, tok.path)
        if isinstance(base, (ListV, TupleV)):
            if isinstance(idx, Const) and isinstance(idx.value, int):
                if isinstance(base, ListV) and base.filtered:
                    return Opaque('index-of-filtered-list')
                n = len(base.items)
                if not (-n <= idx.value < n):
                    raise SymRaise('IndexError', node, f'index {idx.value} out of range for a {n}-element sequence',
                                   where=self.where())
                return base.items[idx.value]
            return Opaque('index-nonconst')
        if isinstance(base, DictV):
            for k, v in base.items:
                if self.same(k, idx, node):
                    return v
            raise SymRaise('KeyError', node, f'key {idx!r}', where=self.where())
        if isinstance(base, MatchV) and base.level == 3:
            return self.match_obj_group(base, idx, node)
        if isinstance(base, MatchV):
            if base.level == 0:
                return MatchV(base.pattern, base.subject, 1, base.flags)
            if base.level == 1 and isinstance(idx, Const) and isinstance(idx.value, int):
                rx = Regex(base.pattern, base.flags)
                if rx.ngroups <= 1:
                    return Opaque('char-of-match')
                if not (0 <= idx.value < rx.ngroups):
                    raise SymRaise('IndexError', node, f'match tuple has {rx.ngroups} groups', where=self.where())
                return GroupStr(f'regex:{base.flags}:' + base.pattern, idx.value + 1, (), '', repr(base.subject)[:40])
            return Opaque('match-index')
        if isinstance(base, (Code, GroupStr)) or (isinstance(base, Const) and isinstance(base.value, str)):
            if isinstance(base, GroupStr):
                return GroupStr(base.owner, base.gid, base.path, 'char', base.src_taint)
            if isinstance(base, Const) and isinstance(idx, Const) and isinstance(idx.value, int):
                try:
                    return Const(base.value[idx.value])
                except IndexError:
                    raise SymRaise('IndexError', node, 'string index out of range', where=self.where())
            return code_of(Part('opaque', 'char-of-code', node=node))
        if isinstance(base, Const) and base.value is None:
            raise SymRaise('TypeError', node, "'NoneType' object is not subscriptable", where=self.where())
        if isinstance(base, Opaque):
            return Opaque(f'{base.why}[]')
        if isinstance(base, CellV):
            raise SymRaise('TypeError', node, "'Cell' object is not subscriptable", where=self.where())
        if isinstance(base, Tok):
            raise SymRaise('TypeError', node, f"'{base.cls}' object is not subscriptable", where=self.where())
        raise AnalysisError('T', f'subscript of {type(base).__name__} not modelled in {self.where()}')

    def slice(self, base, lo, hi, st, node):
        def c(x):
            return x.value if isinstance(x, Const) else '?'
        if isinstance(base, GroupStr):
            return GroupStr(base.owner, base.gid, base.path, f'slice[{c(lo)}:{c(hi)}]', base.src_taint)
        if isinstance(base, (ListV, TupleV)) and all(isinstance(x, Const) for x in (lo, hi, st)):
            items = base.items[slice(lo.value, hi.value, st.value)]
            return type(base)(tuple(items)) if isinstance(base, TupleV) else ListV(tuple(items), base.filtered)
        if isinstance(base, Const) and isinstance(base.value, str) and all(isinstance(x, Const) for x in (lo, hi, st)):
            return Const(base.value[slice(lo.value, hi.value, st.value)])
        if isinstance(base, Code):
            return code_of(Part('opaque', 'slice-of-code', node=node))
        if isinstance(base, TokValue):
            if all(isinstance(x, Const) and (x.value is None or isinstance(x.value, int)) for x in (lo, hi, st)):
                items = self.iterate(base, node)
                return TupleV(tuple(items[slice(lo.value, hi.value, st.value)]))
            return Opaque('slice-of-token-value')
        if isinstance(base, MatchV) and base.level == 1 and all(isinstance(x, Const) for x in (lo, hi, st)):
            items = self.iterate(base, node)
            return TupleV(tuple(items[slice(lo.value, hi.value, st.value)]))
        return Opaque('slice')

    # ---- iteration -------------------------------------------------------------------------------------------
    def iterate(self, v: V, node=None) -> list:
        if isinstance(v, (ListV, TupleV)):
            return list(v.items)
        if isinstance(v, DictV):
            return [k for k, _ in v.items]
        if isinstance(v, TokValue):
            tok = v.tok
            if tok.cls in self.g.composites:
                return [self.child(tok, k) for k in range(len(self.symbols_of(tok)))]
            t = self.g.terminals[tok.cls]
            return [GroupStr(tok.cls, t.value_group(k), tok.path) for k in range(t.value_len())]
        if isinstance(v, MatchV) and v.level == 1:
            rx = Regex(v.pattern, v.flags)
            if rx.ngroups > 1:
                return [GroupStr(f'regex:{v.flags}:' + v.pattern, k, (), '', repr(v.subject)[:40]) for k in range(1, rx.ngroups + 1)]
        if isinstance(v, Opaque):
            return [Opaque(f'elem-of({v.why})')]
        if isinstance(v, Const) and v.value is None:
            raise SymRaise('TypeError', node, "'NoneType' object is not iterable", where=self.where())
        if isinstance(v, Tok):
            raise SymRaise('TypeError', node, f"'{v.cls}' object is not iterable", where=self.where())
        if isinstance(v, CellV):
            raise SymRaise('TypeError', node, "'Cell' object is not iterable", where=self.where())
        if isinstance(v, NumV) or (isinstance(v, Const) and isinstance(v.value, (int, float))):
            raise SymRaise('TypeError', node, 'number is not iterable', where=self.where())
        return [Opaque(f'elem-of({type(v).__name__})')]

    def _comp(self, node, env, make):
        gens = node.generators
        out = []
        filtered = [False]

        def rec(i, e):
            if i == len(gens):
                out.append(make(e))
                return
            g = gens[i]
            itv = self.ev(g.iter, e)
            items = self.iterate(itv, g.iter)
            if isinstance(itv, ListV) and itv.filtered:
                filtered[0] = True
            for item in items:
                e2 = dict(e)
                self.assign(g.target, item, e2)
                ok = True
                for cond in g.ifs:
                    if not self.truth(self.ev(cond, e2), cond):
                        ok = False
                        break
                if ok:
                    rec(i + 1, e2)
        rec(0, dict(env))
        return out, filtered[0]

    def ev_ListComp(self, node, env):
        items, f = self._comp(node, env, lambda e: self.ev(node.elt, e))
        return ListV(tuple(items), f)

    ev_GeneratorExp = ev_ListComp
    ev_SetComp = ev_ListComp

    def ev_DictComp(self, node, env):
        items, f = self._comp(node, env, lambda e: (self.ev(node.key, e), self.ev(node.value, e)))
        return DictV(tuple(items))

    # ---- calls ---------------------------------------------------------------------------------------------------
    def ev_Call(self, node, env):
        # in-place growth of a local list: name.append(x) / name.extend(xs) / name.insert(0, x) re-binds the name to the longer
        # list (lists are values here; a second name for the same list is not followed)
        fn_ = node.func
        if isinstance(fn_, ast.Attribute) and fn_.attr in ('append', 'extend', 'insert') and isinstance(fn_.value, ast.Name) and \
                isinstance(env.get(fn_.value.id), ListV) and not node.keywords:
            cur = env[fn_.value.id]
            if sum(1 for v_ in env.values() if v_ is cur) > 1:
                raise AnalysisError('T', f'in-place mutation of a list that has two names in {self.where()}')
            vals = [self.ev(a, env) for a in node.args]
            if fn_.attr == 'append' and len(vals) == 1:
                env[fn_.value.id] = ListV(cur.items + (vals[0],), cur.filtered)
                return NONE
            if fn_.attr == 'extend' and len(vals) == 1 and isinstance(vals[0], (ListV, TupleV)):
                env[fn_.value.id] = ListV(cur.items + tuple(vals[0].items), cur.filtered)
                return NONE
            if fn_.attr == 'insert' and len(vals) == 2 and isinstance(vals[0], Const) and isinstance(vals[0].value, int):
                k = vals[0].value
                items = list(cur.items)
                items.insert(k, vals[1])
                env[fn_.value.id] = ListV(tuple(items), cur.filtered)
                return NONE
        f = self.ev(node.func, env)
        if isinstance(f, ClsV) and f.name == 'Cell':
            fields = ['title', 'column', 'row', 'value']
            fn = self.fn_stack[-1] if self.fn_stack else None
            snap = dict(env)
            d = {}
            for name, a in zip(fields, node.args):
                d[name] = Thunk(a, snap, fn)
            for k in node.keywords:
                if k.arg in fields:
                    d[k.arg] = Thunk(k.value, snap, fn)
            owner = env.get('self')
            tag = ''
            if isinstance(owner, Tok):
                cnt = self.__dict__.setdefault('_cellcount', {})
                k = cnt.get(owner.path, 0)
                cnt[owner.path] = k + 1
                tag = 'tok:' + '/'.join(map(str, owner.path)) + (f'#{k}' if k else '')
            origin = f'new@{self.where()}:{getattr(node, "lineno", 0)}:{getattr(node, "col_offset", 0)}:{tag}'
            return CellV(origin, d.get('title'), d.get('column'), d.get('row', NONE), d.get('value', NONE), tag)
        args = []
        for a in node.args:
            if isinstance(a, ast.Starred):
                args.extend(self.iterate(self.ev(a.value, env), a))
            else:
                args.append(self.ev(a, env))
        kwargs = {}
        for k in node.keywords:
            if k.arg is None:
                d = self.ev(k.value, env)
                if isinstance(d, DictV):
                    for kk, vv in d.items:
                        if isinstance(kk, Const):
                            kwargs[kk.value] = vv
                continue
            kwargs[k.arg] = self.ev(k.value, env)
        return self.call(f, args, kwargs, node, env)

    def call(self, f: V, args: list, kwargs: dict, node, env=None) -> V:
        if isinstance(f, FuncV):
            if f.kind == 'repo':
                fi: FunctionInfo = f.target
                recv = f.recv
                if fi.kind == 'classmethod':
                    cls_v = recv if isinstance(recv, ClsV) else (ClsV(fi.cls) if not isinstance(recv, Tok) else ClsV(self.src.cls(recv.cls)))
                    return self.call_translator_or_repo(fi, cls_v, args, kwargs, node)
                if fi.kind == 'staticmethod' or fi.cls is None:
                    return self.call_repo(fi, args, kwargs, node)
                if isinstance(recv, ClsV):      # unbound call Class.method(self, ...)
                    return self.call_repo(fi, args, kwargs, node)
                return self.call_repo(fi, [recv] + args, kwargs, node)
            if f.kind == 'ext' and f.target in ('functools.partial', 'partial') and args:
                return FuncV('partial', (args[0], tuple(args[1:]), tuple(sorted(kwargs.items(), key=lambda kv: kv[0]))))
            if f.kind == 'partial':
                inner, pre, kw0 = f.target
                kw2 = dict(kw0)
                kw2.update(kwargs)
                return self.call(inner, list(pre) + list(args), kw2, node, env)
            if f.kind == 'ext':
                return self.call_ext(f.target, args, kwargs, node)
            if f.kind == 'native':
                return self.call_native(f.target[0], f.target[1], f.recv, args, kwargs, node)
            if f.kind == 'bound':
                return self.call_bound(f.target[0], f.target[1], f.recv, args, kwargs, node)
            if f.kind == 'localfn':
                fdef, cenv = f.target
                params = [p.arg for p in fdef.args.args]
                if len(args) > len(params) or any(k not in params for k in kwargs):
                    raise SymRaise('TypeError', node, f'{fdef.name}() got unexpected arguments', where=self.where())
                e2 = dict(cenv)
                bound = dict(zip(params, args))
                bound.update(kwargs)
                nd = len(fdef.args.defaults)
                for i, p in enumerate(params):
                    if p not in bound:
                        di = i - (len(params) - nd)
                        if di < 0:
                            raise SymRaise('TypeError', node, f'{fdef.name}() missing {p}', where=self.where())
                        bound[p] = self.ev(fdef.args.defaults[di], cenv)
                e2.update(bound)
                try:
                    self.exec_block(fdef.body, e2)
                except _Return as r:
                    return r.value
                return NONE
            if f.kind == 'lambda':
                lam, cenv = f.target
                e2 = dict(cenv)
                for p, a in zip(lam.args.args, args):
                    e2[p.arg] = a
                return self.ev(lam.body, e2)
        if isinstance(f, ClsV):
            return self.construct(f, args, kwargs, node)
        if isinstance(f, Opaque):
            return Opaque(f'call({f.why})')
        if isinstance(f, Const) and f.value is None:
            raise SymRaise('TypeError', node, "'NoneType' object is not callable", where=self.where())
        raise AnalysisError('T', f'call of {type(f).__name__} not modelled in {self.where()}')

    def construct(self, c: ClsV, args, kwargs, node) -> V:
        name = c.name
        if name == 'Cell':
            fields = ['title', 'column', 'row', 'value']
            d = dict(zip(fields, args))
            d.update({k: v for k, v in kwargs.items() if k in fields})
            origin = f'new@{self.where()}:{getattr(node, "lineno", 0)}'
            return CellV(origin, d.get('title'), d.get('column'), d.get('row', NONE), d.get('value', NONE))
        if isinstance(c.ci, ClassInfo) and self.src.is_subclass(c.ci, 'Exception') or name.endswith('Exception') or \
                name.endswith('Error'):
            return Opaque(f'exception:{name}')
        return Opaque(f'instance:{name}')

    def is_translator(self, ci) -> bool:
        return isinstance(ci, ClassInfo) and self.src.is_subclass(ci, self.translator_base) and ci.name != self.translator_base

    def call_translator_or_repo(self, fi: FunctionInfo, cls_v: ClsV, args, kwargs, node) -> V:
        if fi.name == 'translate' and self.is_translator(cls_v.ci) and not self.descend and self.fn_stack and \
                not (self.depth == 0):
            subj = args[0] if args else kwargs.get('token', kwargs.get('cell', NONE))
            return self.slot(cls_v.name, subj, node)
        return self.call_repo(fi, [cls_v] + list(args), kwargs, node)

    def slot(self, translator: str, subj: V, node) -> Code:
        if isinstance(subj, Const) and subj.value is None:
            # every translator reads attributes of its token: passing None fails inside the callee
            raise SymRaise('AttributeError', node, f'{translator}.translate called with None', where=self.where())
        self.effects.append(Effect('translate-call', {'translator': translator, 'subject': subj}, node))
        if isinstance(subj, Tok):
            # the callee normalises (handle_cell) the Cell objects cached on this token
            self.handled.add('tok:' + '/'.join(map(str, subj.path)))
        elif isinstance(subj, CellV) and subj.tag.startswith('tok:'):
            self.handled.add(subj.tag.split('#')[0])
        return code_of(Part('slot', translator, subj, node=node))

    def call_repo(self, fi: FunctionInfo, args, kwargs, node) -> V:
        stub = self.stubs.get(fi.qualname)
        if stub is not None:
            return stub(self, args, kwargs, node)
        if self.depth > MAX_DEPTH:
            raise AnalysisError('T', f'call depth exceeded at {fi.qualname}')
        a = fi.node.args
        params = [x.arg for x in a.posonlyargs + a.args]
        env = {}
        defaults = a.defaults
        for i, p in enumerate(params):
            if i < len(args):
                env[p] = args[i]
            elif p in kwargs:
                env[p] = kwargs[p]
            else:
                di = i - (len(params) - len(defaults))
                if di >= 0:
                    env[p] = self._eval_default(defaults[di], fi)
                else:
                    raise SymRaise('TypeError', node, f'{fi.qualname}() missing argument {p}', where=self.where())
        if a.vararg:
            env[a.vararg.arg] = TupleV(tuple(args[len(params):]))
        elif len(args) > len(params):
            raise SymRaise('TypeError', node, f'{fi.qualname}() takes {len(params)} positional arguments but '
                                              f'{len(args)} were given', where=self.where())
        if a.kwarg:
            env[a.kwarg.arg] = DictV(tuple((Const(k), v) for k, v in kwargs.items() if k not in params))
        for kw in a.kwonlyargs:
            if kw.arg in kwargs:
                env[kw.arg] = kwargs[kw.arg]
        self.fn_stack.append(fi)
        self.depth += 1
        try:
            self.exec_block(fi.node.body, env)
            return NONE
        except _Return as r:
            return r.value
        finally:
            self.depth -= 1
            self.fn_stack.pop()

    def _eval_default(self, expr, fi):
        try:
            return self.from_py(ast.literal_eval(expr))
        except Exception:
            return Opaque('default')

    # external functions --------------------------------------------------------------------------------------------
    def call_ext(self, name: str, args, kwargs, node) -> V:
        short = name.split('.')[-1]
        if name.startswith('builtins.'):
            return self.call_builtin(short, args, kwargs, node)
        if name in ('re.findall',):
            pat = args[0] if args else kwargs.get('pattern')
            subj = args[1] if len(args) > 1 else kwargs.get('string')
            ptxt = pat.value if isinstance(pat, Const) else (pat.text_only() if isinstance(pat, Code) else None)
            if isinstance(ptxt, str):
                fl = args[2] if len(args) > 2 else kwargs.get('flags')
                flags = 0
                if fl is not None:
                    flags = self.re_flags(fl, node)
                return MatchV(ptxt, subj, 0, flags)
            return Opaque('re.findall(non-constant pattern)')
        if name in ('re.compile', 're.match', 're.search', 're.fullmatch'):
            pat = args[0] if args else kwargs.get('pattern')
            ptxt = pat.value if isinstance(pat, Const) else (pat.text_only() if isinstance(pat, Code) else None)
            if isinstance(ptxt, str):
                k = 1 if name == 're.compile' else 2
                fl = args[k] if len(args) > k else kwargs.get('flags')
                flags = self.re_flags(fl, node) if fl is not None else 0
                if name == 're.compile':
                    return RegexObjV(ptxt, flags)
                subj = args[1] if len(args) > 1 else kwargs.get('string')
                return MatchV(ptxt, subj, 3, flags)
            return Opaque(f'{name}(non-constant pattern)')
        if name.startswith('re.'):
            return Opaque(name)
        if short == 'column_index_from_string':
            x = args[0] if args else NONE
            if isinstance(x, NumV) or (isinstance(x, Const) and not isinstance(x.value, str)):
                raise SymRaise('TypeError', node, 'column_index_from_string of a number', where=self.where())
            return NumV('colidx', (x,))
        if short == 'get_column_letter':
            return code_of(Part('opaque', 'column-letter', node=node))
        return Opaque(f'ext:{name}')

    def re_flags(self, v, node) -> int:
        import re as _re
        if isinstance(v, FuncV) and v.kind == 'ext' and v.target.startswith('re.'):
            n = v.target[3:]
            table = {'ASCII': _re.ASCII, 'A': _re.ASCII, 'IGNORECASE': _re.I, 'I': _re.I, 'MULTILINE': _re.M, 'M': _re.M,
                     'DOTALL': _re.S, 'S': _re.S, 'VERBOSE': _re.X, 'X': _re.X, 'UNICODE': _re.U, 'U': _re.U}
            if n in table:
                return int(table[n])
        if isinstance(v, NumV) and v.op == 'bin' and v.args[0] == '|':
            return self.re_flags(v.args[1], node) | self.re_flags(v.args[2], node)
        if isinstance(v, Const) and isinstance(v.value, int):
            return v.value
        raise AnalysisError('T', f'regex flags not understood in {self.where()}')

    def call_builtin(self, name, args, kwargs, node) -> V:
        a0 = args[0] if args else None
        if name == 'str':
            if a0 is None:
                return Const('')
            if isinstance(a0, Const) and isinstance(a0.value, str):
                return a0
            return self.to_code(a0, node)
        if name == 'repr':
            return self.repr_of(a0, node)
        if name in ('int', 'float'):
            if isinstance(a0, Const) and isinstance(a0.value, (int, float)) and not isinstance(a0.value, bool):
                return Const(int(a0.value) if name == 'int' else float(a0.value))
            if isinstance(a0, Const) and a0.value is None:
                raise SymRaise('TypeError', node, f'{name}(None)', where=self.where())
            if isinstance(a0, Const) and isinstance(a0.value, str):
                try:
                    return Const(int(a0.value) if name == 'int' else float(a0.value))
                except ValueError:
                    raise SymRaise('ValueError', node, f'{name}({a0.value!r})', where=self.where())
            return NumV(name, (a0,))
        if name == 'len':
            if isinstance(a0, TokValue):
                tok = a0.tok
                if tok.cls in self.g.composites:
                    return Const(len(self.symbols_of(tok)))
                return Const(self.g.terminals[tok.cls].value_len())
            if isinstance(a0, (ListV, TupleV)):
                if isinstance(a0, ListV) and a0.filtered:
                    return Opaque('len-of-filtered')
                return Const(len(a0.items))
            if isinstance(a0, Const) and isinstance(a0.value, str):
                return Const(len(a0.value))
            if isinstance(a0, Const) and a0.value is None:
                raise SymRaise('TypeError', node, 'len(None)', where=self.where())
            return NumV('len', (a0,))
        if name == 'isinstance':
            return Const(self.isinstance(args[0], args[1], node))
        if name == 'hasattr':
            o, n = args[0], args[1]
            if isinstance(o, Tok) and isinstance(n, Const):
                return Const(self.tok_hasattr(o, n.value))
            if isinstance(o, Const):
                return Const(hasattr(o.value, n.value) if isinstance(n, Const) else False)
            return Const(self.choose(('hasattr', self._nid(node)), [True, False]))
        if name == 'getattr':
            o, n = args[0], args[1]
            default = args[2] if len(args) > 2 else None
            if not isinstance(n, Const):
                return Opaque('getattr-nonconst')
            if isinstance(o, Const) and o.value is None:
                if default is not None:
                    return default
                raise SymRaise('AttributeError', node, f"None has no attribute {n.value}", where=self.where())
            if isinstance(o, Tok) and default is not None and not self.tok_hasattr(o, n.value):
                return default
            if isinstance(o, (GroupStr, Code, NumV)) or (isinstance(o, Const)):
                if default is not None and n.value not in ('lower', 'upper'):
                    return default
            return self.getattr(o, n.value, node)
        if name in ('list', 'tuple', 'set'):
            if a0 is None:
                return ListV(()) if name != 'tuple' else TupleV(())
            items = self.iterate(a0, node)
            filt = isinstance(a0, ListV) and a0.filtered
            return TupleV(tuple(items)) if name == 'tuple' else ListV(tuple(items), filt)
        if name in ('reversed', 'sorted'):
            items = self.iterate(a0, node)
            return ListV(tuple(reversed(items)) if name == 'reversed' else tuple(items), reordered=name)
        if name == 'enumerate':
            items = self.iterate(a0, node)
            start = args[1].value if len(args) > 1 and isinstance(args[1], Const) else kwargs.get('start', Const(0)).value
            return ListV(tuple(TupleV((Const(i + start), x)) for i, x in enumerate(items)))
        if name == 'zip':
            cols = [self.iterate(a, node) for a in args]
            return ListV(tuple(TupleV(tuple(t)) for t in zip(*cols)))
        if name == 'range':
            if all(isinstance(a, Const) and isinstance(a.value, int) for a in args) and args:
                r = range(*[a.value for a in args])
                if len(r) <= 64:
                    return ListV(tuple(Const(i) for i in r))
            return ListV((NumV('range', tuple(self._num(a) for a in args)),), filtered=True)
        if name == 'bool':
            return Const(self.truth(a0, node))
        if name == 'type':
            if isinstance(a0, Tok):
                return ClsV(self.src.cls(a0.cls))
            return Opaque('type()')
        if name in ('any', 'all'):
            items = self.iterate(a0, node)
            ts = [self.truth(x, node) for x in items]
            return Const(any(ts) if name == 'any' else all(ts))
        if name == 'super':
            return Opaque('super')
        if name == 'print':
            return NONE
        if name in ('max', 'min', 'sum', 'abs', 'round'):
            return NumV('bin', (name,) + tuple(self._num(a) for a in args))
        return Opaque(f'builtin:{name}')

    def isinstance(self, v: V, c: V, node) -> bool:
        classes = []
        if isinstance(c, (TupleV, ListV)):
            classes = list(c.items)
        else:
            classes = [c]
        names = []
        for k in classes:
            if isinstance(k, ClsV):
                names.append(k)
            elif isinstance(k, FuncV) and k.kind == 'ext' and k.target.startswith('builtins.'):
                names.append(ClsV(k.target.split('.')[-1]))
            else:
                return self.choose(('isinstance-opaque', self._nid(node)), [True, False])
        if isinstance(v, Tok):
            ci = self.src.cls(v.cls)
            return any(isinstance(k.ci, ClassInfo) and self.src.is_subclass(ci, k.ci) for k in names)
        pyname = None
        if isinstance(v, Const):
            pyname = {type(None): 'NoneType', bool: 'bool', int: 'int', float: 'float', str: 'str'}.get(type(v.value))
            if pyname == 'bool' and any(k.name == 'int' for k in names):
                return True
        elif isinstance(v, (Code, GroupStr)):
            pyname = 'str'
        elif isinstance(v, ListV):
            pyname = 'list'
        elif isinstance(v, TupleV):
            pyname = 'tuple'
        elif isinstance(v, DictV):
            pyname = 'dict'
        elif isinstance(v, CellV):
            pyname = 'Cell'
        elif isinstance(v, NumV):
            if v.has_float():
                pyname = 'float'
            elif v.op in ('int', 'colidx', 'len', 'coord'):
                pyname = 'int'
        if pyname is not None:
            return any(k.name == pyname or k.name == 'object' for k in names)
        return self.choose(('isinstance-opaque', self._nid(node)), [True, False])

    # methods of strings / sequences / token value / cells ----------------------------------------------------------
    def match_obj_group(self, m: MatchV, idx, node) -> V:
        """m[n] / m['name'] / m.group(n) of a match object of a constant pattern"""
        rx = Regex(m.pattern, m.flags)
        n = None
        if isinstance(idx, Const) and isinstance(idx.value, int) and not isinstance(idx.value, bool):
            n = idx.value
        elif isinstance(idx, Const) and isinstance(idx.value, str):
            n = rx.tree.state.groupdict.get(idx.value)
            if n is None:
                raise SymRaise('IndexError', node, f'no such group {idx.value!r}', where=self.where())
        if n is None:
            return Opaque('match-group')
        if n == 0:
            return Opaque('whole-match')
        if not (1 <= n <= rx.ngroups):
            raise SymRaise('IndexError', node, f'no such group {n}', where=self.where())
        return GroupStr(f'regex:{m.flags}:' + m.pattern, n, (), '', repr(m.subject)[:40])

    def call_bound(self, kind, name, recv, args, kwargs, node) -> V:
        if kind == 'regexobj':
            if name in ('match', 'fullmatch', 'search'):
                return MatchV(recv.pattern, args[0] if args else NONE, 3, recv.flags)
            if name == 'findall':
                return MatchV(recv.pattern, args[0] if args else NONE, 0, recv.flags)
            return Opaque(f'regex.{name}')
        if kind == 'matchobj':
            if name == 'group':
                if len(args) > 1:            # m.group(a, b, ...) is the tuple of those groups
                    return TupleV(tuple(self.match_obj_group(recv, a, node) for a in args))
                return self.match_obj_group(recv, args[0] if args else Const(0), node)
            if name == 'groups':
                rx = Regex(recv.pattern, recv.flags)
                return TupleV(tuple(GroupStr(f'regex:{recv.flags}:' + recv.pattern, k, (), '', repr(recv.subject)[:40])
                                    for k in range(1, rx.ngroups + 1)))
            return Opaque(f'match.{name}')
        if kind == 'str':
            if name == 'join':
                items = self.iterate(args[0], node)
                sep = self.to_code(recv, node)
                parts = []
                seq = args[0]
                if isinstance(seq, ListV) and seq.filtered:
                    self.notes.append(f'join over a filtered list in {self.where()}')
                for i, it in enumerate(items):
                    if i:
                        parts.append(sep)
                    if not isinstance(it, (Code, GroupStr)) and not (isinstance(it, Const) and isinstance(it.value, str)):
                        if isinstance(it, Opaque):
                            parts.append(Part('opaque', it.why, node=node))
                            continue
                        raise SymRaise('TypeError', node, f'join: item is {type(it).__name__}, not str', where=self.where())
                    if isinstance(it, Code) and len(it.parts) == 1 and isinstance(it.parts[0], Part) and it.parts[0].kind == 'slot' \
                            and not it.parts[0].fmt:
                        # the result of another translator is used where only a str works
                        self.effects.append(Effect('str-required', {'slot': it.parts[0].a, 'how': 'str.join'}, node))
                    parts.append(self.to_code(it, node))
                c = code_of(*parts)
                if isinstance(seq, ListV) and seq.reordered:
                    self.effects.append(Effect('reordered-join', {'how': seq.reordered}, node))
                return c
            if name in ('lower', 'upper', 'strip', 'lstrip', 'rstrip', 'casefold', 'title'):
                if isinstance(recv, Const):
                    return Const(getattr(recv.value, name)(*[a.value for a in args if isinstance(a, Const)]))
                if isinstance(recv, GroupStr):
                    return GroupStr(recv.owner, recv.gid, recv.path, (recv.derived + '.' + name).strip('.'), recv.src_taint)
                return code_of(Part('opaque', f'{name}-of-code', node=node))
            if name in ('find', 'index', 'count'):
                if isinstance(recv, Const) and args and isinstance(args[0], Const):
                    try:
                        return Const(getattr(recv.value, name)(args[0].value))
                    except ValueError:
                        raise SymRaise('ValueError', node, 'substring not found', where=self.where())
                return NumV('len', (recv,))
            if name in ('startswith', 'endswith', 'isdigit', 'isalpha', 'isupper', 'islower', 'isnumeric'):
                if isinstance(recv, Const) and all(isinstance(a, Const) for a in args):
                    return Const(getattr(recv.value, name)(*[a.value for a in args]))
                return Const(self.choose(('strpred', name, self._nid(node)), [True, False]))
            if name == 'format':
                fmt = recv.value if isinstance(recv, Const) else (recv.text_only() if isinstance(recv, Code) else None)
                if isinstance(fmt, str):
                    import string as _string
                    parts = []
                    auto = 0
                    try:
                        fields = list(_string.Formatter().parse(fmt))
                    except ValueError:
                        raise SymRaise('ValueError', node, 'bad format string', where=self.where())
                    for lit, fld, spec, conv in fields:
                        if lit:
                            parts.append(lit)
                        if fld is None:
                            continue
                        if fld == '':
                            idx, auto = auto, auto + 1
                            val = args[idx] if idx < len(args) else None
                        elif fld.isdigit():
                            val = args[int(fld)] if int(fld) < len(args) else None
                        elif fld.isidentifier():
                            val = kwargs.get(fld)
                        else:
                            val = None
                        if val is None:
                            if fld and (fld.isidentifier() or fld.isdigit() or fld == ''):
                                raise SymRaise('KeyError' if fld.isidentifier() else 'IndexError', node,
                                               f'format field {fld!r} has no argument', where=self.where())
                            parts.append(Part('opaque', 'format-field', node=node))
                        elif spec:
                            parts.append(Part('opaque', 'format-spec', node=node))
                        else:
                            parts.append(self.to_code(val, node, conv='r' if conv in ('r', 'a') else ''))
                    return code_of(*parts)
                if isinstance(recv, Code) and any(isinstance(q, Part) and q.kind != 'opaque' for q in recv.parts):
                    return code_of(Part('opaque', 'REFORMAT:str.format applied to text that already contains translated parts', node=node))
                return code_of(Part('opaque', 'str.format', node=node))
            if name in ('replace', 'split', 'splitlines', 'partition', 'zfill', 'ljust', 'rjust', 'encode'):
                if isinstance(recv, Const) and all(isinstance(a, Const) for a in args):
                    return self.from_py(getattr(recv.value, name)(*[a.value for a in args]))
                if isinstance(recv, GroupStr) and name == 'replace':
                    return GroupStr(recv.owner, recv.gid, recv.path, (recv.derived + '.replace').strip('.'), recv.src_taint)
                return code_of(Part('opaque', f'{name}-of-code', node=node)) if name == 'replace' else Opaque(name)
            return Opaque(f'str.{name}')
        if kind == 'seq':
            if name in ('append', 'extend', 'insert', 'pop', 'remove', 'sort', 'reverse', 'update', 'clear', 'add'):
                raise AnalysisError('T', f'in-place mutation of a sequence ({name}) is not modelled in {self.where()}')
            if name == 'get' and isinstance(recv, DictV):
                for k, v in recv.items:
                    if self.same(k, args[0], node):
                        return v
                return args[1] if len(args) > 1 else NONE
            if name in ('items', 'keys', 'values') and isinstance(recv, DictV):
                if name == 'items':
                    return ListV(tuple(TupleV((k, v)) for k, v in recv.items))
                return ListV(tuple((k if name == 'keys' else v) for k, v in recv.items))
            if name == 'index':
                return Opaque('list.index')
            if name == 'copy':
                return recv
            return Opaque(f'seq.{name}')
        if kind == 'tokvalue':
            return Opaque(f'tokvalue.{name}')
        if kind == 'cell':
            if name == 'has_handled_identifiers':
                return Opaque('cell.handled?')
            return Opaque(f'cell.{name}()')
        raise AnalysisError('T', f'bound call {kind}.{name} not modelled')

    # context / excel -------------------------------------------------------------------------------------------------
    def call_native(self, kind, name, recv, args, kwargs, node) -> V:
        if kind == 'context':
            if name == 'set_sub_cell':
                cell = args[0] if args else kwargs.get('cell')
                code = args[1] if len(args) > 1 else kwargs.get('code')
                c = self.to_code(code, node) if not isinstance(code, Code) else code
                if not isinstance(code, (Code, GroupStr)) and not (isinstance(code, Const) and isinstance(code.value, str)):
                    self.effects.append(Effect('non-str-code', {'value': code, 'sink': 'set_sub_cell'}, node))
                self.effects.append(Effect('set_sub_cell', {'cell': cell, 'code': c}, node))
                return code_of(Part('sub', c, cell, node=node))
            if name == 'set_cell':
                cell = args[0] if args else kwargs.get('cell')
                code = args[1] if len(args) > 1 else kwargs.get('code')
                c = self.to_code(code, node)
                self.effects.append(Effect('set_cell', {'cell': cell, 'code': c}, node))
                return code_of(Part('cellref', cell, node=node))
            if name == 'get_cell':
                if self.choose(('ctx-has-cell', self._nid(node)), [True, False]):
                    return code_of(Part('cellref', args[0] if args else NONE, node=node))
                return NONE
            self.effects.append(Effect('context-call', {'name': name}, node))
            return Opaque(f'context.{name}()')
        if kind == 'excel':
            self.effects.append(Effect('excel-call', {'name': name, 'args': args}, node))
            for a in args:
                if isinstance(a, CellV) and a.tag.startswith('tok:'):
                    self.handled.add(a.tag.split('#')[0])
            def ctag(a):
                return a.tag if isinstance(a, CellV) and a.tag else type(a).__name__
            if name == 'get_range':
                return ListV((CellV(f'excel.get_range@{self._nid(node)}', tag='area:' + ';'.join(ctag(a) for a in args)),),
                             filtered=True)
            if name == 'get_matrix':
                return ListV((ListV((CellV(f'excel.get_matrix@{self._nid(node)}',
                                           tag='area:' + ';'.join(ctag(a) for a in args)),), filtered=True),), filtered=True)
            if name == 'get_similar_second':
                return CellV(f'excel.get_similar_second@{self._nid(node)}',
                             tag='similar:(' + ';'.join(ctag(a) for a in args) + ')', title=TupleV(tuple(args)))
            if name in ('fill_cell', '_fill_cell'):
                return args[0] if args else NONE
            if name == 'get_cells':
                return ListV((CellV('excel.get_cells', tag='area-cell'),), filtered=True)
            return Opaque(f'excel.{name}()')
        raise AnalysisError('T', f'native object {kind} not modelled')

    # ---- statements -----------------------------------------------------------------------------------------------------
    def exec_block(self, stmts, env):
        for st in stmts:
            self.exec_stmt(st, env)

    def exec_stmt(self, st, env):
        m = getattr(self, 'st_' + type(st).__name__, None)
        if m is None:
            raise AnalysisError('T', f'unmodelled statement {type(st).__name__} in {self.where()} (line {st.lineno})')
        m(st, env)

    def st_Expr(self, st, env):
        if isinstance(st.value, ast.Constant):
            return
        self.ev(st.value, env)

    def st_Pass(self, st, env):
        pass

    def st_Import(self, st, env):
        pass

    def st_ImportFrom(self, st, env):
        pass

    def st_Return(self, st, env):
        raise _Return(self.ev(st.value, env) if st.value is not None else NONE)

    def st_Raise(self, st, env):
        name = '?'
        if st.exc is not None:
            e = st.exc
            f = e.func if isinstance(e, ast.Call) else e
            if isinstance(f, ast.Name):
                name = f.id
            elif isinstance(f, ast.Attribute):
                name = f.attr
            if isinstance(e, ast.Call):
                for a in e.args:
                    try:
                        self.ev(a, env)
                    except (NeedChoice, AnalysisError):
                        pass
        raise SymRaise(name, st, 'explicit raise', explicit=True, where=self.where())

    def st_Assign(self, st, env):
        v = self.ev(st.value, env)
        for t in st.targets:
            self.assign(t, v, env, st)

    def st_AnnAssign(self, st, env):
        if st.value is not None:
            self.assign(st.target, self.ev(st.value, env), env, st)

    def st_AugAssign(self, st, env):
        cur = self.ev(_load(st.target), env)
        new = self.ev(ast.BinOp(left=_Lit(cur), op=st.op, right=st.value, lineno=st.lineno, col_offset=st.col_offset), env)
        self.assign(st.target, new, env, st)

    def assign(self, target, v: V, env, st=None):
        if isinstance(target, ast.Name):
            env[target.id] = v
        elif isinstance(target, (ast.Tuple, ast.List)):
            items = self.iterate(v, target)
            if isinstance(v, (ListV,)) and v.filtered or isinstance(v, Opaque):
                items = [Opaque('unpacked') for _ in target.elts]
            if len(items) != len(target.elts):
                raise SymRaise('ValueError', target, f'cannot unpack {len(items)} value(s) into {len(target.elts)} target(s)',
                               where=self.where())
            for t, x in zip(target.elts, items):
                self.assign(t, x, env, st)
        elif isinstance(target, ast.Attribute):
            base = self.ev(target.value, env)
            if isinstance(base, Tok):
                self.ensure_init(base) if (base.path in self.tok_inited) else None
                self.tok_attrs[(base.path, target.attr)] = v
                if not (self.fn_stack and self.fn_stack[-1].cls is not None and
                        self.src.is_subclass(self.fn_stack[-1].cls, 'BaseToken')):
                    self.effects.append(Effect('token-attr-store', {'token': base, 'attr': target.attr}, st))
            elif isinstance(base, CellV):
                self.cell_attrs[(base.origin, target.attr)] = v
                self.effects.append(Effect('cell-attr-store', {'cell': base, 'attr': target.attr, 'value': v}, st))
            elif isinstance(base, ObjV):
                self.effects.append(Effect('obj-attr-store', {'obj': base.kind, 'attr': target.attr}, st))
            elif isinstance(base, ClsV):
                self.effects.append(Effect('class-attr-store', {'cls': base.name, 'attr': target.attr}, st))
            else:
                self.effects.append(Effect('attr-store', {'on': type(base).__name__, 'attr': target.attr}, st))
        elif isinstance(target, ast.Subscript):
            self.effects.append(Effect('subscript-store', {}, st))
        elif isinstance(target, ast.Starred):
            self.assign(target.value, v, env, st)
        else:
            raise AnalysisError('T', f'unmodelled assignment target in {self.where()}')

    def st_If(self, st, env):
        if self.truth(self.ev(st.test, env), st.test):
            self.exec_block(st.body, env)
        else:
            self.exec_block(st.orelse, env)

    def st_For(self, st, env):
        itv = self.ev(st.iter, env)
        items = self.iterate(itv, st.iter)
        try:
            for item in items:
                self.assign(st.target, item, env, st)
                try:
                    self.exec_block(st.body, env)
                except _Continue:
                    continue
            else:
                self.exec_block(st.orelse, env)
        except _Break:
            pass

    def st_While(self, st, env):
        n = 0
        try:
            while self.truth(self.ev(st.test, env), st.test):
                n += 1
                if n > 8:
                    raise AnalysisError('T', f'while loop not bounded by the abstraction in {self.where()}')
                try:
                    self.exec_block(st.body, env)
                except _Continue:
                    continue
        except _Break:
            pass

    def st_Break(self, st, env):
        raise _Break()

    def st_Continue(self, st, env):
        raise _Continue()

    def st_Assert(self, st, env):
        pass

    def st_Try(self, st, env):
        try:
            self.exec_block(st.body, env)
        except SymRaise as sr:
            for h in st.handlers:
                names = []
                if h.type is None:
                    names = None
                elif isinstance(h.type, ast.Tuple):
                    names = [getattr(x, 'id', getattr(x, 'attr', '?')) for x in h.type.elts]
                else:
                    names = [getattr(h.type, 'id', getattr(h.type, 'attr', '?'))]
                if names is None or sr.exc in names or 'Exception' in names or 'BaseException' in names:
                    if h.name:
                        env[h.name] = Opaque('exception-instance')
                    self.exec_block(h.body, env)
                    break
            else:
                raise
        else:
            self.exec_block(st.orelse, env)
        finally:
            if st.finalbody:
                self.exec_block(st.finalbody, env)

    def st_FunctionDef(self, st, env):
        a = st.args
        if st.decorator_list or a.vararg or a.kwarg or a.kwonlyargs or a.posonlyargs or \
                any(isinstance(n, (ast.Yield, ast.YieldFrom)) for n in ast.walk(st)):
            env[st.name] = Opaque(f'local-function:{st.name}')
            return
        env[st.name] = FuncV('localfn', (st, env))          # the enclosing environment is shared (closure)

    def st_ClassDef(self, st, env):
        env[st.name] = Opaque(f'local-class:{st.name}')

    def st_With(self, st, env):
        self.exec_block(st.body, env)

    def st_Delete(self, st, env):
        pass

    def st_Global(self, st, env):
        pass

    def match_group(self, v):
        return Opaque('match-group')


class _Lit(ast.expr):
    """wraps an already evaluated value as an expression node"""
    _fields = ()

    def __init__(self, v):
        super().__init__()
        self.v = v


def _ev_Lit(self, node, env):
    return node.v


Interp.ev__Lit = _ev_Lit


def _load(target):
    import copy
    t = copy.deepcopy(target)
    for n in ast.walk(t):
        if hasattr(n, 'ctx'):
            n.ctx = ast.Load()
    return t


# ---------------------------------------------------------------------------------------------------
# driver
# ---------------------------------------------------------------------------------------------------
def explore(src: SourceModel, grammar: Grammar, fn, max_worlds: int = MAX_WORLDS, stubs: dict | None = None,
            **interp_kw) -> list[Outcome]:
    """fn(interp) -> V ; explores every world reachable through the choices the evaluation needs"""
    results: list[Outcome] = []
    stack = [{}]
    n = 0
    while stack:
        world = stack.pop()
        n += 1
        if n > max_worlds:
            raise AnalysisError('T', f'more than {max_worlds} worlds')
        it = Interp(src, grammar, dict(world), **interp_kw)
        if stubs:
            it.stubs.update(stubs)
        try:
            v = fn(it)
            results.append(Outcome(it.world, 'return', v, effects=it.effects, notes=it.notes))
        except NeedChoice as nc:
            for opt in reversed(nc.options):
                w = dict(world)
                w[nc.key] = opt
                stack.append(w)
        except SymRaise as sr:
            results.append(Outcome(it.world, 'raise', None, sr.exc, sr.explicit, sr.node, sr.msg, sr.where,
                                   effects=it.effects, notes=it.notes))
        except (_Break, _Continue):
            raise AnalysisError('T', 'break/continue outside a loop')
    return results


def world_str(world: dict) -> str:
    out = []
    for k, v in sorted(world.items(), key=lambda kv: str(kv[0])):
        if k[0] == 'prod':
            out.append(f'{"/".join(map(str, k[1])) or "root"}:production[{v}]')
        elif k[0] == 'grp':
            out.append(f'{k[1]}#{k[3]}{"+" if v else "-"}')
        else:
            out.append(f'{k[0]}={v}')
    return ' '.join(out)


def root_production(world: dict):
    return world.get(('prod', ()))
