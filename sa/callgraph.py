"""Engine K -- call graph over the repository's own functions, with a repository-specific resolver, and effect
summaries (attribute stores, raises, nondeterminism sources)."""
from __future__ import annotations

import ast
from dataclasses import dataclass, field

from .core import AnalysisError, loc_of
from .source import SourceModel, ClassInfo, FunctionInfo

COMMON_DICT_METHODS = {'get', 'items', 'keys', 'values', 'update', 'pop', 'copy', 'append', 'extend', 'join', 'format',
                       'strip', 'lstrip', 'rstrip', 'lower', 'upper', 'find', 'replace', 'split', 'index', 'add', 'close',
                       'write', 'read', 'startswith', 'endswith', 'insert', 'remove', 'sort', 'reverse', 'clear', 'count',
                       'setdefault', 'isdigit', 'group', 'groups', 'span', 'date', 'weekday', 'time', 'fromkeys'}


@dataclass
class CallSite:
    caller: FunctionInfo
    node: ast.Call
    targets: list            # FunctionInfo list (resolved)
    how: str                 # 'static' | 'self' | 'typed' | 'cha' | 'dict-dispatch' | 'ctor' | 'unresolved' | 'external'
    text: str = ''


class CallGraph:
    def __init__(self, src: SourceModel):
        self.src = src
        self.sites: dict[str, list[CallSite]] = {}
        self.unresolved: list[str] = []
        self.by_name: dict[str, list[FunctionInfo]] = {}
        for f in src.functions.values():
            self.by_name.setdefault(f.name, []).append(f)
        for f in src.functions.values():
            self.sites[f.key] = self._sites_of(f)

    # ---------------------------------------------------------------------------------------
    def _class_of_annotation(self, ann, fn: FunctionInfo):
        if ann is None:
            return []
        out = []
        for n in ast.walk(ann):
            name = None
            if isinstance(n, ast.Name):
                name = n.id
            elif isinstance(n, ast.Constant) and isinstance(n.value, str):
                name = n.value
            if name:
                c = self.src.resolve_class(name, fn.module, fn)
                if c is not None:
                    out.append(c)
        return out

    def _local_types(self, fn: FunctionInfo) -> dict:
        """variable -> [ClassInfo] from parameter annotations, constructor calls, conditional class aliases;
        variable -> ('funcs', [FunctionInfo]) for dispatch-dict lookups"""
        types: dict = {}
        a = fn.node.args
        for p in a.posonlyargs + a.args + a.kwonlyargs:
            cs = self._class_of_annotation(p.annotation, fn)
            if cs:
                types[p.arg] = ('inst', cs)
        dicts: dict = {}
        for st in ast.walk(fn.node):
            if isinstance(st, ast.Assign) and len(st.targets) == 1 and isinstance(st.targets[0], ast.Name):
                name, v = st.targets[0].id, st.value
                if isinstance(v, ast.Call) and isinstance(v.func, ast.Name):
                    c = self.src.resolve_class(v.func.id, fn.module, fn)
                    if c is not None:
                        types[name] = ('inst', [c])
                if isinstance(v, ast.Call) and isinstance(v.func, ast.Attribute) and isinstance(v.func.value, ast.Name):
                    # X.parse(...) / X.factory(...) returning cls(...)
                    c = self.src.resolve_class(v.func.value.id, fn.module, fn)
                    if c is not None:
                        m = self.src.find_method(c, v.func.attr)
                        if m is not None and m.kind == 'classmethod' and any(
                                isinstance(r.value, ast.Call) and isinstance(r.value.func, ast.Name) and r.value.func.id == 'cls'
                                for r in ast.walk(m.node) if isinstance(r, ast.Return) and r.value is not None):
                            types[name] = ('inst', [c])
                if isinstance(v, ast.IfExp):
                    cs = []
                    for br in (v.body, v.orelse):
                        if isinstance(br, ast.Name):
                            c = self.src.resolve_class(br.id, fn.module, fn)
                            if c is not None:
                                cs.append(c)
                    if cs:
                        types[name] = ('class', cs)
                if isinstance(v, ast.Name):
                    c = self.src.resolve_class(v.id, fn.module, fn)
                    if c is not None:
                        types[name] = ('class', [c])
                if isinstance(v, ast.Dict):
                    funcs = []
                    for val in v.values:
                        t = self._resolve_callable_expr(val, fn, {})
                        funcs.extend(t)
                    if funcs:
                        dicts[name] = funcs
                if isinstance(v, ast.Call) and isinstance(v.func, ast.Attribute) and v.func.attr == 'get' and \
                        isinstance(v.func.value, ast.Name) and v.func.value.id in dicts:
                    types[name] = ('funcs', dicts[v.func.value.id])
                if isinstance(v, ast.Subscript) and isinstance(v.value, ast.Name) and v.value.id in dicts:
                    types[name] = ('funcs', dicts[v.value.id])
            if isinstance(st, ast.AnnAssign) and isinstance(st.target, ast.Name):
                cs = self._class_of_annotation(st.annotation, fn)
                if cs:
                    types[st.target.id] = ('inst', cs)
        return types

    def _self_attr_types(self, ci: ClassInfo) -> dict:
        """self.<attr> -> [ClassInfo] from annotated assignments in the class's methods"""
        out = {}
        for m in ci.methods.values():
            for st in ast.walk(m.node):
                if isinstance(st, ast.AnnAssign) and isinstance(st.target, ast.Attribute) and \
                        isinstance(st.target.value, ast.Name) and st.target.value.id == 'self':
                    cs = self._class_of_annotation(st.annotation, m)
                    if cs:
                        out[st.target.attr] = cs
                if isinstance(st, ast.Assign) and len(st.targets) == 1 and isinstance(st.targets[0], ast.Attribute) and \
                        isinstance(st.targets[0].value, ast.Name) and st.targets[0].value.id == 'self' and \
                        isinstance(st.value, ast.Call) and isinstance(st.value.func, ast.Name):
                    c = self.src.resolve_class(st.value.func.id, m.module, m)
                    if c is not None:
                        out.setdefault(st.targets[0].attr, []).append(c)
        return out

    def _methods_incl_overrides(self, ci: ClassInfo, name: str) -> list:
        out = []
        m = self.src.find_method(ci, name)
        if m is not None:
            out.append(m)
        for sub in self.src.subclasses(ci):
            if name in sub.methods and sub.methods[name] not in out:
                out.append(sub.methods[name])
        return out

    def _resolve_callable_expr(self, f, fn: FunctionInfo, types: dict) -> list:
        """targets of calling expression f (not the Call node)"""
        src = self.src
        if isinstance(f, ast.Name):
            if f.id in types:
                kind, val = types[f.id]
                if kind == 'funcs':
                    return list(val)
                if kind == 'class':
                    return [m for c in val for m in [src.find_method(c, '__init__')] if m is not None]
            r = src.resolve(f.id, fn.module, fn)
            if r is None:
                return []
            if r[0] == 'func':
                return [r[1]]
            if r[0] == 'class':
                m = src.find_method(r[1], '__init__')
                return [m] if m is not None else []
            return []
        if isinstance(f, ast.Attribute):
            base = f.value
            if isinstance(base, ast.Name):
                if base.id in ('self', 'cls') and fn.cls is not None:
                    return self._methods_incl_overrides(fn.cls, f.attr)
                if base.id in types:
                    kind, val = types[base.id]
                    if kind in ('inst', 'class'):
                        out = []
                        for c in val:
                            out.extend(self._methods_incl_overrides(c, f.attr))
                        return out
                r = src.resolve(base.id, fn.module, fn)
                if r is not None and r[0] == 'class':
                    m = src.find_method(r[1], f.attr)
                    return [m] if m is not None else []
                if r is not None and r[0] == 'module':
                    rr = src.lookup_in_module(r[1].name, f.attr)
                    if rr and rr[0] == 'func':
                        return [rr[1]]
                    if rr and rr[0] == 'class':
                        m = src.find_method(rr[1], '__init__')
                        return [m] if m is not None else []
            if isinstance(base, ast.Attribute) and isinstance(base.value, ast.Name) and base.value.id == 'self' and \
                    fn.cls is not None:
                at = self._self_attr_types(fn.cls).get(base.attr)
                if at:
                    out = []
                    for c in at:
                        out.extend(self._methods_incl_overrides(c, f.attr))
                    return out
            if isinstance(base, ast.Call) and isinstance(base.func, ast.Name) and base.func.id == 'super' and fn.cls:
                for c in src.mro(fn.cls)[1:]:
                    if isinstance(c, ClassInfo) and f.attr in c.methods:
                        return [c.methods[f.attr]]
                return []
            if isinstance(base, ast.Call):
                # chained call: X.parse(...).method  /  self._translate().attr
                inner = self._resolve_callable_expr(base.func, fn, types)
                out = []
                for t in inner:
                    if t.cls is not None:
                        out.extend(self._methods_incl_overrides(t.cls, f.attr))
                return out
        return []

    def _sites_of(self, fn: FunctionInfo) -> list:
        types = self._local_types(fn)
        out = []
        for node in ast.walk(fn.node):
            if not isinstance(node, ast.Call):
                continue
            f = node.func
            targets = self._resolve_callable_expr(f, fn, types)
            text = ast.unparse(f)[:80]
            how = 'static'
            is_super = isinstance(f, ast.Attribute) and isinstance(f.value, ast.Call) and \
                isinstance(f.value.func, ast.Name) and f.value.func.id == 'super'
            if not targets and is_super:
                how = 'external'
            elif not targets:
                if isinstance(f, ast.Attribute) and f.attr in self.by_name and f.attr not in COMMON_DICT_METHODS:
                    targets = [t for t in self.by_name[f.attr] if t.cls is not None]
                    how = 'cha'
                elif isinstance(f, ast.Attribute) and f.attr in self.by_name and isinstance(f.value, ast.Name) and \
                        f.value.id not in ('self', 'cls') and f.attr == 'get' and 'token' in f.value.id.lower():
                    # token.get(...) in the parser loops over token classes
                    targets = [t for t in self.by_name['get'] if t.cls is not None and self.src.is_subclass(t.cls, 'BaseToken')]
                    how = 'cha'
                else:
                    how = 'external'
            out.append(CallSite(fn, node, targets, how, text))
        return out

    # ---------------------------------------------------------------------------------------
    def callees(self, fn: FunctionInfo) -> list:
        out = []
        for s in self.sites.get(fn.key, []):
            for t in s.targets:
                if t not in out:
                    out.append(t)
        # properties read as attributes: self.prop / token.prop -- name-based
        for node in ast.walk(fn.node):
            if isinstance(node, ast.Attribute) and isinstance(node.ctx, ast.Load) and node.attr in self.by_name:
                for t in self.by_name[node.attr]:
                    if t.kind == 'property' and t not in out:
                        out.append(t)
        return out

    def reachable(self, entries: list) -> dict:
        """FunctionInfo.key -> (FunctionInfo, parent key) for everything reachable from entries"""
        seen: dict = {}
        work = [(e, None) for e in entries]
        while work:
            f, parent = work.pop()
            if f.key in seen:
                continue
            seen[f.key] = (f, parent)
            for c in self.callees(f):
                if c.key not in seen:
                    work.append((c, f.key))
        return seen

    def path_to(self, reach: dict, key: str) -> list:
        out = []
        while key is not None:
            out.append(key.split(':', 1)[1])
            key = reach[key][1]
        return list(reversed(out))

    def callers_of(self, target: FunctionInfo) -> list:
        out = []
        for sites in self.sites.values():
            for s in sites:
                if target in s.targets:
                    out.append(s)
        return out


_cg_cache: dict = {}


def get_callgraph(src: SourceModel) -> CallGraph:
    if id(src) not in _cg_cache:
        _cg_cache[id(src)] = CallGraph(src)
    return _cg_cache[id(src)]


# ---------------------------------------------------------------------------------------------------
# effects
# ---------------------------------------------------------------------------------------------------
@dataclass
class Store:
    kind: str           # 'self-attr' | 'cls-attr' | 'class-attr' | 'obj-attr' | 'subscript' | 'mutating-call' | 'global'
    target: str         # textual target, e.g. 'self._cells', 'cell.value'
    base: str           # base variable name
    attr: str
    node: ast.AST = None
    fresh: bool = False  # the base object was created inside this function


MUTATORS = {'append', 'extend', 'insert', 'pop', 'remove', 'clear', 'sort', 'reverse', 'update', 'add', 'discard',
            'setdefault', 'popitem', '__setitem__'}


def fresh_locals(fn: ast.FunctionDef) -> set:
    """local variables that only ever hold objects created in this function (literals, comprehensions, constructor or
    function call results)"""
    assigned: dict[str, list] = {}
    params = {a.arg for a in fn.args.posonlyargs + fn.args.args + fn.args.kwonlyargs}
    for st in ast.walk(fn):
        tgts = []
        if isinstance(st, ast.Assign):
            tgts = [(t, st.value) for t in st.targets]
        elif isinstance(st, ast.AnnAssign) and st.value is not None:
            tgts = [(st.target, st.value)]
        elif isinstance(st, ast.AugAssign):
            tgts = [(st.target, st.value)]
        elif isinstance(st, (ast.For, ast.comprehension)):
            for n in ast.walk(st.target):
                if isinstance(n, ast.Name):
                    assigned.setdefault(n.id, []).append(None)
        for t, v in tgts:
            if isinstance(t, ast.Name):
                assigned.setdefault(t.id, []).append(v)
            elif isinstance(t, (ast.Tuple, ast.List)):
                if isinstance(v, (ast.Tuple, ast.List)) and len(v.elts) == len(t.elts):
                    for tt, vv in zip(t.elts, v.elts):
                        if isinstance(tt, ast.Name):
                            assigned.setdefault(tt.id, []).append(vv)
                else:
                    for n in ast.walk(t):
                        if isinstance(n, ast.Name):
                            assigned.setdefault(n.id, []).append(None)
    fresh = set()
    changed = True

    def is_fresh(v):
        if v is None:
            return False
        if isinstance(v, (ast.List, ast.Dict, ast.Set, ast.ListComp, ast.DictComp, ast.SetComp, ast.Constant, ast.JoinedStr,
                          ast.Tuple)):
            return True
        if isinstance(v, ast.Call):
            # results of calls are treated as fresh except calls that return their argument / stored state
            f = v.func
            if isinstance(f, ast.Attribute) and f.attr in ('get', 'setdefault', 'pop', '__getitem__'):
                return False
            if isinstance(f, ast.Attribute) and isinstance(f.value, ast.Name) and f.value.id in ('self', 'cls'):
                return f.attr.startswith('_flatten') or f.attr.startswith('_only') or f.attr.startswith('_when')
            return True
        if isinstance(v, ast.BinOp):
            return True
        if isinstance(v, ast.Name):
            return v.id in fresh
        if isinstance(v, ast.IfExp):
            return is_fresh(v.body) and is_fresh(v.orelse)
        if isinstance(v, ast.Subscript) and isinstance(v.slice, ast.Slice):
            return True
        return False
    while changed:
        changed = False
        for name, vals in assigned.items():
            if name in fresh or name in params:
                continue
            if vals and all(is_fresh(v) for v in vals):
                fresh.add(name)
                changed = True
    return fresh


def stores_of(fn: ast.FunctionDef) -> list:
    out = []
    fresh = fresh_locals(fn)

    def base_name(n):
        while isinstance(n, (ast.Attribute, ast.Subscript)):
            n = n.value
        return n.id if isinstance(n, ast.Name) else None

    def record(t, node):
        if isinstance(t, ast.Attribute):
            b = base_name(t)
            kind = 'self-attr' if b == 'self' else 'cls-attr' if b == 'cls' else 'obj-attr'
            out.append(Store(kind, ast.unparse(t), b or '?', t.attr, node, fresh=(b in fresh)))
        elif isinstance(t, ast.Subscript):
            b = base_name(t)
            inner = t.value
            attr = inner.attr if isinstance(inner, ast.Attribute) else ''
            out.append(Store('subscript', ast.unparse(t), b or '?', attr, node, fresh=(b in fresh)))
        elif isinstance(t, (ast.Tuple, ast.List)):
            for e in t.elts:
                record(e, node)
        elif isinstance(t, ast.Starred):
            record(t.value, node)

    nested = [n for n in ast.walk(fn) if isinstance(n, (ast.FunctionDef, ast.Lambda)) and n is not fn]
    for st in ast.walk(fn):
        if isinstance(st, ast.Assign):
            for t in st.targets:
                record(t, st)
        elif isinstance(st, (ast.AugAssign, ast.AnnAssign)):
            if not (isinstance(st, ast.AnnAssign) and st.value is None):
                record(st.target, st)
        elif isinstance(st, ast.Delete):
            for t in st.targets:
                record(t, st)
        elif isinstance(st, ast.Global):
            for n in st.names:
                out.append(Store('global', n, n, n, st))
        elif isinstance(st, ast.Call) and isinstance(st.func, ast.Attribute) and st.func.attr in MUTATORS:
            b = base_name(st.func.value)
            recv = st.func.value
            attr = recv.attr if isinstance(recv, ast.Attribute) else ''
            if b is not None:
                out.append(Store('mutating-call', ast.unparse(st.func), b, attr, st, fresh=(b in fresh)))
    return out


def raises_of(fn: ast.FunctionDef) -> list:
    """(exception class name, Raise node) for explicit raises (bare re-raise -> '<reraise>')"""
    out = []
    for st in ast.walk(fn):
        if isinstance(st, ast.Raise):
            if st.exc is None:
                out.append(('<reraise>', st))
                continue
            e = st.exc.func if isinstance(st.exc, ast.Call) else st.exc
            if isinstance(e, ast.Name):
                out.append((e.id, st))
            elif isinstance(e, ast.Attribute):
                out.append((e.attr, st))
            else:
                out.append(('?', st))
    return out


NONDET_CALLS = {'id', 'hash', 'random', 'uuid4', 'uuid1', 'time', 'now', 'today', 'utcnow', 'getpid', 'listdir', 'scandir',
                'urandom', 'getenv', 'shuffle', 'choice', 'randint', 'monotonic', 'perf_counter', 'glob', 'iterdir'}


def nondeterminism_of(fn: ast.FunctionDef) -> list:
    """(kind, node): iteration over a set, calls of clock/random/identity/environment sources"""
    out = []
    set_vars = set()
    for st in ast.walk(fn):
        if isinstance(st, ast.Assign) and isinstance(st.value, (ast.Set, ast.SetComp)) or \
                isinstance(st, ast.Assign) and isinstance(st.value, ast.Call) and isinstance(st.value.func, ast.Name) and \
                st.value.func.id in ('set', 'frozenset'):
            for t in st.targets:
                if isinstance(t, ast.Name):
                    set_vars.add(t.id)

    def is_keys_view(e):
        return isinstance(e, ast.Call) and isinstance(e.func, ast.Attribute) and e.func.attr in ('keys', 'items') and not e.args

    def is_set_expr(e):
        if isinstance(e, (ast.Set, ast.SetComp)):
            return True
        if isinstance(e, ast.Call) and isinstance(e.func, ast.Name) and e.func.id in ('set', 'frozenset'):
            return True
        if isinstance(e, ast.Name) and e.id in set_vars:
            return True
        # set algebra: the result of - & | ^ on a set or on a dict view is a set (its order depends on the hash seed)
        if isinstance(e, ast.BinOp) and isinstance(e.op, (ast.Sub, ast.BitAnd, ast.BitOr, ast.BitXor)) and \
                (is_set_expr(e.left) or is_set_expr(e.right) or is_keys_view(e.left) or is_keys_view(e.right)):
            return True
        if isinstance(e, ast.Call) and isinstance(e.func, ast.Attribute) and e.func.attr in (
                'difference', 'intersection', 'union', 'symmetric_difference') and (is_set_expr(e.func.value) or is_keys_view(e.func.value)):
            return True
        return False
    for _ in range(2):
        for st in ast.walk(fn):
            if isinstance(st, ast.Assign) and is_set_expr(st.value):
                for t in st.targets:
                    if isinstance(t, ast.Name):
                        set_vars.add(t.id)
    for st in ast.walk(fn):
        if isinstance(st, (ast.For, ast.comprehension)) and is_set_expr(st.iter):
            out.append(('iteration over a set', st.iter))
        if isinstance(st, ast.Call):
            f = st.func
            name = f.id if isinstance(f, ast.Name) else f.attr if isinstance(f, ast.Attribute) else ''
            if name in NONDET_CALLS:
                # dict.today etc. do not exist; accept the name match but skip obvious non-sources
                if name in ('time', 'choice') and isinstance(f, ast.Attribute) and isinstance(f.value, ast.Name) and \
                        f.value.id not in ('time', 'random', 'datetime'):
                    continue
                out.append((f'call of {ast.unparse(f)}', st))
            if name in ('list', 'tuple', 'sorted', 'join', 'enumerate') and st.args and is_set_expr(st.args[0]) and \
                    name != 'sorted':
                out.append(('ordering taken from a set', st))
            if isinstance(f, ast.Attribute) and f.attr == 'environ':
                out.append(('os.environ', st))
        if isinstance(st, ast.Attribute) and st.attr == 'environ':
            out.append(('os.environ', st))
        if isinstance(st, ast.Starred) and is_set_expr(st.value):
            out.append(('unpacking of a set', st))
    return out
