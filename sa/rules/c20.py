"""C20 -- the importable runtime base class and the emitted runtime agree (DESIGN 3/C20)."""
from __future__ import annotations

import ast
import builtins

from ..core import Run, AnalysisError
from ..source import get_source
from ..runtime import get_runtime, normalize_function, first_difference, show, local_names, _strip_doc

INFO = {
    'explanation': (
        'Decides C20 completely in the sufficient direction: the importable base class '
        '(utilities/abstract_excel_in_python_class.py) and the class obtained from Context.__class_template '
        '(string constant, instantiated with sentinel holes) are compared member by member as syntax trees after '
        'normalisation (annotations, docstrings, comments dropped; AnnAssign->Assign; local variables alpha-renamed in '
        'binding order; decorators as sets). Equal trees under equal import bindings compute equal results for every '
        'argument. R1 same member sets, R2 same trees per member, R3 same import bindings for every free name.'),
    'rule': 'one obligation per runtime member per rule; non-trivial = member present in both copies with a body to compare',
    'trusted': ['str.format instantiation of the template constant with sentinel names is faithful to Context.build_class '
                '(checked by C06.R6: the holes are exactly titles/sheets_size/functions)'],
}

BUILTINS = set(dir(builtins))


def _hole_ok(a, b):
    """base literal vs template hole in __init__: {} / [] against {titles} / {sheets_size}."""
    if isinstance(b, ast.Name) and b.id.startswith('__HOLE_'):
        return (isinstance(a, ast.Dict) and not a.keys) or (isinstance(a, ast.List) and not a.elts)
    return False


def _diff(a, b, path=''):
    if _hole_ok(a, b):
        return None
    if type(a) is not type(b):
        return (path, a, b)
    if isinstance(a, ast.AST):
        for fld in a._fields:
            if fld in ('ctx', 'type_comment', 'kind'):
                continue
            r = _diff(getattr(a, fld, None), getattr(b, fld, None), f'{path}.{fld}')
            if r:
                # report the smallest enclosing AST nodes
                if not isinstance(r[1], ast.AST) and not isinstance(r[2], ast.AST):
                    return (r[0], a, b)
                return r
        return None
    if isinstance(a, list):
        for i, (x, y) in enumerate(zip(a, b)):
            r = _diff(x, y, f'{path}[{i}]')
            if r:
                return r
        if len(a) != len(b):
            n = min(len(a), len(b))
            return (f'{path}[{n}]', a[n] if len(a) > n else None, b[n] if len(b) > n else None)
        return None
    return None if a == b else (path, a, b)


def _deco(fn):
    out = set()
    for d in fn.decorator_list:
        out.add(ast.unparse(d))
    return out


def _free_names(fn: ast.FunctionDef):
    order, params = local_names(fn)
    bound = set(order) | params
    out = set()
    for n in ast.walk(fn):
        if isinstance(n, ast.Name) and isinstance(n.ctx, ast.Load) and n.id not in bound and n.id not in BUILTINS:
            out.add(n.id)
    # annotations do not count
    ann = set()
    for a in ast.walk(fn):
        if isinstance(a, ast.arg) and a.annotation is not None:
            ann.update(x.id for x in ast.walk(a.annotation) if isinstance(x, ast.Name))
        if isinstance(a, ast.AnnAssign):
            ann.update(x.id for x in ast.walk(a.annotation) if isinstance(x, ast.Name))
    if fn.returns is not None:
        ann.update(x.id for x in ast.walk(fn.returns) if isinstance(x, ast.Name))
    body_names = set()
    f2 = normalize_function(fn)
    for n in ast.walk(f2):
        if isinstance(n, ast.Name) and isinstance(n.ctx, ast.Load):
            body_names.add(n.id)
    return {n for n in out if n in body_names}


def run(run: Run):
    src = get_source()
    rt = get_runtime(src)
    base, tmpl = rt.base, rt.template
    run.rule('C20.R1', 'the base class and the template class expose the same members (methods and nested classes)')
    run.rule('C20.R2', 'each shared member has the same normalised syntax tree in both copies')
    run.rule('C20.R3', 'every free name a member uses is bound to the same import in both modules')

    # R1 ---------------------------------------------------------------------------------------
    names_b = set(base.members) | set(base.nested)
    names_t = set(tmpl.members) | set(tmpl.nested)
    for n in sorted(names_b | names_t):
        inb, int_ = n in names_b, n in names_t
        if inb and int_:
            run.ok('C20.R1', n, 'present in both copies', nontrivial=False)
        else:
            where = base if inb else tmpl
            node = (where.members.get(n) or where.nested.get(n))
            run.bad('C20.R1', n, 'missing-in-' + ('template' if inb else 'base'),
                    f'member {n} exists only in the {"base class" if inb else "class template"}',
                    loc=where.loc(node))
    # nested classes: same bases and same non-function body
    for n in sorted(set(base.nested) & set(tmpl.nested)):
        cb, ct = base.nested[n], tmpl.nested[n]
        same = [ast.dump(x) for x in cb.bases] == [ast.dump(x) for x in ct.bases]
        rest_b = [ast.dump(s) for s in _strip_doc(cb.body) if not isinstance(s, (ast.FunctionDef, ast.ClassDef))]
        rest_t = [ast.dump(s) for s in _strip_doc(ct.body) if not isinstance(s, (ast.FunctionDef, ast.ClassDef))]
        run.check(same and rest_b == rest_t, 'C20.R2', f'class {n}', 'class-header',
                  f'nested class {n} has different bases or class-level statements in the two copies',
                  fact='same bases and class-level statements', loc=tmpl.loc(ct))

    # R2 ---------------------------------------------------------------------------------------
    for n in sorted(set(base.members) & set(tmpl.members)):
        fb, ft = base.members[n], tmpl.members[n]
        nb, nt = normalize_function(fb), normalize_function(ft)
        d = _diff(nb, nt)
        nontrivial = len(ft.body) > 1 or not isinstance(ft.body[0], (ast.Pass, ast.Return))
        if d is None and _deco(fb) == _deco(ft):
            run.ok('C20.R2', n, 'normalised trees equal', nontrivial=True, loc=tmpl.loc(ft))
        elif d is None:
            run.bad('C20.R2', n, 'decorators', f'decorators differ: base {sorted(_deco(fb))} vs template {sorted(_deco(ft))}',
                    loc=tmpl.loc(ft))
        else:
            path, xa, xb = d
            la = base.loc(xa) if isinstance(xa, ast.AST) and hasattr(xa, 'lineno') else base.loc(fb)
            lb = tmpl.loc(xb) if isinstance(xb, ast.AST) and hasattr(xb, 'lineno') else tmpl.loc(ft)
            run.bad('C20.R2', n, 'tree-differs',
                    f'the two copies of {n} differ at {path}: base `{show(xa)}` ({la}) vs template `{show(xb)}` ({lb})',
                    loc=lb, facts={'base': show(xa), 'template': show(xb), 'path': path})

    # R3 ---------------------------------------------------------------------------------------
    for n in sorted(set(base.members) & set(tmpl.members)):
        fb, ft = base.members[n], tmpl.members[n]
        free = _free_names(fb) | _free_names(ft)
        free -= {'self', 'cls'}
        if not free:
            continue
        for name in sorted(free):
            ib, it = base.imports.get(name), tmpl.imports.get(name)
            if ib is None and it is None:
                # not an import in either module (class-level name or undefined in both): nothing to compare
                run.note(f'C20.R3 {n}: free name {name} is not an import in either copy')
                continue
            run.check(ib == it, 'C20.R3', f'{n}/{name}', 'binding-differs',
                      f'free name {name} used by {n} is bound to {ib} in the base module and {it} in the template',
                      fact=f'{name} -> {it}', loc=tmpl.loc(ft))
    run.floor('C20.R1', 40)
    run.floor('C20.R2', 40)
    run.floor('C20.R3', 20)
    return INFO
