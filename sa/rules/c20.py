"""C20 -- the importable runtime base class and the emitted runtime agree (DESIGN 3/C20)."""
from __future__ import annotations

import ast
import builtins

from ..core import Run, AnalysisError
from ..source import get_source
from ..runtime import get_runtime, normalize_function, first_difference, show, local_names, _strip_doc

INFO = {
    'explanation': (
        'Decides C20 in the sufficient direction: the importable base class (utilities/abstract_excel_in_python_class.py) and the '
        'class obtained from Context.__class_template (string constant, instantiated with sentinel holes) are compared member by '
        'member as syntax trees in a canonical form (sa/canon.py: annotations, docstrings dropped; locals, nested functions and '
        'parameters never passed by keyword alpha-renamed; guard clauses nested; negation normal form, fixed polarity of two-armed '
        'choices; return-if folding; no-op pass / continue / return dropped; iterated list displays as tuples; class-level constants '
        'inlined; class patterns as isinstance chains; private one-copy helpers inlined into their callers). Equal canonical trees '
        'under equal import bindings compute equal results for every argument. A residual difference is classified by its edit '
        'script: a local patch (at most 4 edits, each a changed name / constant / operator, an operation applied in one copy only, or '
        'statements / arguments present in one copy only) is a violation; a re-spelling (structural differences, or statements '
        'exchanged for other statements) is UNDECIDED: not covered, listed under undecided_members. R1 same member sets, R2 same '
        'canonical trees per member, R3 same import bindings for every free name.'),
    'rule': 'one obligation per runtime member per rule; non-trivial = member present in both copies with a body to compare',
    'trusted': ['str.format instantiation of the template constant with sentinel names is faithful to Context.build_class '
                '(checked by C06.R6: the holes are exactly titles/sheets_size/functions)'],
}

BUILTINS = set(dir(builtins))


def _hole_ok(a, b):
    """base literal vs template hole in __init__: {} / [] against {titles} / {sheets_size}."""
    if isinstance(b, ast.Name) and b.id.startswith('__HOLE_'):
        return (isinstance(a, ast.Dict) and not a.keys) or (isinstance(a, ast.List) and not a.elts)
    return False


def _diff(a, b, path=''):
    if _hole_ok(a, b):
        return None
    if type(a) is not type(b):
        return (path, a, b)
    if isinstance(a, ast.AST):
        for fld in a._fields:
            if fld in ('ctx', 'type_comment', 'kind'):
                continue
            r = _diff(getattr(a, fld, None), getattr(b, fld, None), f'{path}.{fld}')
            if r:
                # report the smallest enclosing AST nodes
                if not isinstance(r[1], ast.AST) and not isinstance(r[2], ast.AST):
                    return (r[0], a, b)
                return r
        return None
    if isinstance(a, list):
        for i, (x, y) in enumerate(zip(a, b)):
            r = _diff(x, y, f'{path}[{i}]')
            if r:
                return r
        if len(a) != len(b):
            n = min(len(a), len(b))
            return (f'{path}[{n}]', a[n] if len(a) > n else None, b[n] if len(b) > n else None)
        return None
    return None if a == b else (path, a, b)


def _deco(fn):
    out = set()
    for d in fn.decorator_list:
        out.add(ast.unparse(d))
    return out


def _free_names(fn: ast.FunctionDef):
    order, params = local_names(fn)
    bound = set(order) | params
    out = set()
    for n in ast.walk(fn):
        if isinstance(n, ast.Name) and isinstance(n.ctx, ast.Load) and n.id not in bound and n.id not in BUILTINS:
            out.add(n.id)
    # annotations do not count
    ann = set()
    for a in ast.walk(fn):
        if isinstance(a, ast.arg) and a.annotation is not None:
            ann.update(x.id for x in ast.walk(a.annotation) if isinstance(x, ast.Name))
        if isinstance(a, ast.AnnAssign):
            ann.update(x.id for x in ast.walk(a.annotation) if isinstance(x, ast.Name))
    if fn.returns is not None:
        ann.update(x.id for x in ast.walk(fn.returns) if isinstance(x, ast.Name))
    body_names = set()
    f2 = normalize_function(fn)
    for n in ast.walk(f2):
        if isinstance(n, ast.Name) and isinstance(n.ctx, ast.Load):
            body_names.add(n.id)
    return {n for n in out if n in body_names}


def _emitted_helper_names(src) -> set:
    """names N for which some translator emits `self.N(`"""
    import re
    out = set()
    for m in src.modules.values():
        for n in ast.walk(m.tree):
            if isinstance(n, ast.Constant) and isinstance(n.value, str) and len(n.value) < 4000:
                out.update(re.findall(r'self\.(\w+)\(', n.value))
    return out


def _keyword_names(src, rt) -> dict:
    """member name -> parameter names that some call of that member passes by keyword (in the runtime copies or in emitted code)"""
    import re
    out = {}
    for cp in rt.copies():
        for fn in cp.members.values():
            for n in ast.walk(fn):
                if isinstance(n, ast.Call) and isinstance(n.func, ast.Attribute) and n.keywords:
                    out.setdefault(n.func.attr, set()).update(k.arg for k in n.keywords if k.arg)
    for m in src.modules.values():
        for n in ast.walk(m.tree):
            txt = None
            if isinstance(n, ast.Constant) and isinstance(n.value, str) and len(n.value) < 4000:
                txt = n.value
            elif isinstance(n, ast.JoinedStr):
                txt = ''.join(v.value if isinstance(v, ast.Constant) else '_' for v in n.values)
            if txt and 'self.' in txt:
                names = re.findall(r'self\.(\w+)\(', txt)
                kws = set(re.findall(r'(\w+)=(?!=)', txt))
                for nm in names:
                    out.setdefault(nm, set()).update(kws)
    return out


def r4_same_obligations(run: Run, rt):
    import re
    from . import c04, c10, c11, c12, c13, c14, c15, c16, c17
    fns = [c04.r2, c10.r1_r4, c11.r1_r3_r5, c11.r2, c11.r9_flatten, c12.helpers, c12.r7, c13.r4, c14.r5, c14.r6, c14.r7, c14.r7_eval_all,
           c14.r10, c15.r2, c15.r3, c15.r4, c15.r5, c15.r6, c15.r7, c16.r1_r2_r5, c17.r1, c17.r3_r4, c17.r7]
    lab = re.compile(r'\[(base|template)\]')
    verdicts = {}          # (rule, construct with the label erased, sub) -> {label: verdict}
    for fn in fns:
        sub = Run('tmp', run.tier, run.seed, quiet=True)
        try:
            fn(sub, rt)
        except AnalysisError as e:
            run.note(f'C20.R4: {fn.__module__.split(".")[-1]}.{fn.__name__} gave up ({e.reason[:80]}); its obligations are not compared')
        except Exception as e:
            run.note(f'C20.R4: {fn.__module__.split(".")[-1]}.{fn.__name__} failed ({type(e).__name__}); its obligations are not compared')
            continue
        for o in sub.obligations:
            m = lab.search(o['construct'])
            if m:
                verdicts.setdefault((o['rule'], lab.sub('[*]', o['construct']), ''), {})[m.group(1)] = o['verdict']
        for f in sub.findings:
            m = lab.search(f['construct'])
            if m:
                verdicts.setdefault((f['rule'], lab.sub('[*]', f['construct']), ''), {})[m.group(1)] = 'fails: ' + f['sub']
    for (rule, construct, _), by in sorted(verdicts.items()):
        if set(by) != {'base', 'template'}:
            # an obligation that exists for one copy only (the helper is shaped differently there): nothing to compare
            continue
        same = by['base'] == by['template'] or (by['base'].startswith('fails') and by['template'].startswith('fails'))
        run.check(same, 'C20.R4', f'{rule} {construct}', 'copies-disagree',
                  f'the obligation {rule} {construct} comes out as "{by["base"]}" for the base class and "{by["template"]}" for the '
                  f'class template: the two copies do not compute the same thing', fact=by['template'], loc=rt.template.path)


MAX_UNDECIDED = 6
MAX_LOCAL_EDITS = 4


PROBE_POOL = None


def _pool():
    from ..finite import AV, const_av
    vals = ['abc', 'Hello World', '', 1, 0, 2, 3, -1, 10, 0.5, 2.5, None, True, False, '#N/A', '12', 'x']
    out = [const_av(v) for v in vals]
    out.append(AV('blank', sign='zero'))
    out.append(const_av([1, 2, 3]))
    out.append(const_av([[1, 2], [3, 4]]))
    out.append(const_av([]))
    out.append(AV('list', items=(const_av('#N/A'), const_av(''), const_av(1), AV('blank', sign='zero'))))
    out.append(const_av([0, '', None, '#DIV/0!']))
    return out


def _differential(base, tmpl, name: str):
    """None (cannot be evaluated), ('differs', arguments, base answer, template answer, comparable) or ('alike', comparable)"""
    import itertools
    import random
    from ..finite import evaluator_for, Unknown, AbsRaise
    fb, ft = base.members.get(name), tmpl.members.get(name)
    if fb is None or ft is None or '.' in name:
        return None
    pb = [a.arg for a in fb.args.posonlyargs + fb.args.args if a.arg not in ('self', 'cls')]
    pt = [a.arg for a in ft.args.posonlyargs + ft.args.args if a.arg not in ('self', 'cls')]
    if len(pb) != len(pt) or fb.args.vararg or ft.args.vararg or len(pb) > 4 or not pb:
        return None
    pool = _pool()
    combos = list(itertools.product(range(len(pool)), repeat=len(pb)))
    if len(combos) > 1500:
        random.Random(20).shuffle(combos)
        combos = combos[:1500]

    def answer(cp, args):
        ev = evaluator_for(cp, max_depth=6)
        try:
            r = ev.call_method(name, list(args))
        except Unknown:
            return None
        except AbsRaise as e:
            return ('raises', e.exc)
        except RecursionError:
            return None
        return ('value', _plain_av(ev, r))
    comparable = 0
    for idx in combos:
        args = [pool[i] for i in idx]
        a = answer(base, args)
        if a is None:
            continue
        b = answer(tmpl, args)
        if b is None:
            continue
        comparable += 1
        if a != b:
            return ('differs', ', '.join(_show_av(x) for x in args), _show_answer(a), _show_answer(b), comparable)
    if comparable < 10:
        return None
    return ('alike', comparable)


def _plain_av(ev, v):
    v = ev.unbox(v)
    if v.kind == 'none':
        return None
    if v.kind == 'blank':
        return '<blank>'
    if v.items is not None:
        return (v.kind,) + tuple(_plain_av(ev, x) for x in v.items)
    if v.val is not None and not isinstance(v.val, tuple):
        return (type(v.val).__name__, v.val)
    return repr(v)


def _show_av(v):
    if v.kind == 'blank':
        return 'blank'
    if v.kind == 'none':
        return 'None'
    if v.items is not None:
        return '[' + ', '.join(_show_av(x) for x in v.items) + ']'
    return repr(v.val)


def _show_answer(a):
    return f'raises {a[1]}' if a[0] == 'raises' else repr(a[1][1] if isinstance(a[1], tuple) and len(a[1]) == 2 and isinstance(a[1][0], str) and a[1][0] in ('int', 'float', 'str', 'bool') else a[1])


def run(run: Run):
    from .common import cached_guard as _cached_guard
    from ..canon import canonical, copy_context, edit_script
    from ..inline import inline_methods, members_resolver
    src = get_source()
    rt = get_runtime(src)
    base, tmpl = rt.base, rt.template
    run.rule('C20.R1', 'the base class and the template class expose the same members (methods and nested classes)')
    run.rule('C20.R2', 'each shared member has the same canonical syntax tree in both copies')
    run.rule('C20.R3', 'every free name a member uses is bound to the same import in both modules')

    emitted = _emitted_helper_names(src)
    kwnames = _keyword_names(src, rt)

    # helpers that exist in one copy only, are private and are not called by emitted code are a local way of writing their
    # callers: they are inlined into the callers before the comparison
    members = {}
    for cp, other in ((base, tmpl), (tmpl, base)):
        only = {n for n in cp.members if n not in other.members and n.startswith('_') and not n.startswith('__') and
                '.' not in n and n not in emitted}
        ms = dict(cp.members)
        if only:
            sub = {n: ms[n] for n in only}
            res = members_resolver(sub)
            for n in list(ms):
                if n in only:
                    continue
                if any(isinstance(c, ast.Call) and isinstance(c.func, ast.Attribute) and c.func.attr in only for c in ast.walk(ms[n])):
                    ms[n] = inline_methods(ms[n], res, depth=3)
            still = {n for n in only if any(isinstance(c, ast.Attribute) and c.attr == n for m2, f2 in ms.items() if m2 not in only
                                            for c in ast.walk(f2))}
            for n in only - still:
                run.note(f'C20.R1 {n}: private helper of the {cp.label} copy only, inlined into its callers')
                ms.pop(n)
        members[cp.label] = ms
    mb, mt = members['base'], members['template']

    # R1 ---------------------------------------------------------------------------------------
    names_b = set(mb) | set(base.nested)
    names_t = set(mt) | set(tmpl.nested)
    for n in sorted(names_b | names_t):
        inb, int_ = n in names_b, n in names_t
        if inb and int_:
            run.ok('C20.R1', n, 'present in both copies', nontrivial=False)
        else:
            where = base if inb else tmpl
            node = (where.members.get(n) or where.nested.get(n))
            run.bad('C20.R1', n, 'missing-in-' + ('template' if inb else 'base'),
                    f'member {n} exists only in the {"base class" if inb else "class template"}',
                    loc=where.loc(node))
    # nested classes: same bases and same non-function body
    for n in sorted(set(base.nested) & set(tmpl.nested)):
        cb, ct = base.nested[n], tmpl.nested[n]
        same = [ast.dump(x) for x in cb.bases] == [ast.dump(x) for x in ct.bases]
        rest_b = [ast.dump(s) for s in _strip_doc(cb.body) if not isinstance(s, (ast.FunctionDef, ast.ClassDef))]
        rest_t = [ast.dump(s) for s in _strip_doc(ct.body) if not isinstance(s, (ast.FunctionDef, ast.ClassDef))]
        run.check(same and rest_b == rest_t, 'C20.R2', f'class {n}', 'class-header',
                  f'nested class {n} has different bases or class-level statements in the two copies',
                  fact='same bases and class-level statements', loc=tmpl.loc(ct))

    # R2 ---------------------------------------------------------------------------------------
    ctx_b, ctx_t = copy_context(base), copy_context(tmpl)
    undecided = []
    for n in sorted(set(mb) & set(mt)):
        fb, ft = mb[n], mt[n]
        # quick path: the trees are equal after plain normalisation
        d0 = _diff(normalize_function(fb), normalize_function(ft))
        if d0 is None:
            if _deco(fb) == _deco(ft):
                run.ok('C20.R2', n, 'normalised trees equal', nontrivial=True, loc=tmpl.loc(ft))
            else:
                run.bad('C20.R2', n, 'decorators', f'decorators differ: base {sorted(_deco(fb))} vs template {sorted(_deco(ft))}',
                        loc=tmpl.loc(ft))
            continue
        kws = kwnames.get(n.rsplit('.', 1)[-1], set())
        cb, ct = canonical(fb, ctx_b, kws), canonical(ft, ctx_t, kws)
        # holes of the template stand for the empty literals of the base
        es = [e for e in edit_script(cb, ct) if not (isinstance(e[2], ast.AST) and isinstance(e[3], ast.AST) and _hole_ok(e[2], e[3]))]
        if not es:
            if _deco(fb) == _deco(ft):
                run.ok('C20.R2', n, 'canonical trees equal (the copies are spelled differently)', nontrivial=True, loc=tmpl.loc(ft))
            else:
                run.bad('C20.R2', n, 'decorators', f'decorators differ: base {sorted(_deco(fb))} vs template {sorted(_deco(ft))}',
                        loc=tmpl.loc(ft))
            continue
        local = all(k in ('atom', 'wrap', 'insert') for k, *_ in es) and len(es) <= MAX_LOCAL_EDITS
        # statements present only in the base together with statements present only in the template are a replacement (one
        # way of writing exchanged for another), not a local patch
        ins = [e for e in es if e[0] == 'insert']
        if any(e[2] is None for e in ins) and any(e[3] is None for e in ins):
            local = False
        if local:
            for k, path, xa, xb in es:
                la = base.loc(xa) if isinstance(xa, ast.AST) and hasattr(xa, 'lineno') else base.loc(fb)
                lb = tmpl.loc(xb) if isinstance(xb, ast.AST) and hasattr(xb, 'lineno') else tmpl.loc(ft)
                what = {'atom': 'differ in a name, constant or operator', 'wrap': 'differ: one copy applies an operation the other does '
                        'not', 'insert': 'differ: one copy has a statement / clause the other lacks'}[k]
                run.bad('C20.R2', n, 'tree-differs',
                        f'the two copies of {n} {what} at {path}: base `{show(xa)}` ({la}) vs template `{show(xb)}` ({lb})',
                        loc=lb, facts={'base': show(xa), 'template': show(xb), 'path': path, 'kind': k})
        else:
            k, path, xa, xb = next((e for e in es if e[0] == 'structural'), es[0])
            undecided.append(n)
            run.note(f'C20.R2 UNDECIDED {n}: the two copies are written differently ({len(es)} differences, first structural one at '
                     f'{path}: base `{show(xa)[:80]}` vs template `{show(xb)[:80]}`); their agreement is neither established nor refuted '
                     f'by tree comparison')
    # members written differently: both bodies are evaluated (engine F) on the same probe arguments; a probe on which the two
    # copies answer differently is a witness that they disagree
    still = []
    for n in undecided:
        w = _differential(base, tmpl, n)
        if w is None:
            still.append(n)
            continue
        if w[0] == 'differs':
            _, args_txt, rb_, rt_, n_ok = w
            run.bad('C20.R2', n, 'answers-differ',
                    f'the two copies of {n} are written differently and answer differently: {n}({args_txt}) gives {rb_} in the importable '
                    f'base class and {rt_} in the emitted runtime', loc=tmpl.loc(mt[n]), facts={'arguments': args_txt, 'base': rb_, 'template': rt_})
        else:
            run.note(f'C20.R2 {n}: written differently; the two bodies answer alike on {w[1]} probe argument lists (agreement on all '
                     f'arguments is not established)')
            still.append(n)
    undecided = still
    if undecided:
        print(f'UNDECIDED: property=C20 members={",".join(undecided)} (the copies are spelled differently beyond the canonical form; '
              f'agreement of these members is not covered by this run)')
        run.extra['undecided_members'] = undecided
    if len(undecided) > MAX_UNDECIDED:
        raise AnalysisError('C20.R2', f'{len(undecided)} members are written differently in the two copies beyond what the canonical '
                                      f'form covers: the comparison no longer decides the property')

    # R3 ---------------------------------------------------------------------------------------
    for n in sorted(set(mb) & set(mt)):
        fb, ft = mb[n], mt[n]
        free = _free_names(fb) | _free_names(ft)
        free -= {'self', 'cls'}
        if not free:
            continue
        for name in sorted(free):
            ib, it = base.imports.get(name), tmpl.imports.get(name)
            if ib is None and it is None:
                # not an import in either module (class-level name or undefined in both): nothing to compare
                run.note(f'C20.R3 {n}: free name {name} is not an import in either copy')
                continue
            run.check(ib == it, 'C20.R3', f'{n}/{name}', 'binding-differs',
                      f'free name {name} used by {n} is bound to {ib} in the base module and {it} in the template',
                      fact=f'{name} -> {it}', loc=tmpl.loc(ft))
    # R4 ---------------------------------------------------------------------------------------
    # the obligations the other properties evaluate on each copy separately (scan answers, coercion ladders, date arithmetic,
    # text slicing, ...) must come out the same for both copies: this also covers members whose spellings differ (UNDECIDED above)
    run.rule('C20.R4', 'both copies meet (or miss) the same per-copy obligations of the other properties')
    _cached_guard(run, 'C20.R4', r4_same_obligations, rt)
    run.floor('C20.R4', 150)
    run.floor('C20.R1', 40)
    run.floor('C20.R2', 40)
    run.floor('C20.R3', 20)
    return INFO
