"""C17 -- text functions (DESIGN 3/C17).

SEARCH's wildcard semantics and VALUE's parsing ladder are NOT decided.  Decided: the slice algebra of LEFT/RIGHT/MID over
the arrangement of (count, start, length) orderings (R1), order and text form of & / CONCATENATE (R2), case-insensitivity,
1-based positions and whole-text provenance of SEARCH (R3), user text reaching a regex unescaped (R4), plumbing (R5), a text
literal denotes its own text (R6), the first rungs and the fallback of VALUE (R7).
"""
from __future__ import annotations

import ast

from ..core import Run, AnalysisError, loc_of
from ..source import get_source
from ..grammar import get_grammar
from ..emission import get_emission
from ..runtime import get_runtime
from ..finite import Evaluator, AV, Unknown, AbsRaise, const_av
from ..paths import parent_map, path_conditions
from ..symeval import Code, Part, GroupStr
from .common import check_plumbing

INFO = {
    'explanation': (
        'Decided: R1 slice algebra -- _left/_right/_mid (both copies) are interpreted on index lists over the box length 0..4 x '
        'count None,-2..6 x start -1..6, which inhabits every cell of the arrangement of the comparisons and affine slice bounds the '
        'helpers use (coefficients are +-1, constants within +-2); on every point the returned index set must be LEFT [0,n), RIGHT '
        '[L-n,L), MID [k-1,k-1+n) clipped to the text, an error value exactly for a negative count or k<1, one character for an '
        'omitted count (Python\'s wrap-around of negative indices is modelled). R2 & prints str(L)+str(R) in order (C01.R1), '
        'CONCATENATE joins every argument in order through one text-form helper; both routes must use the same text form; a blank '
        'joins as empty text; the serial-number epoch is 1899-12-30. R3 SEARCH: every path that computes a position compares '
        'case-normalised operands (re.I or lower() on both sides), searches the whole text (or re-adds the offset), returns '
        '0-based position + 1, converts the start with -1 / skips matches with position < start, and answers #VALUE! when nothing '
        'is found. R4 the text to find reaches re.* without re.escape (known finding). R5 plumbing of LEFT/RIGHT/MID/SEARCH/VALUE/'
        'CONCATENATE. R6 a text literal in operand position is printed as the repr of its quoted body and nothing else. R7 VALUE: '
        'integer text -> int, decimal text -> float, final fallback is an error value. NOT decided: SEARCH\'s wildcard semantics, '
        'VALUE\'s date/time/percent ladder.'),
    'rule': 'one obligation per (helper, copy, region of the (L, n, k) arrangement) / search path / plumbing form',
    'trusted': ['Python slice and index semantics on sequences', 'str.find, re.finditer/search with re.I'],
}

FUNCS = ['LEFT', 'RIGHT', 'MID', 'SEARCH', 'VALUE', 'CONCATENATE']
ERR = 'ERR'


class Unmodelled(Exception):
    pass


# ---------------------------------------------------------------------------------------------------
# R1: interpretation of the slicing helpers on index lists
# ---------------------------------------------------------------------------------------------------
class _Text:
    def __init__(self, idx):
        self.idx = list(idx)


class _Blank:
    pass


class _Raise(Exception):
    def __init__(self, exc):
        self.exc = exc


class _Return(Exception):
    def __init__(self, v):
        self.v = v


def _run_helper(fn, env, members=None, depth=0):
    def ev(e):
        if isinstance(e, ast.Constant):
            return e.value
        if isinstance(e, ast.Name):
            if e.id in env:
                return env[e.id]
            raise Unmodelled(f'name {e.id}')
        if isinstance(e, ast.UnaryOp):
            v = ev(e.operand)
            if isinstance(e.op, ast.Not):
                return not truthy(v)
            if isinstance(e.op, ast.USub) and isinstance(v, int):
                return -v
            raise Unmodelled('unary')
        if isinstance(e, ast.BoolOp):
            r = None
            for x in e.values:
                r = ev(x)
                if isinstance(e.op, ast.And) and not truthy(r):
                    return r
                if isinstance(e.op, ast.Or) and truthy(r):
                    return r
            return r
        if isinstance(e, ast.BinOp) and isinstance(e.op, (ast.Add, ast.Sub)):
            a, b = ev(e.left), ev(e.right)
            if isinstance(a, int) and isinstance(b, int) and not isinstance(a, bool) and not isinstance(b, bool):
                return a + b if isinstance(e.op, ast.Add) else a - b
            if a is None or b is None:
                raise _Raise('TypeError')
            raise Unmodelled('arithmetic on non-integers')
        if isinstance(e, ast.Compare):
            left = ev(e.left)
            for op, rn in zip(e.ops, e.comparators):
                right = ev(rn)
                if isinstance(op, (ast.Is, ast.IsNot)):
                    r = (left is None and right is None) if (left is None or right is None) else None
                    if r is None:
                        raise Unmodelled('identity')
                    r = r if isinstance(op, ast.Is) else not r
                elif isinstance(op, (ast.Eq, ast.NotEq)):
                    if isinstance(left, _Text) or isinstance(right, _Text):
                        # text == '' : emptiness
                        other = right if isinstance(left, _Text) else left
                        t = left if isinstance(left, _Text) else right
                        if other == '':
                            r = not t.idx
                        else:
                            raise Unmodelled('text comparison')
                    else:
                        r = left == right
                    r = r if isinstance(op, ast.Eq) else not r
                else:
                    if left is None or right is None:
                        raise _Raise('TypeError')
                    if not (isinstance(left, int) and isinstance(right, int)):
                        raise Unmodelled('ordering of non-integers')
                    r = {ast.Lt: left < right, ast.LtE: left <= right, ast.Gt: left > right, ast.GtE: left >= right}[type(op)]
                if not r:
                    return False
                left = right
            return True
        if isinstance(e, ast.Call):
            f = ast.unparse(e.func)
            if f == 'len' and len(e.args) == 1:
                v = ev(e.args[0])
                if isinstance(v, _Text):
                    return len(v.idx)
                raise Unmodelled('len of a non-text')
            if f in ('self.EmptyCell', 'cls.EmptyCell') and not e.args:
                return _Blank()
            if f in ('int', 'trunc', 'math.trunc') and len(e.args) == 1:
                v = ev(e.args[0])
                if isinstance(v, int):
                    return v
            if f in ('max', 'min') and len(e.args) == 2:
                a, b = ev(e.args[0]), ev(e.args[1])
                if isinstance(a, int) and isinstance(b, int):
                    return max(a, b) if f == 'max' else min(a, b)
            if f == 'str' and len(e.args) == 1:
                v = ev(e.args[0])
                if isinstance(v, _Text):
                    return v
            if f == 'bool' and len(e.args) == 1:
                return truthy(ev(e.args[0]))
            # a helper of the same class: interpreted with the arguments bound
            if isinstance(e.func, ast.Attribute) and isinstance(e.func.value, ast.Name) and e.func.value.id in ('self', 'cls') and \
                    members is not None and isinstance(members.get(e.func.attr), ast.FunctionDef) and depth < 3:
                callee = members[e.func.attr]
                static = any(isinstance(d, ast.Name) and d.id == 'staticmethod' for d in callee.decorator_list)
                ps_ = [a.arg for a in callee.args.args]
                if not static:
                    ps_ = ps_[1:]
                env2 = {'self': env.get('self'), 'cls': env.get('self')}
                vals = [ev(a) for a in e.args]
                if len(vals) > len(ps_) or callee.args.vararg or callee.args.kwarg:
                    raise Unmodelled(f'call {f}')
                for p_, v_ in zip(ps_, vals):
                    env2[p_] = v_
                for kw in e.keywords:
                    if kw.arg not in ps_:
                        raise Unmodelled(f'call {f}')
                    env2[kw.arg] = ev(kw.value)
                dflt = callee.args.defaults
                for i_, p_ in enumerate(ps_):
                    if p_ not in env2:
                        di = i_ - (len(ps_) - len(dflt))
                        if di < 0 or not isinstance(dflt[di], ast.Constant):
                            raise Unmodelled(f'call {f}: missing argument {p_}')
                        env2[p_] = dflt[di].value
                r = _run_helper(callee, env2, members, depth + 1)
                if r == ERR:
                    return '#ERR'
                if isinstance(r, tuple) and r and r[0] == 'raises':
                    raise _Raise(r[1])
                if isinstance(r, list):
                    return _Text(r) if r or True else _Blank()
                return r
            raise Unmodelled(f'call {f}')
        if isinstance(e, ast.Subscript):
            base = ev(e.value)
            if not isinstance(base, _Text):
                raise Unmodelled('subscript of a non-text')
            if isinstance(e.slice, ast.Slice):
                lo = ev(e.slice.lower) if e.slice.lower is not None else None
                hi = ev(e.slice.upper) if e.slice.upper is not None else None
                if e.slice.step is not None:
                    raise Unmodelled('slice step')
                for b in (lo, hi):
                    if b is not None and not isinstance(b, int):
                        raise Unmodelled('slice bound')
                return _Text(base.idx[lo:hi])          # Python's own slice semantics on the index list
            i = ev(e.slice)
            if not isinstance(i, int):
                raise _Raise('TypeError')
            try:
                return _Text([base.idx[i]])
            except IndexError:
                raise _Raise('IndexError')
        if isinstance(e, ast.IfExp):
            return ev(e.body) if truthy(ev(e.test)) else ev(e.orelse)
        raise Unmodelled(f'expression {type(e).__name__}')

    def truthy(v):
        if isinstance(v, _Text):
            return bool(v.idx)
        if isinstance(v, _Blank):
            return False
        return bool(v)

    def block(stmts):
        for st in stmts:
            if isinstance(st, ast.Return):
                raise _Return(ev(st.value) if st.value is not None else None)
            elif isinstance(st, ast.If):
                block(st.body if truthy(ev(st.test)) else st.orelse)
            elif isinstance(st, ast.Assign) and len(st.targets) == 1 and isinstance(st.targets[0], ast.Name):
                env[st.targets[0].id] = ev(st.value)
            elif isinstance(st, ast.Expr) and isinstance(st.value, ast.Constant):
                pass
            elif isinstance(st, ast.Raise):
                raise _Raise('explicit')
            else:
                raise Unmodelled(f'statement {type(st).__name__}')
    try:
        block(fn.body)
    except _Return as r:
        v = r.v
        if isinstance(v, _Text):
            return v.idx
        if isinstance(v, _Blank):
            return []
        if isinstance(v, str) and v.startswith('#'):
            return ERR
        if v == '':
            return []
        raise Unmodelled(f'return value {v!r}')
    except _Raise as r:
        return ('raises', r.exc)
    return ('raises', 'falls off the end (None)')


def _spec(kind, L, n, k):
    idx = list(range(L))
    if kind == 'left':
        n = 1 if n is None else n
        return ERR if n < 0 else idx[:n]
    if kind == 'right':
        n = 1 if n is None else n
        return ERR if n < 0 else idx[max(L - n, 0):]
    if k < 1 or n < 0:
        return ERR
    return idx[k - 1:k - 1 + n]


def _region(kind, L, n, k):
    t = 'empty text' if L == 0 else 'text'
    if n is None:
        c = 'count omitted'
    else:
        c = 'count<0' if n < 0 else 'count=0' if n == 0 else 'count<length' if n < L else 'count=length' if n == L else 'count>length'
    if kind != 'mid':
        return f'{t}, {c}'
    s = 'start<1' if k < 1 else 'start within' if k <= L else 'start beyond the end'
    return f'{t}, {s}, {c}'


def r1(run: Run, rt):
    for cp in rt.copies():
        for h, kind in (('_left', 'left'), ('_right', 'right'), ('_mid', 'mid')):
            fn = cp.members.get(h)
            if fn is None:
                run.bad('C17.R1', f'{h}[{cp.label}]', 'missing', f'helper {h} is missing', loc=cp.path)
                continue
            ps = [a.arg for a in fn.args.args if a.arg not in ('self', 'cls')]
            want_n = 2 if kind != 'mid' else 3
            if len(ps) != want_n:
                raise AnalysisError('C17.R1', f'{h}: unexpected signature {ps}')
            regions = {}
            counts = [None] + list(range(-2, 7)) if kind != 'mid' else list(range(-2, 7))
            starts = [None] if kind != 'mid' else list(range(-1, 7))
            npoints = 0
            for L in range(0, 5):
                for n in counts:
                    for k in starts:
                        env = {'self': object(), ps[0]: _Text(range(L))}
                        if kind == 'mid':
                            env[ps[1]], env[ps[2]] = k, n
                        else:
                            env[ps[1]] = n
                        try:
                            got = _run_helper(fn, env, cp.members)
                        except Unmodelled as u:
                            raise AnalysisError('C17.R1', f'{h}: {u} is outside the modelled slicing subset')
                        want = _spec(kind, L, n, k)
                        npoints += 1
                        reg = _region(kind, L, n, k)
                        ok = got == want
                        r = regions.setdefault(reg, {'ok': 0, 'bad': None})
                        if ok:
                            r['ok'] += 1
                        elif r['bad'] is None:
                            r['bad'] = (L, n, k, got, want)
            for reg, r in sorted(regions.items()):
                construct = f'{h}[{cp.label}]/{reg}'
                if r['bad'] is None:
                    run.ok('C17.R1', construct, f'{r["ok"]} point(s) agree', loc=cp.loc(fn))
                else:
                    L, n, k, got, want = r['bad']
                    call = f'{h[1:].upper()}(text of length {L}' + (f', {k}' if kind == 'mid' else '') + (f', {n})' if n is not None else ')')

                    def show(v):
                        if v == ERR:
                            return 'an error value'
                        if isinstance(v, tuple):
                            return f'raises {v[1]}'
                        return f'the characters at positions {[i + 1 for i in v]}' if v else 'the empty text'
                    run.bad('C17.R1', f'{h}/{reg}', 'slice',
                            f'{call} returns {show(got)}; expected {show(want)}', loc=cp.loc(fn),
                            facts={'length': L, 'count': n, 'start': k})


# ---------------------------------------------------------------------------------------------------
# R2: order and text form
# ---------------------------------------------------------------------------------------------------
def r2(run: Run, src, g, em, rt):
    from . import c01
    tmp = Run('tmp', run.tier, run.seed, quiet=True)
    c01.init_text_helpers(rt)
    forms = c01._forms(tmp, src, g, em)
    if not forms:
        raise AnalysisError('C17.R2', 'no emission forms of the expression translator')
    sub = Run('tmp', run.tier, run.seed, quiet=True)
    c01.r1(sub, src, g, em, forms)
    n = 0
    for o in sub.obligations:
        if '&' in o['construct']:
            n += 1
            if o['verdict'] == 'holds':
                run.ok('C17.R2', o['construct'], o['fact'], loc=o['loc'])
    for f in sub.findings:
        if '&' in f['construct']:
            run.bad('C17.R2', f['construct'], f['sub'], f['message'], loc=f['loc'], facts=f['facts'])
    if n == 0:
        raise AnalysisError('C17.R2', 'the & operator form was not analysed')
    # the wrapper & applies to its operands vs the helper CONCATENATE applies to its arguments
    amp = None
    for key, val in forms.items():
        if key[1] == '&' or key == ('binary', '&'):
            amp = val
    amp_wrappers = set()
    for key, val in forms.items():
        if '&' in key:
            sk = val[0]
            if sk.tree is not None:
                for c in ast.walk(sk.tree):
                    if isinstance(c, ast.Call):
                        amp_wrappers.add(ast.unparse(c.func))
    from .common import function_token_of, skeleton_of
    comp = function_token_of(g, 'CONCATENATE')
    if comp is None:
        raise AnalysisError('C17.R2', 'CONCATENATE token not found')
    conc_wrappers = set()
    for (tr, tk) in em.function_pairs():
        if tk != comp.name:
            continue
        for e in em.pairs[(tr, tk)]:
            if e.outcome.kind != 'return' or em.unreachable(e):
                continue
            sk = skeleton_of(em, e)
            if sk is None or sk.tree is None:
                continue
            for c in ast.walk(sk.tree):
                if isinstance(c, ast.Call):
                    conc_wrappers.add(ast.unparse(c.func))
    if not amp_wrappers or not conc_wrappers:
        raise AnalysisError('C17.R2', f'text-form wrappers not found (& {sorted(amp_wrappers)}, CONCATENATE {sorted(conc_wrappers)})')
    tr = src.cls('ExpressionTokenTranslator')
    loc = loc_of(tr.module.path, tr.node)
    if amp_wrappers != conc_wrappers:
        run.bad('C17.R2', '& vs CONCATENATE', 'text-form-disagreement',
                f'& renders its operands with {sorted(amp_wrappers)} while CONCATENATE renders its arguments with '
                f'{sorted(conc_wrappers)}: the two ways of joining the same operands give different texts (a date is its serial number '
                f'through one and its ISO form through the other), so one of them is not Excel\'s text form', loc=loc)
    else:
        run.ok('C17.R2', '& vs CONCATENATE', f'both use {sorted(amp_wrappers)}', loc=loc)
    # the text-form helper
    for cp in rt.copies():
        fn = cp.members.get('_excel_value_to_string')
        if fn is None:
            run.bad('C17.R2', f'_excel_value_to_string[{cp.label}]', 'missing', 'the text-form helper is missing', loc=cp.path)
            continue
        from ..finite import evaluator_for, const_av
        for kname, av, want_empty in (('blank', AV('blank', sign='zero'), True), ('empty text', AV('str', text='empty', val=''), True),
                                      ('text', AV('str', text='other'), False), ('int', AV('int', sign='pos'), False),
                                      ('zero', const_av(0), False), ('FALSE', const_av(False), False), ('float zero', const_av(0.0), False)):
            ev = evaluator_for(cp, hooks={'EmptyCell': lambda e_, a_: AV('blank', sign='zero')})
            try:
                got = ev.call_method('_excel_value_to_string', [av])
            except (Unknown, AbsRaise) as u:
                raise AnalysisError('C17.R2', f'text form of a {kname}: {u}')
            if got.kind != 'str':
                run.bad('C17.R2', f'_excel_value_to_string/{kname}', 'not-text', f'the text form of a {kname} is not a text', loc=cp.loc(fn))
                continue
            empty = got.text == 'empty'
            if want_empty and not empty:
                run.bad('C17.R2', f'_excel_value_to_string/{kname}', 'blank-text-form',
                        f'the text form of a {kname} cell is str() of the blank object, i.e. "0": a blank operand must join as the empty '
                        f'text', loc=cp.loc(fn))
            else:
                run.check(empty == want_empty, 'C17.R2', f'_excel_value_to_string[{cp.label}]/{kname}', 'text-form',
                          f'the text form of a {kname} is {"empty" if empty else "not empty"}', fact='empty' if empty else 'non-empty text',
                          loc=cp.loc(fn))
        # serial-number epoch
        epochs = [c for c in ast.walk(fn) if isinstance(c, ast.Call) and ast.unparse(c.func) == 'datetime.datetime' and len(c.args) == 3 and
                  all(isinstance(a, ast.Constant) for a in c.args)]
        if len(epochs) != 1:
            raise AnalysisError('C17.R2', '_excel_value_to_string: serial-number epoch not found')
        ep = tuple(a.value for a in epochs[0].args)
        run.check(ep == (1899, 12, 30), 'C17.R2', f'_excel_value_to_string[{cp.label}]/epoch', 'epoch',
                  f'dates are rendered as days since {ep}; Excel\'s serial numbers count from 1899-12-30', fact='1899-12-30', loc=cp.loc(epochs[0]))


# ---------------------------------------------------------------------------------------------------
# R3 / R4: SEARCH
# ---------------------------------------------------------------------------------------------------
CASE = ('lower', 'casefold', 'upper')


def _strip_case(e):
    """(inner expression, case method or None)"""
    if isinstance(e, ast.Call) and isinstance(e.func, ast.Attribute) and e.func.attr in CASE and not e.args:
        return e.func.value, e.func.attr
    return e, None


def _derives(fn, e, param, depth=0):
    """does `e` denote the parameter (possibly re-bound from itself by replace()/strip() chains)?"""
    return param in {n.id for n in ast.walk(e) if isinstance(n, ast.Name)}


def r3_r4(run: Run, rt):
    for cp in rt.copies():
        fn = cp.members.get('_search')
        if fn is None:
            run.bad('C17.R3', f'_search[{cp.label}]', 'missing', 'helper _search is missing', loc=cp.path)
            continue
        ps = [a.arg for a in fn.args.args if a.arg not in ('self', 'cls')]
        if len(ps) != 3:
            raise AnalysisError('C17.R3', f'_search: unexpected signature {ps}')
        find, within, start = ps
        parents = parent_map(fn)
        sites = []
        pos_of = {}           # id(site call) -> the expression given as the position the search starts at
        for c in ast.walk(fn):
            if not isinstance(c, ast.Call):
                continue
            # re.compile(P, flags).search(S[, pos]) is read as re.search(P, S, flags) that starts at pos
            if isinstance(c.func, ast.Attribute) and c.func.attr in ('search', 'match', 'fullmatch', 'finditer') and \
                    isinstance(c.func.value, ast.Call) and ast.unparse(c.func.value.func) == 're.compile' and c.func.value.args and c.args:
                comp = c.func.value
                syn = ast.copy_location(ast.Call(func=ast.Attribute(value=ast.Name(id='re', ctx=ast.Load()), attr=c.func.attr, ctx=ast.Load()),
                                                 args=[comp.args[0], c.args[0]] + list(comp.args[1:]), keywords=list(comp.keywords)), c)
                ast.fix_missing_locations(syn)
                subj, sm = _strip_case(c.args[0])
                if within in {n.id for n in ast.walk(subj) if isinstance(n, ast.Name)}:
                    sites.append(('re', syn, subj, sm))
                    if len(c.args) >= 2:
                        pos_of[id(syn)] = c.args[1]
                continue
            if isinstance(c.func, ast.Attribute) and c.func.attr in ('find', 'index') and c.args:
                recv, rm = _strip_case(c.func.value)
                if within in {n.id for n in ast.walk(recv) if isinstance(n, ast.Name)}:
                    sites.append(('find', c, recv, rm))
            f = ast.unparse(c.func)
            if f in ('re.finditer', 're.search', 're.match', 're.fullmatch') and len(c.args) >= 2:
                subj, sm = _strip_case(c.args[1])
                if within in {n.id for n in ast.walk(subj) if isinstance(n, ast.Name)}:
                    sites.append(('re', c, subj, sm))
        if len(sites) < 2:
            raise AnalysisError('C17.R3', f'_search: expected a plain and a wildcard search site, found {len(sites)}')
        # exits that are taken before any search: they may depend on the start position and on the length of the text searched
        # in, never on the length of the pattern -- a pattern is not as long as what it matches (`*` matches nothing, `~?` is one
        # character)
        from .common import flat_conditions
        first_site = min(c.lineno for _, c, _, _ in sites)
        for r_ in [n for n in ast.walk(fn) if isinstance(n, ast.Return) and n.lineno < first_site]:
            cs = flat_conditions(path_conditions(fn, r_, parents))
            uses = [t for t, pol in cs if any(isinstance(x, ast.Call) and isinstance(x.func, ast.Name) and x.func.id == 'len' and x.args and
                                               isinstance(x.args[0], ast.Name) and x.args[0].id == find for x in ast.walk(t))]
            run.check(not uses, 'C17.R3', f'_search[{cp.label}]/early exit `{ast.unparse(r_)[:30]}`', 'exit-on-pattern-length',
                      f'_search returns `{ast.unparse(r_.value)[:30] if r_.value is not None else None}` before searching when '
                      f'`{ast.unparse(uses[0])[:70] if uses else ""}`: the length of the pattern says nothing about the length of a match '
                      f'("a*b" matches "ab", "~?" matches "?")', fact='early exits do not read the pattern length', loc=cp.loc(r_))
        for kind, c, subj, sm in sites:
            construct = f'_search[{cp.label}]/{"plain" if kind == "find" else "wildcard"} path'
            if kind == 'find':
                arg, am = _strip_case(c.args[0])
                ok = sm is not None and am == sm
                if not ok:
                    run.bad('C17.R3', '_search/plain path', 'case-sensitive',
                            f'`{ast.unparse(c)[:80]}` compares the texts as they are: SEARCH must ignore case (lower() on both sides)',
                            loc=cp.loc(c))
                else:
                    run.ok('C17.R3', construct + '/case', f'{sm}() on both sides', loc=cp.loc(c))
                # start offset: start - 1
                if len(c.args) >= 2:
                    a = _affine2(c.args[1], {start: 's'})
                    run.check(a == ({'s': 1}, -1), 'C17.R3', construct + '/start', 'start-offset',
                              f'the plain search starts at `{ast.unparse(c.args[1])}`; the 1-based start s is the 0-based offset s - 1',
                              fact='start - 1', loc=cp.loc(c))
                else:
                    run.bad('C17.R3', '_search/plain path', 'start-ignored', 'the plain search ignores the start position', loc=cp.loc(c))
            else:
                flags = [ast.unparse(a) for a in c.args[2:]] + [ast.unparse(k.value) for k in c.keywords if k.arg == 'flags']
                icase = any('re.I' in f or 'IGNORECASE' in f for f in flags)
                pm = _strip_case(c.args[0])[1]
                ok = icase or (sm is not None and pm == sm)
                if not ok:
                    run.bad('C17.R3', '_search/wildcard path', 'case-sensitive',
                            f'`{ast.unparse(c)[:80]}` matches case-sensitively: SEARCH must ignore case (re.I)', loc=cp.loc(c))
                else:
                    run.ok('C17.R3', construct + '/case', 're.I', loc=cp.loc(c))
            # provenance: the whole text is searched
            whole = isinstance(subj, ast.Name) and subj.id == within
            if not whole:
                # a slice [a:] is acceptable only if the offset a is added back to the returned position
                run.bad('C17.R3', f'_search/{"plain" if kind == "find" else "wildcard"} path', 'position-relative-to-slice',
                        f'`{ast.unparse(c)[:90]}` searches `{ast.unparse(subj)}`, a part of the text: the position that comes back counts '
                        f'from the beginning of that part, not from the beginning of the text', loc=cp.loc(c))
            else:
                run.ok('C17.R3', construct + '/whole-text', 'the whole text is searched', loc=cp.loc(c))
        # returned positions are 0-based + 1; not found -> #VALUE!
        rets = [r for r in ast.walk(fn) if isinstance(r, ast.Return) and r.value is not None]
        pos_rets = 0
        for r in rets:
            v = r.value
            cands = [(v, None)]
            if isinstance(v, ast.IfExp):
                cands = [(v.body, v.test), (v.orelse, v.test)]
            for e, test in cands:
                if isinstance(e, ast.Constant):
                    ok = isinstance(e.value, str) and e.value == '#VALUE!'
                    run.check(ok, 'C17.R3', f'_search[{cp.label}]/return {e.value!r}@{r.lineno - fn.lineno}', 'not-found-value',
                              f'_search returns {e.value!r}; a search that finds nothing (or an invalid start) answers #VALUE!',
                              fact='#VALUE!', loc=cp.loc(r))
                    continue
                form = _position_form(fn, e)
                if form is None:
                    raise AnalysisError('C17.R3', f'_search: unmodelled returned value `{ast.unparse(e)[:60]}`')
                pos_rets += 1
                run.check(form == 1, 'C17.R3', f'_search[{cp.label}]/position `{ast.unparse(e)[:40]}`', 'position-base',
                          f'_search returns `{ast.unparse(e)[:60]}` = 0-based position {form:+d}; positions are 1-based (0-based + 1)',
                          fact='0-based position + 1', loc=cp.loc(r))
        if pos_rets < 2:
            raise AnalysisError('C17.R3', f'_search: {pos_rets} position-returning paths found, expected at least 2')
        # which matches are skipped / selected: a match at 0-based position P is skipped exactly when P + 1 < start.  The test may
        # be a skip test (`if ..: continue`), a selection test (`if ..: found = m; break`) or the filter of a generator handed to
        # next(); it is evaluated on a grid of integer (P, start) pairs
        import operator as _o

        def ev_int(e, env):
            if isinstance(e, ast.Name):
                if e.id in env:
                    return env[e.id]
                raise Unmodelled(f'name {e.id}')
            if isinstance(e, ast.Constant) and isinstance(e.value, int):
                return e.value
            if isinstance(e, ast.UnaryOp) and isinstance(e.op, ast.Not):
                return not ev_int(e.operand, env)
            if isinstance(e, ast.UnaryOp) and isinstance(e.op, ast.USub):
                return -ev_int(e.operand, env)
            if isinstance(e, ast.BinOp) and isinstance(e.op, (ast.Add, ast.Sub)):
                a, b = ev_int(e.left, env), ev_int(e.right, env)
                return a + b if isinstance(e.op, ast.Add) else a - b
            if isinstance(e, ast.BoolOp):
                vals = [ev_int(v, env) for v in e.values]
                return all(vals) if isinstance(e.op, ast.And) else any(vals)
            if isinstance(e, ast.Compare) and len(e.ops) == 1:
                table = {ast.Lt: _o.lt, ast.LtE: _o.le, ast.Gt: _o.gt, ast.GtE: _o.ge, ast.Eq: _o.eq, ast.NotEq: _o.ne}
                if type(e.ops[0]) in table:
                    return table[type(e.ops[0])](ev_int(e.left, env), ev_int(e.comparators[0], env))
            raise Unmodelled(ast.unparse(e)[:40])
        tests = []          # (test expression, 'skip' | 'select')
        for n in ast.walk(fn):
            if isinstance(n, ast.If) and '__P__' in ast.unparse(_posify(n.test)) and start in {x.id for x in ast.walk(n.test) if isinstance(x, ast.Name)}:
                if any(isinstance(b, ast.Continue) for b in n.body):
                    tests.append((n.test, 'skip'))
                elif any(isinstance(b, ast.Break) for b in n.body) or any(isinstance(b, ast.Return) for b in n.body):
                    tests.append((n.test, 'select'))
            if isinstance(n, (ast.GeneratorExp, ast.ListComp)) and len(n.generators) == 1 and len(n.generators[0].ifs) == 1:
                t = n.generators[0].ifs[0]
                if '__P__' in ast.unparse(_posify(t)) and start in {x.id for x in ast.walk(t) if isinstance(x, ast.Name)}:
                    tests.append((t, 'select'))
        started = [(c_, pos_of[id(c_)]) for k_, c_, _, _ in sites if k_ == 're' and id(c_) in pos_of]
        for c_, pe in started:
            a = _affine2(pe, {start: 's'})
            run.check(a == ({'s': 1}, -1), 'C17.R3', f'_search[{cp.label}]/wildcard path/start', 'start-offset',
                      f'the wildcard search starts at `{ast.unparse(pe)}`; the 1-based start s is the 0-based offset s - 1', fact='start - 1',
                      loc=cp.loc(c_))
        # R4: the text to find reaches the regex without re.escape
        esc = any(isinstance(c, ast.Call) and ast.unparse(c.func) == 're.escape' for c in ast.walk(fn))
        re_sites = [c for k, c, _, _ in sites if k == 're']
        if re_sites and not esc:
            run.bad('C17.R4', '_search/wildcard path', 'metachars-unescaped',
                    f'the text to find reaches `{ast.unparse(re_sites[0].func)}` with only ? and * rewritten: other regex metacharacters '
                    f'of the user text are interpreted (SEARCH("(*","a(b") raises re.error)', loc=cp.loc(re_sites[0]))
        else:
            run.ok('C17.R4', f'_search[{cp.label}]/escape', 're.escape on the literal parts', loc=cp.loc(fn))
        if not tests and started:
            continue
        if not tests:
            raise AnalysisError('C17.R3', '_search: the wildcard path does not skip matches before the start in a modelled form')
        for t, kind in tests:
            pt = _posify(t)
            bad_pt = None
            try:
                for P in range(0, 4):
                    for sv in range(1, 6):
                        got = bool(ev_int(pt, {'__P__': P, start: sv}))
                        skip = got if kind == 'skip' else not got
                        if skip != (P + 1 < sv):
                            bad_pt = bad_pt or (P, sv, skip)
            except Unmodelled as u:
                raise AnalysisError('C17.R3', f'_search: unmodelled test `{ast.unparse(t)[:60]}` ({u})')
            run.check(bad_pt is None, 'C17.R3', f'_search[{cp.label}]/skip-before-start', 'skip-condition',
                      f'with `{ast.unparse(t)[:60]}` a match at 1-based position {bad_pt[0] + 1 if bad_pt else ""} and start '
                      f'{bad_pt[1] if bad_pt else ""} is {"skipped" if bad_pt and bad_pt[2] else "kept"}; a match is skipped exactly when '
                      f'its position is before the start', fact='skip iff position + 1 < start', loc=cp.loc(t))


def _posify(e):
    """replace a 0-based match position (M.span(0)[0] / M.span()[0] / M.start()) by the symbol __P__"""
    class T(ast.NodeTransformer):
        def visit_Subscript(self, node):
            txt = ast.unparse(node).replace(' ', '')
            import re as _re
            if _re.fullmatch(r'\w+\.span\(0?\)\[0\]', txt):
                return ast.Name(id='__P__', ctx=ast.Load())
            return self.generic_visit(node)

        def visit_Call(self, node):
            txt = ast.unparse(node).replace(' ', '')
            import re as _re
            if _re.fullmatch(r'\w+\.start\(0?\)', txt):
                return ast.Name(id='__P__', ctx=ast.Load())
            if isinstance(node.func, ast.Attribute) and node.func.attr in ('find', 'index'):
                return ast.Name(id='__P__', ctx=ast.Load())
            return self.generic_visit(node)
    import copy
    return T().visit(copy.deepcopy(e))


def _affine2(e, syms: dict):
    """({symbol: coefficient}, constant) of an integer expression over the given names, or None"""
    if isinstance(e, ast.Name):
        if e.id in syms:
            return ({syms[e.id]: 1}, 0)
        return None
    if isinstance(e, ast.Constant) and isinstance(e.value, int) and not isinstance(e.value, bool):
        return ({}, e.value)
    if isinstance(e, ast.UnaryOp) and isinstance(e.op, ast.USub):
        a = _affine2(e.operand, syms)
        return None if a is None else ({k: -v for k, v in a[0].items()}, -a[1])
    if isinstance(e, ast.BinOp) and isinstance(e.op, (ast.Add, ast.Sub)):
        a, b = _affine2(e.left, syms), _affine2(e.right, syms)
        if a is None or b is None:
            return None
        s = 1 if isinstance(e.op, ast.Add) else -1
        coef = dict(a[0])
        for k, v in b[0].items():
            coef[k] = coef.get(k, 0) + s * v
        return ({k: v for k, v in coef.items() if v}, a[1] + s * b[1])
    return None


def _position_form(fn, e):
    """offset c of a returned value of the form (0-based position) + c, following one local binding; None if not of that form"""
    e2 = e
    if isinstance(e, ast.Name):
        # the binding that reaches the return: the last assignment among the statements executed before it
        from ..paths import executed_before
        vals = [st.value for st in executed_before(fn, e) if isinstance(st, ast.Assign) and
                any(isinstance(t, ast.Name) and t.id == e.id for t in st.targets)]
        if not vals:
            return None
        e2 = vals[-1]
    a = _affine2(_posify(e2), {'__P__': 'p'})
    if a is None or a[0] != {'p': 1}:
        return None
    return a[1]


# ---------------------------------------------------------------------------------------------------
# R6: a text literal denotes its own text
# ---------------------------------------------------------------------------------------------------
def r6(run: Run, src, g, em):
    n = 0
    for (tr, tk), es in em.pairs.items():
        if tk != 'PatternToken':
            continue
        t = src.cls(tr)
        loc = loc_of(t.module.path, t.node)
        for e in es:
            o = e.outcome
            if o.kind != 'return' or not isinstance(o.value, Code):
                raise AnalysisError('C17.R6', f'{tr}: unexpected outcome {o.kind}')
            parts = [p for p in o.value.parts if not (isinstance(p, str) and p == '')]
            n += 1
            ok = len(parts) == 1 and isinstance(parts[0], Part) and parts[0].kind == 'repr' and isinstance(parts[0].a, GroupStr)
            shown = ''.join(p if isinstance(p, str) else '<literal text>' for p in o.value.parts)
            if ok:
                # the quoted body: the whole match without its first and last character, or the body group itself
                gs = parts[0].a
                body = (gs.gid == 1 and 'slice[1:-1]' in str(gs.derived or '')) or (gs.gid == 2 and not gs.derived)
                run.check(body, 'C17.R6', f'{tr}/printed text', 'literal-body',
                          f'{tr} prints repr({gs!r}); the text of a quoted literal is the match without its two quotes',
                          fact='repr(body between the quotes)', loc=loc)
            else:
                run.bad('C17.R6', f'{tr}/printed text', 'literal-wrapped',
                        f'a text literal that contains ? or * is printed as `{shown[:80]}` in every operand position (="Really?", '
                        f'"a*"&"b", IF(A1="why?",...)): the literal must denote its own text; converting it to a regular expression '
                        f'belongs where a criterion is matched', loc=loc)
    if n == 0:
        raise AnalysisError('C17.R6', 'PatternToken is never translated')
    # the criterion lambda converts the wildcard text where it matches it
    key = ('LambdaTokenTranslator', 'LambdaToken')
    from .common import skeleton_of
    found = conv = 0
    for e in em.pairs.get(key, []):
        if e.outcome.kind != 'return':
            continue
        sk = skeleton_of(em, e)
        if sk is None:
            continue
        body = (list(sk.subs.values()) or [sk])[0]
        if body.tree is None or not isinstance(body.tree.body, ast.Lambda):
            continue
        for c in ast.walk(body.tree.body):
            if isinstance(c, ast.Call) and ast.unparse(c.func).startswith('re.'):
                found += 1
                if isinstance(c.args[0], ast.Call) and ast.unparse(c.args[0].func) == 'self._regexp':
                    conv += 1
    tr = src.cls('LambdaTokenTranslator')
    if found == 0:
        raise AnalysisError('C17.R6', 'no wildcard arm in the criterion lambda')
    run.check(conv == found, 'C17.R6', 'LambdaTokenTranslator/wildcard conversion', 'criterion-not-converted',
              'the wildcard arm of the criterion lambda matches the criterion text as a regular expression without converting its '
              'wildcards (self._regexp)', fact=f'{conv} wildcard arm(s) convert with self._regexp', loc=loc_of(tr.module.path, tr.node))


# ---------------------------------------------------------------------------------------------------
# R7: VALUE
# ---------------------------------------------------------------------------------------------------
def r7(run: Run, rt):
    for cp in rt.copies():
        fn = cp.members.get('_value')
        if fn is None:
            run.bad('C17.R7', f'_value[{cp.label}]', 'missing', 'helper _value is missing', loc=cp.path)
            continue
        for kname, av, want in (('integer text', AV('str', text='int'), 'int'), ('decimal text', AV('str', text='dec'), 'float')):
            hooks = {}
            ev = Evaluator(cp.members, hooks)
            try:
                got = ev.call_method('_value', [av])
            except Unknown as u:
                # str methods the evaluator does not model are identity on the class of the text (strip, replace of separators)
                raise AnalysisError('C17.R7', f'VALUE of {kname}: {u}')
            except AbsRaise as r:
                run.bad('C17.R7', f'_value/{kname}', 'raises', f'VALUE of {kname} raises {r.exc}', loc=cp.loc(fn))
                continue
            run.check(got.kind == want, 'C17.R7', f'_value[{cp.label}]/{kname}', f'value-kind:{got.kind}',
                      f'VALUE of {kname} yields a {got.kind}; it must yield the {want} the text denotes', fact=want, loc=cp.loc(fn))
        last = fn.body[-1]
        ok = isinstance(last, ast.Return) and isinstance(last.value, ast.Constant) and last.value.value == '#VALUE!'
        run.check(ok, 'C17.R7', f'_value[{cp.label}]/fallback', 'fallback',
                  'VALUE does not end with the error value #VALUE! for text that denotes no number', fact='#VALUE!', loc=cp.loc(last))


def slices_eval(run: Run, rt):
    """LEFT / RIGHT / MID decided by abstract evaluation (engine F) on concrete texts over the whole grid of counts and starts:
    the characters Excel returns, an error value for a negative count or a start before 1, the empty result as blank or ''"""
    from ..finite import evaluator_for, const_av, Unknown, AbsRaise
    texts = ['', 'a', 'abc', 'Hello World']
    counts = [None, 0, 1, 2, 3, 5, 11, 100, -1, -5]
    starts = [1, 2, 3, 4, 11, 12, 100, 0, -1]

    def excel(h, text, a, b=None):
        if h == '_left':
            if a is None:
                return text[:1]
            return 'error' if a < 0 else text[:a]
        if h == '_right':
            if a is None:
                return text[-1:]
            return 'error' if a < 0 else (text[len(text) - a:] if 0 < a <= len(text) else text if a > len(text) else '')
        if a < 1 or b < 0:
            return 'error'
        return text[a - 1:a - 1 + b]
    for cp in rt.copies():
        for h in ('_left', '_right', '_mid'):
            fn = cp.members.get(h)
            if fn is None:
                run.bad('C17.R1', f'{h}[{cp.label}]', 'missing', f'helper {h} is missing', loc=cp.path)
                continue
            grid = [(t, c, None) for t in texts for c in counts] if h != '_mid' else \
                [(t, s_, c) for t in texts for s_ in starts for c in counts if c is not None]
            wrong, n = [], 0
            for t, a, b in grid:
                want = excel(h, t, a, b)
                ev = evaluator_for(cp, max_depth=6)
                args = [const_av(t), const_av(a)] + ([const_av(b)] if h == '_mid' else [])
                try:
                    res = ev.call_method(h, args)
                    got = '' if res.kind == 'blank' else res.val if isinstance(res.val, str) else repr(res)
                    if isinstance(got, str) and got.startswith('#'):
                        got = 'error'
                except Unknown as u:
                    raise AnalysisError('C17.R1', f'{h}[{cp.label}]({t!r}, {a!r}{"" if b is None else ", " + repr(b)}): the abstraction cannot follow the helper ({u})')
                except AbsRaise as e:
                    got = f'raises {e.exc}'
                n += 1
                if got != want:
                    wrong.append((t, a, b, got, want))
            # one obligation per (helper, text): the whole grid of counts / starts for that text
            for t in texts:
                bad = [w for w in wrong if w[0] == t]
                shown = '; '.join(f'{h[1:].upper()}({w[0]!r}, {w[1]!r}{"" if w[2] is None else ", " + repr(w[2])}) -> {w[3]!r} (Excel: {w[4]!r})'
                                  for w in bad[:4])
                run.check(not bad, 'C17.R1', f'{h}[{cp.label}]/{t!r}', 'wrong-characters',
                          f'{len(bad)} of the count / start combinations give other characters than Excel: {shown}',
                          fact='every count / start combination', loc=cp.loc(fn))


SEARCH_CASES = [
    ('lo', 'Hello World', None, 4), ('LO', 'hello world', None, 4), ('o', 'Hello World', 6, 8), ('o', 'Hello World', 5, 5), ('o', 'Hello World', 9, 'error'),
    ('xyz', 'Hello World', None, 'error'), ('H', 'Hello World', 1, 1), ('d', 'Hello World', 11, 11), ('d', 'Hello World', 12, 'error'),
    ('o', 'Hello World', 0, ('error', 5)), ('o', 'Hello World', -1, ('error', 5)), ('World', 'Hello World', None, 7), ('hello world', 'Hello World', None, 1),
    ('l', 'Hello World', 4, 4), ('l', 'Hello World', 5, 10), ('a.c', 'abc a.c', None, 5), ('(', 'f(x)', None, 2), ('+', '1+1', None, 2),
    ('~?', 'what? no', None, 5), ('~*', 'a*b', None, 2),
    # wildcards, on texts where occurrences do not overlap
    ('h?llo', 'Hello World', None, 1), ('?o', 'Hello World', None, 4), ('?o', 'Hello World', 5, 7), ('w*d', 'Hello World', None, 7),
    ('o*d', 'Hello World', 6, 8), ('o?', 'Hello World', 6, 8), ('x?z', 'Hello World', None, 'error'), ('W?r', 'Hello World', 8, 'error'),
    ('?', 'abc', 2, 2), ('b*', 'abcabc', 3, 5), ('?l', 'Hello', 3, 3), ('l*', 'Hello', 4, 4), ('[', 'a[0]', None, 2), ('\\d', 'a1 \\d', None, 4), ('$', 'cost $5', None, 6),
]


def search_eval(run: Run, rt):
    """SEARCH decided by abstract evaluation (engine F) for finds without wildcards: the 1-based position of the first
    occurrence at or after the start, ignoring case, every other character (regex metacharacters, escaped wildcards) standing for
    itself; #VALUE! when there is none or the start is outside the text"""
    from ..finite import evaluator_for, const_av, Unknown, AbsRaise
    for cp in rt.copies():
        fn = cp.members.get('_search')
        if fn is None:
            run.bad('C17.R3', f'_search[{cp.label}]', 'missing', 'helper _search is missing', loc=cp.path)
            continue
        for find, within, start, want in SEARCH_CASES:
            ev = evaluator_for(cp, max_depth=8)
            construct = f'_search[{cp.label}]/{find!r} in {within!r} from {start!r}'
            try:
                res = ev.call_method('_search', [const_av(find), const_av(within), const_av(start)])
                got = res.val if res.val is not None and not isinstance(res.val, tuple) else repr(res)
                if isinstance(got, str) and got.startswith('#'):
                    got = 'error'
            except Unknown as u:
                raise AnalysisError('C17.R3', f'{construct}: the abstraction cannot follow the helper ({u})')
            except AbsRaise as e:
                got = f'raises {e.exc}'
            # a start before the text: the statement asks for the first occurrence at or after it; Excel itself rejects it -- both pass
            accept = want if isinstance(want, tuple) else (want,)
            run.check(any(got == w and type(got) is type(w) for w in accept), 'C17.R3', construct, 'search-position',
                      f'SEARCH({find!r}, {within!r}, {start!r}) gives {got!r}; Excel: {want!r} (first occurrence at or after the start, '
                      f'case ignored, 1-based; #VALUE! otherwise)', fact=f'-> {got!r}', loc=cp.loc(fn))


VALUE_CASES = [('12', 12), (' 12 ', 12), ('-7', -7), ('1.5', 1.5), ('1,5', 1.5), ('-0.25', -0.25), ('1e3', 1000.0), ('007', 7), ('0', 0),
               ('12.0', 12.0), ('abc', 'error'), ('', 'error'), ('12abc', 'error'), ('1.2.3', 'error'),
               # whole numbers beyond 2**53 are exact as Python integers: the text decides, not the nearest double
               ('9007199254740993', 9007199254740993), ('12345678901234567', 12345678901234567), ('-9007199254740993', -9007199254740993)]


def search_metachars_eval(run: Run, rt):
    """R4 by evaluation: a find text with regex metacharacters beside a wildcard must still be searched for as text"""
    from ..finite import evaluator_for, const_av, Unknown, AbsRaise
    cases = [('(*', 'a(b', None, 2), ('a.c*', 'abc a.cd', None, 5), ('[*', 'x[y', None, 2), ('+?', '1+1', None, 2), ('a|b*', 'b a|bc', None, 3)]
    for cp in rt.copies():
        fn = cp.members.get('_search')
        if fn is None:
            continue
        wrong = []
        for find, within, start, want in cases:
            ev = evaluator_for(cp, max_depth=8)
            try:
                res = ev.call_method('_search', [const_av(find), const_av(within), const_av(start)])
                got = res.val if res.val is not None and not isinstance(res.val, tuple) else repr(res)
            except Unknown as u:
                raise AnalysisError('C17.R4', f'_search[{cp.label}]({find!r}, {within!r}): the abstraction cannot follow the helper ({u})')
            except AbsRaise as e:
                got = f'raises {e.exc}'
            if got != want:
                wrong.append((find, within, got, want))
        if wrong:
            f_, w_, g_, x_ = wrong[0]
            run.bad('C17.R4', '_search/wildcard path', 'metachars-unescaped',
                    f'a find text with a wildcard and other regex metacharacters is not searched for as text: SEARCH({f_!r}, {w_!r}) gives {g_!r} '
                    f'(Excel {x_!r}); {len(wrong)} of {len(cases)} such cases are wrong in the {cp.label} copy', loc=cp.loc(fn))
        else:
            run.ok('C17.R4', f'_search[{cp.label}]/escape', 'metacharacters beside wildcards are searched for as text', loc=cp.loc(fn))


def value_eval(run: Run, rt):
    """VALUE on texts that are plainly a number or plainly not: the number the text denotes (blanks at the ends ignored, decimal
    comma or point), #VALUE! for a text that is no number"""
    from ..finite import evaluator_for, const_av, Unknown, AbsRaise
    for cp in rt.copies():
        fn = cp.members.get('_value')
        if fn is None:
            run.bad('C17.R7', f'_value[{cp.label}]', 'missing', 'helper _value is missing', loc=cp.path)
            continue
        for text, want in VALUE_CASES:
            ev = evaluator_for(cp, max_depth=8)
            construct = f'_value[{cp.label}]/{text!r}'
            try:
                res = ev.call_method('_value', [const_av(text)])
                got = res.val if res.val is not None and not isinstance(res.val, tuple) else repr(res)
                if isinstance(got, str) and got.startswith('#'):
                    got = 'error'
            except Unknown as u:
                if want == 'error':
                    continue            # the ladder of date and time formats is outside the abstraction
                raise AnalysisError('C17.R7', f'{construct}: the abstraction cannot follow the helper ({u})')
            except AbsRaise as e:
                got = f'raises {e.exc}'
            run.check(got == want and (isinstance(got, str) or float(got) == float(want)), 'C17.R7', construct, 'value-number',
                      f'VALUE({text!r}) gives {got!r}; Excel: {want!r}', fact=f'-> {got!r}', loc=cp.loc(fn))


def _evaluated_then_structural(run: Run, rule: str, evaluated, structural, *args):
    """the evaluated cases always count; the structural reading counts where the code can be read, and is the only verdict when
    the abstraction cannot follow the helper"""
    sub = Run('tmp', run.tier, run.seed, quiet=True)
    ok = False
    try:
        evaluated(sub, args[-1])
        ok = True
    except AnalysisError as e:
        run.note(f'{rule}: by structure only ({e.reason[:120]})')
    if ok:
        for o in sub.obligations:
            if o['verdict'] == 'holds':
                run.ok(o['rule'], o['construct'], o['fact'], loc=o['loc'])
        for f_ in sub.findings:
            run.bad(f_['rule'], f_['construct'], f_['sub'], f_['message'], loc=f_['loc'])
        sub2 = Run('tmp', run.tier, run.seed, quiet=True)
        try:
            structural(sub2, *args)
            for o in sub2.obligations:
                if o['verdict'] == 'holds':
                    run.ok(o['rule'], o['construct'], o['fact'], loc=o['loc'])
            for f_ in sub2.findings:
                run.bad(f_['rule'], f_['construct'], f_['sub'], f_['message'], loc=f_['loc'])
        except AnalysisError as e:
            run.note(f'{rule}: the structural reading gave up ({e.reason[:120]}); the evaluated cases decide')
            for f_ in sub2.findings:             # what it had found before it gave up still counts
                run.bad(f_['rule'], f_['construct'], f_['sub'], f_['message'], loc=f_['loc'])
    else:
        structural(run, *args)


def run(run: Run):
    from .common import cached_guard as _cached_guard
    src = get_source()
    g = get_grammar(src)
    em = get_emission(src)
    rt = get_runtime(src)
    run.rule('C17.R1', 'slice algebra of LEFT/RIGHT/MID over the (length, count, start) arrangement')
    run.rule('C17.R2', 'order and text form of & and CONCATENATE; blank joins as empty text; serial epoch')
    run.rule('C17.R3', 'SEARCH: case-insensitive on every path, whole-text 1-based positions, start handling, #VALUE! when not found')
    run.rule('C17.R4', 'user text reaches a regex only escaped')
    run.rule('C17.R5', 'argument plumbing of LEFT/RIGHT/MID/SEARCH/VALUE/CONCATENATE equals the confirmed reference')
    run.rule('C17.R6', 'a text literal in operand position denotes its own text')
    run.rule('C17.R7', 'VALUE: integer text -> int, decimal text -> float, #VALUE! fallback')
    _cached_guard(run, 'C17.R1', _evaluated_then_structural, 'C17.R1', slices_eval, r1, rt)
    _cached_guard(run, 'C17.R2', r2, src, g, em, rt)
    _cached_guard(run, 'C17.R3', _evaluated_then_structural, 'C17.R3', search_eval, r3_r4, rt)
    # R4 is decided by evaluation; what the structural reading said about R4 (if it could read the code) is replaced by it
    r4_eval_ok = False
    sub4 = Run('tmp', run.tier, run.seed, quiet=True)
    try:
        search_metachars_eval(sub4, rt)
        r4_eval_ok = True
    except AnalysisError as e_:
        run.note(f'C17.R4 by structure ({e_.reason[:100]})')
    if r4_eval_ok:
        run.obligations = [o for o in run.obligations if o['rule'] != 'C17.R4']
        run.findings = [f for f in run.findings if f['rule'] != 'C17.R4']
        for o in sub4.obligations:
            if o['verdict'] == 'holds':
                run.ok(o['rule'], o['construct'], o['fact'], loc=o['loc'])
        seen4 = set()
        for f_ in sub4.findings:
            if (f_['construct'], f_['sub']) not in seen4:
                seen4.add((f_['construct'], f_['sub']))
                run.bad(f_['rule'], f_['construct'], f_['sub'], f_['message'], loc=f_['loc'])
    _cached_guard(run, 'C17.R5', check_plumbing, 'C17.R5', src, em, rt, FUNCS)
    _cached_guard(run, 'C17.R6', r6, src, g, em)
    _cached_guard(run, 'C17.R7', _evaluated_then_structural, 'C17.R7', value_eval, r7, rt)
    # a function result depends on its arguments only: no runtime helper keeps results or other state between calls
    from .common import borrow as _borrow
    from . import c08 as _c08
    from ..callgraph import get_callgraph as _gcg
    from ..source import get_source as _gs
    from ..runtime import get_runtime as _grt
    run.rule('C17.R8', 'runtime helpers are pure functions of their arguments: no write effects, no value cache (shared with C08.R1/R4)')
    _src = _gs()
    _borrow(run, 'C17.R8', _c08.r1, _src, _grt(_src), _gcg(_src))
    _borrow(run, 'C17.R8', _c08.r4, _src, _grt(_src))
    run.floor('C17.R8', 50)
    run.floor('C17.R1', 30)
    run.floor('C17.R2', 6)
    run.floor('C17.R3', 16)
    run.floor('C17.R4', 1)
    run.floor('C17.R5', 6)
    run.floor('C17.R6', 2)
    run.floor('C17.R7', 6)
    from .common import shared_mechanisms as _shared
    _shared(run, 'C17', 9, ['stored-values'])
    from .common import shared_mechanisms as _shared_f
    _shared_f(run, 'C17', 10, ['formulas'])
    return INFO
