"""C02 -- every reference form denotes exactly the intended cells of the intended sheet (DESIGN 3/C02)."""
from __future__ import annotations

import ast

from ..core import Run, AnalysisError, loc_of
from ..source import get_source
from ..grammar import get_grammar
from ..regexmodel import group_role, sre_c
from ..roles import (RoleChecker, Role, Level, CellR, Sizes, Iter, TupleR, Num, SHEET, ROW, COL, cell_field_order)

INFO = {
    'explanation': (
        'R1: for the three reference terminals every self.value[i] that feeds a Cell field is mapped to its capture group in the '
        'wrapped lexer pattern and the group\'s role (quoted title body, bare title, column letters, row digits without the $; start '
        'side / end side of the colon, back-references honoured) must be the role of the field. R2: role/base flow (SHEET/ROW/COL x '
        'text/0-based/1-based-or-count) through handle_cell, Cell.uid, Excel._fill_cell, get_range, _get_vertical_range, '
        '_get_horizontal_range, _get_matrix, get_matrix, get_similar_second, get_cells and every Cell(...) construction: indices '
        'into the data levels, inclusive upper bounds (range end = last index + 1), outer loop rows / inner loop columns. R3: the '
        'title->index step cannot succeed for an absent title and a str title only resolves through the title map. R4: every '
        'branch of get_matrix returns rows of cells (row-major). R5: the extent of an area depends only on coordinates and sizes, '
        'never on cell contents. Not decided: the look-ahead tails that disambiguate cell/range/matrix on all inputs, reversed '
        'ranges, per-coordinate values.'),
    'rule': 'one obligation per index use / sink / branch',
    'trusted': ['openpyxl.utils.column_index_from_string maps A->1; findall group numbering of the wrapped pattern'],
}

REFS = {'CellIdentifierToken': 'cell', 'CellIdentifierRangeToken': 'range', 'MatrixOfCellIdentifiersToken': 'matrix'}


def _colon_side(rx, gid):
    """('start'|'end'|None, groups back-referenced on the end side of the same alternative)"""
    ctx = rx.group_ctx.get(gid)
    if ctx is None:
        return None, set()
    # walk outwards through the chain of enclosing groups until a sequence with a top-level ':' is found
    chain = ctx['chain'] + [gid]
    for depth in range(len(chain) - 1, -1, -1):
        outer = chain[depth - 1] if depth > 0 else None
        seq = rx.group_nodes[outer] if outer is not None else rx.tree
        for alt in _alternatives(seq):
            items = list(alt)
            colon = [i for i, (op, av) in enumerate(items) if op is sre_c.LITERAL and chr(av) == ':']
            if not colon:
                continue
            pos = None
            for i, it in enumerate(items):
                if _contains_group(it, chain[depth]):
                    pos = i
            if pos is None:
                continue
            refs = set()
            for it in items[colon[0] + 1:]:
                refs |= _grouprefs(it)
            return ('start' if pos < colon[0] else 'end'), refs
    return None, set()


def _alternatives(seq):
    items = list(seq)
    if len(items) == 1 and items[0][0] is sre_c.BRANCH:
        return items[0][1][1]
    return [seq]


def _contains_group(item, gid):
    op, av = item
    if op is sre_c.SUBPATTERN:
        if av[0] == gid:
            return True
        return any(_contains_group(x, gid) for x in av[3])
    if op in (sre_c.MAX_REPEAT, sre_c.MIN_REPEAT):
        return any(_contains_group(x, gid) for x in av[2])
    if op is sre_c.BRANCH:
        return any(_contains_group(x, gid) for a in av[1] for x in a)
    return False


def _grouprefs(item):
    op, av = item
    out = set()
    if op is sre_c.GROUPREF:
        out.add(av)
    elif op is sre_c.SUBPATTERN:
        for x in av[3]:
            out |= _grouprefs(x)
    elif op in (sre_c.MAX_REPEAT, sre_c.MIN_REPEAT):
        for x in av[2]:
            out |= _grouprefs(x)
    elif op is sre_c.BRANCH:
        for a in av[1]:
            for x in a:
                out |= _grouprefs(x)
    return out


def _value_indices(expr, fn=None):
    """[(i, node)] for self.value[i] operands of an or-chain; plus whether the chain ends with self.in_cell.title"""
    ops = expr.values if isinstance(expr, ast.BoolOp) and isinstance(expr.op, ast.Or) else [expr]
    out, fallback, other = [], False, []

    def is_value(e):
        if ast.unparse(e) == 'self.value':
            return True
        if isinstance(e, ast.Name) and fn is not None:
            r_, o_ = _resolve_local(fn, e)
            return o_ is None and r_ is not e and ast.unparse(r_) == 'self.value'
        return False
    for o in ops:
        if isinstance(o, ast.Subscript) and is_value(o.value) and isinstance(o.slice, ast.Constant) and \
                isinstance(o.slice.value, int):
            out.append((o.slice.value, o))
        elif ast.unparse(o) in ('self.in_cell.title', 'self._in_cell.title'):
            fallback = True
        else:
            other.append(o)
    return out, fallback, other


def _resolve_local(fn, e, depth=0):
    """(expression with locals that are bound once replaced by what they name, (ordering call, position) when the value is an
    element of sorted()/min()/max() over several operands)"""
    if isinstance(e, ast.Name) and depth < 5:
        defs = []
        for n in ast.walk(fn):
            if isinstance(n, ast.Assign):
                for t in n.targets:
                    if isinstance(t, ast.Name) and t.id == e.id:
                        defs.append((n.value, None))
                    elif isinstance(t, (ast.Tuple, ast.List)):
                        for i, x in enumerate(t.elts):
                            if isinstance(x, ast.Name) and x.id == e.id:
                                defs.append((n.value, i))
        if len(defs) == 1:
            v, pos = defs[0]
            if pos is None:
                return _resolve_local(fn, v, depth + 1)
            if isinstance(v, (ast.Tuple, ast.List)) and pos < len(v.elts):
                return _resolve_local(fn, v.elts[pos], depth + 1)
            # a, b = (f(k) for k in (1, 2)): element `pos` is f(<pos-th constant>)
            if isinstance(v, (ast.GeneratorExp, ast.ListComp)) and len(v.generators) == 1 and not v.generators[0].ifs and \
                    isinstance(v.generators[0].iter, (ast.Tuple, ast.List)) and isinstance(v.generators[0].target, ast.Name) and \
                    pos < len(v.generators[0].iter.elts):
                import copy as _copy
                from ..inline import _Subst
                elt = _Subst({v.generators[0].target.id: v.generators[0].iter.elts[pos]}, {}).visit(_copy.deepcopy(v.elt))
                return _resolve_local(fn, elt, depth + 1)
            if isinstance(v, ast.Call) and isinstance(v.func, ast.Name) and v.func.id in ('sorted', 'min', 'max', 'reversed'):
                return e, (v, pos)
        return e, None
    if isinstance(e, ast.BoolOp):
        vals = []
        for v in e.values:
            r, o = _resolve_local(fn, v, depth + 1)
            if o is not None:
                return e, o
            vals.append(r)
        new = ast.BoolOp(op=e.op, values=[])
        for r in vals:
            if isinstance(r, ast.BoolOp) and type(r.op) is type(e.op):
                new.values.extend(r.values)
            else:
                new.values.append(r)
        return ast.copy_location(new, e), None
    return e, None


REFERENCE_PROBES = [
    'A1', '$B$12', 'C$3', '$D4', 'Z9', 'AA10', 'AB1', 'XFD1048576', 'Sheet1!C3', "'My sheet'!D4", "'S 2'!$A$1", 'Data!AA7',
    'A1:A5', 'B2:F2', 'Sheet1!A1:A9', "'My sheet'!C3:C4", '$A$1:$A$3', 'A1:B2', 'B2:D10', 'Sheet1!A1:C3', "'S 2'!B2:AA4", '$A$1:$C$3',
    'Z1:AB2', 'A:B', 'C:C', "'My sheet'!A:C", 'Sheet1!B:D', 'Y:AB',
    # column letters and sheet titles that begin like a function name
    'IF1', 'OR2', 'MAX1:MAX3', 'SUM7', 'DAY3', 'ORDERS!A1', 'SUMMARY!B1:B3', 'MIN4:MIN9', 'IF:IF',
]
TITLE_INDEX = {'Sheet1': 0, 'My sheet': 1, 'S 2': 2, 'Data': 3, 'ORDERS': 4, 'SUMMARY': 5}
OWN_SHEET = 1           # the sheet of the cell that holds the formula


def _spelled(ref: str):
    """(sheet index, [(column index, row index | None) ...]) a reference text spells"""
    sheet = OWN_SHEET
    if '!' in ref:
        pre, ref = ref.rsplit('!', 1)
        sheet = TITLE_INDEX[pre.strip("'")]
    corners = []
    for part in ref.replace('$', '').split(':'):
        letters = ''.join(ch for ch in part if ch.isalpha())
        digits = ''.join(ch for ch in part if ch.isdigit())
        n = 0
        for ch in letters:
            n = n * 26 + (ord(ch) - 64)
        corners.append((n - 1, int(digits) - 1 if digits else None))
    return sheet, corners


def r1_eval(run: Run, src, g):
    """which cells a reference token denotes, decided by abstract evaluation (engine F): the probe reference is lexed by the
    evaluated lexer, the accessor property of the token (cell / range / matrix) is evaluated as written, the Cell objects it builds
    are normalised by the evaluated handle_cell -- sheet, column and row of every corner must be the ones the text spells, the
    sheet of the formula cell when the reference names none"""
    from ..finite import AV, const_av, Unknown, AbsRaise
    from . import lexer_eval
    hc = src.func('handle_cell')
    cell_ci = src.cls('Cell')
    fields = [(st.target.id, st.value) for st in cell_ci.node.body if isinstance(st, ast.AnnAssign) and isinstance(st.target, ast.Name)]
    titles = AV('dict', items=tuple(AV('tuple', items=(const_av(k), const_av(v))) for k, v in TITLE_INDEX.items()))
    for ref in REFERENCE_PROBES:
        ev, _ = lexer_eval.build(src, g)
        ev.max_depth = 14
        ev.classes = {'Cell': {n: m.node for n, m in cell_ci.methods.items()}}
        for m_ in (hc.module, cell_ci.module):
            for st in m_.tree.body:
                if isinstance(st, ast.FunctionDef):
                    ev.functions.setdefault(st.name, st)

        def make_cell(args, kwargs, ev=ev):
            vals = dict(zip([n for n, _ in fields], args))
            vals.update(kwargs)
            at = {}
            for n, d in fields:
                if n in vals:
                    at[n] = vals[n]
                elif d is not None:
                    at[n] = ev.ev(d, {})
                else:
                    raise AbsRaise('TypeError', f'Cell() missing {n}')
            c = ev.new_obj('Cell', at)
            if '__post_init__' in cell_ci.methods:
                ev.call_bound(cell_ci.methods['__post_init__'].node, c, [])
            return c
        ev.constructors = {'Cell': make_cell}
        in_cell = make_cell([const_av(OWN_SHEET), const_av(7), const_av(8)], {})
        ev.obj_attrs(in_cell)['_handled_identifiers'] = const_av(True)
        construct = f'reference/{ref}'
        tok = None
        want_sheet, want_corners = _spelled(ref)
        try:
            toks = ev.unbox(ev.call_method('parse', [const_av(ref), in_cell], AV('other', val=('class', 'Lexer'))))
            if toks.items is None or not all(t_.kind == 'obj' for t_ in toks.items):
                raise Unknown('a token list of unknown contents')
            if len(toks.items) != 1 or toks.items[0].val[2] not in REFS:
                run.bad('C02.R1', construct, 'not-one-reference',
                        f'the reference {ref} is lexed as {[t_.val[2] for t_ in toks.items]}, not as one reference token')
                continue
            tok = toks.items[0]
            prop = REFS.get(tok.val[2])
            res = ev.ev(ast.parse(f'tok.{prop}', mode='eval').body, {'tok': tok})
            cells = [res] if res.kind == 'obj' else list(res.items or ())
            got = []
            for c in cells:
                if c.kind != 'obj':
                    raise Unknown('an accessor result that is not a Cell')
                ev.call_function(ev.functions['handle_cell'], [c, titles])
                at = ev.obj_attrs(c)
                got.append(tuple(None if at[k].kind == 'none' else at[k].val for k in ('title', 'column', 'row')))
        except Unknown as u:
            raise AnalysisError('C02.R1', f'{construct}: the abstraction cannot follow the accessor ({u})')
        except AbsRaise as e:
            got = f'raises {e.exc}'
            if tok is None:
                run.bad('C02.R1', construct, 'reference-rejected', f'the reference {ref} is rejected by the lexer ({e.exc})')
                continue
        want = [(want_sheet, c, r) for c, r in want_corners]
        ci_ = src.cls(tok.val[2]) if tok is not None and src.has_cls(tok.val[2]) else None
        loc = loc_of(ci_.module.path, ci_.methods[REFS[tok.val[2]]].node) if ci_ is not None and tok.val[2] in REFS and REFS[tok.val[2]] in ci_.methods else ''
        run.check(got == want, 'C02.R1', construct, 'denoted-cells',
                  f'in a formula on sheet {OWN_SHEET} the reference {ref} denotes (sheet, column, row) {got}; it spells {want} (0-based; a '
                  f'whole column has no row)', fact=f'-> {got}', loc=loc)


def r1_any(run: Run, src, g):
    sub = Run('tmp', run.tier, run.seed, quiet=True)
    evaluated = False
    try:
        r1_eval(sub, src, g)
        evaluated = True
    except AnalysisError as e:
        run.note(f'C02.R1: the reference accessors by structure only ({e.reason[:120]})')
    if not evaluated:
        return r1(run, src, g)
    for o in sub.obligations:
        if o['verdict'] == 'holds':
            run.ok(o['rule'], o['construct'], o['fact'], loc=o['loc'])
    for f_ in sub.findings:
        run.bad(f_['rule'], f_['construct'], f_['sub'], f_['message'], loc=f_['loc'])
    sub2 = Run('tmp', run.tier, run.seed, quiet=True)
    try:
        r1(sub2, src, g)
    except AnalysisError as e:
        run.note(f'C02.R1: the structural reading gave up ({e.reason[:120]}); the evaluated references decide')
    for o in sub2.obligations:
        if o['verdict'] == 'holds':
            run.ok(o['rule'], o['construct'], o['fact'], loc=o['loc'])
    for f_ in sub2.findings:
        run.bad(f_['rule'], f_['construct'], f_['sub'], f_['message'], loc=f_['loc'])


def r1(run: Run, src, g):
    fields = cell_field_order(src)
    n_idx = 0
    for tname, prop in REFS.items():
        t = g.terminals.get(tname)
        if t is None:
            raise AnalysisError('C02.R1', f'{tname} not found')
        fi = t.ci.methods.get(prop)
        if fi is None:
            raise AnalysisError('C02.R1', f'{tname}.{prop} not found')
        # helpers of the class / module that the accessor calls are read in place (their `self` is the token)
        import copy as _copy
        from ..inline import inline_methods, class_resolver, module_resolver
        _node = inline_methods(fi.node, class_resolver(src, t.ci, fi), depth=2, exclude={prop})
        _node = inline_methods(_node, module_resolver(fi.module.tree), depth=2)
        fi = _copy.copy(fi)
        fi.node = _node
        rx = t.rx
        calls = sorted([n for n in ast.walk(fi.node) if isinstance(n, ast.Call) and isinstance(n.func, ast.Name) and n.func.id == 'Cell'],
                       key=lambda n: (n.lineno, n.col_offset))
        expect = 1 if prop == 'cell' else 2
        if len(calls) != expect:
            raise AnalysisError('C02.R1', f'{tname}.{prop}: expected {expect} Cell(...) construction(s), found {len(calls)}')
        for ci, call in enumerate(calls):
            which = 'cell' if expect == 1 else ('start' if ci == 0 else 'end')
            args = dict(zip(fields, call.args))
            args.update({k.arg: k.value for k in call.keywords})
            for fld in ('title', 'column', 'row'):
                if fld not in args:
                    run.bad('C02.R1', f'{tname}.{prop}/{which}.{fld}', 'field-missing', f'the {which} cell is built without {fld}',
                            loc=loc_of(fi.module.path, call))
                    continue
                construct0 = f'{tname}.{prop}/{which}.{fld}'
                loc = loc_of(fi.module.path, args[fld])
                operand, ordered = _resolve_local(fi.node, args[fld])
                if ordered is not None:
                    call_, pos_ = ordered
                    keyed = any(k.arg == 'key' for k in call_.keywords)
                    if fld == 'column' and not keyed:
                        run.bad('C02.R1', construct0, 'corners-ordered-as-text',
                                f'the {fld} of the {which} cell is element {pos_} of `{ast.unparse(call_)[:60]}`: the two corner columns are '
                                f'put in order by comparing their letters as text, which is not the column order ("AA" sorts before "B"), '
                                f'so an area such as B1:AA5 gets its corners exchanged', loc=loc)
                        continue
                    raise AnalysisError('C02.R1', f'{construct0}: the corner coordinates are re-ordered with `{ast.unparse(call_)[:50]}`')
                idxs, fallback, other = _value_indices(operand, fi.node)
                if other:
                    raise AnalysisError('C02.R1', f'{construct0}: unmodelled operand `{ast.unparse(other[0])[:40]}`')
                if fld == 'title':
                    run.check(fallback, 'C02.R1', construct0 + '/own-sheet', 'no-own-sheet-fallback',
                              'a reference without sheet prefix does not fall back to the sheet of the formula', fact='falls back to '
                              'in_cell.title', loc=loc)
                elif fallback:
                    run.bad('C02.R1', construct0, 'title-as-coordinate', f'the {fld} falls back to the sheet title', loc=loc)
                if not idxs:
                    run.bad('C02.R1', construct0, 'no-group', f'the {fld} of the {which} cell is not taken from the matched text', loc=loc)
                for i, node in idxs:
                    n_idx += 1
                    gid = t.value_group(i)
                    construct = f'{construct0}/value[{i}]'
                    if gid is None:
                        run.bad('C02.R1', construct, 'index-out-of-range', f'self.value[{i}] is beyond the groups of {tname}', loc=loc)
                        continue
                    role = group_role(rx, gid)
                    want = {'title': ('TITLE_Q', 'TITLE_B'), 'column': ('COL',), 'row': ('ROW',)}[fld]
                    if role not in want:
                        extra = ' (this group includes the $ marker: int() of it fails)' if role == 'ROW$' else \
                            ' (this group includes the quotes / the !)' if role in ('TITLE_WRAP', 'PREFIX') else ''
                        run.bad('C02.R1', construct, f'group-role:{role}',
                                f'self.value[{i}] is capture group {gid - 1} of the token pattern, whose role is {role}; the {fld} of '
                                f'the {which} cell needs {"/".join(want)}{extra}', loc=loc)
                        continue
                    if fld != 'title' and which in ('start', 'end'):
                        side, refs = _colon_side(rx, gid)
                        ok = side == which
                        if not ok and which == 'end' and side == 'start':
                            # legitimate when the end side of that alternative is a back-reference to this group (or to a group
                            # that encloses it): same column / same row
                            encl = set(rx.group_ctx[gid]['chain']) | {gid}
                            ok = bool(refs & encl)
                        if not ok:
                            run.bad('C02.R1', construct, f'side:{side}',
                                    f'the {fld} of the {which} cell is taken from group {gid - 1}, which lies on the {side} side of the '
                                    f'colon (and is not back-referenced on the end side)', loc=loc)
                            continue
                    run.ok('C02.R1', construct, f'group {gid - 1} role {role}', loc=loc)
    if n_idx < 20:
        raise AnalysisError('C02.R1', f'only {n_idx} index uses analysed')


def _excel_env(src):
    return {'self._data': Level(SHEET), 'self._sheets_size': Sizes(0)}


def _handle_cell_roles(run, src, fields, report):
    from .common import inlined_function as _inl_hc
    fi = _inl_hc(src, 'handle_cell')
    rc = RoleChecker(fi.node, {fi.params[0]: CellR('text')}, fields, qual=fi.qualname).run()
    # the stored values
    finals = {k: v for k, v in rc.env.items() if isinstance(k, str) and k.startswith(fi.params[0] + '.')}
    want = {'title': None, 'column': Role(COL, 0), 'row': Role(ROW, 0)}
    for fld in ('column', 'row'):
        got = finals.get(f'{fi.params[0]}.{fld}')
        if got is None:
            # assigned under an `if`: look at the assignments directly
            got = _last_assigned(fi.node, fld, rc, fi.params[0], fields)
        run.check(got == want[fld], 'C02.R2', f'handle_cell/{fld}', 'normalised-base',
                  f'handle_cell stores {got!r} in cell.{fld}; the workbook data is indexed 0-based: expected {want[fld]!r} '
                  f'(letters -> column_index_from_string - 1, digits -> int - 1)', fact=f'{got!r}', loc=loc_of(fi.module.path, fi.node))
    report(rc, fi, 'text coordinates to 0-based')
    # empty row text -> None (whole column)
    def yields_none(e):
        return (isinstance(e, ast.Constant) and e.value is None) or \
            (isinstance(e, ast.IfExp) and (yields_none(e.body) or yields_none(e.orelse)))
    has_none = any(isinstance(st, ast.Assign) and yields_none(st.value) and
                   any(isinstance(t, ast.Attribute) and t.attr == 'row' for t in st.targets) for st in ast.walk(fi.node))
    run.check(has_none, 'C02.R2', 'handle_cell/whole-column', 'whole-column-row', 'an empty row text is not turned into None '
              '(whole column)', fact='row None for A:A', loc=loc_of(fi.module.path, fi.node))



def r2(run: Run, src):
    fields = cell_field_order(src)
    checked = 0

    def report(rc: RoleChecker, fi, what):
        nonlocal checked
        checked += rc.sinks
        if not rc.clashes:
            run.ok('C02.R2', f'{fi.qualname}', f'{rc.sinks} role sink(s) consistent ({what})', loc=loc_of(fi.module.path, fi.node))
        for c in rc.clashes:
            run.bad('C02.R2', f'{fi.qualname}', f'{c.kind}:{_short(c.node)}', c.msg, loc=loc_of(fi.module.path, c.node))

    # handle_cell: text -> 0-based.  Decided by evaluation (r3_eval); the role reading below is the fallback
    hc_by_eval = True
    try:
        sub_ = Run('tmp', run.tier, run.seed, quiet=True)
        r3_eval(sub_, src)
        for o_ in sub_.obligations:
            if o_['verdict'] == 'holds':
                run.ok('C02.R2', o_['construct'], o_['fact'], loc=o_['loc'])
        for f_ in sub_.findings:
            run.bad('C02.R2', f_['construct'], f_['sub'], f_['message'], loc=f_['loc'])
    except AnalysisError:
        hc_by_eval = False
    if not hc_by_eval:
        _handle_cell_roles(run, src, fields, report)
    # Cell.uid order: by evaluation; the structural reading is the fallback
    from .common import check_uid
    try:
        check_uid(run, 'C02.R2', src)
    except AnalysisError:
        uid = src.cls('Cell').methods.get('uid')
        lists = [n for n in ast.walk(uid.node) if isinstance(n, ast.List) and len(n.elts) == 3 and
                 all(isinstance(e, ast.Attribute) for e in n.elts)]
        ok = bool(lists) and [e.attr for e in lists[0].elts] == ['title', 'column', 'row']
        run.check(ok, 'C02.R2', 'Cell.uid/order', 'uid-order',
                  f'the member name is built from {[e.attr for e in lists[0].elts] if lists else "?"}; every consumer (executor, context) '
                  f'relies on title, column, row', fact='title, column, row', loc=loc_of(uid.module.path, uid.node))


    ex = src.cls('Excel')
    env0 = _excel_env(src)

    def run_method(name, params: dict, what):
        fi = ex.methods.get(name)
        if fi is None:
            raise AnalysisError('C02.R2', f'Excel.{name} not found')
        env = dict(env0)
        env.update(params)
        # helpers of the class that the method delegates to (e.g. a `_read_value(title, column, row)`) are analysed in place
        from ..inline import inline_methods, class_resolver
        stubs = {'_fill_cell', '_get_vertical_range', '_get_horizontal_range', '_get_matrix', 'fill_cell', 'get_range', 'get_matrix',
                 'get_cells', 'get_similar_second', '_handle_cell'}
        node = inline_methods(fi.node, class_resolver(src, ex, fi), depth=2, exclude=stubs)
        rc = RoleChecker(node, env, fields, self_attrs=env0, qual=fi.qualname)
        rc.env[('call', '_fill_cell')] = lambda r, node, args, kwargs: args[0] if args else None
        rc.env[('call', '_get_vertical_range')] = lambda r, node, args, kwargs: Iter(CellR('0'))
        rc.env[('call', '_get_horizontal_range')] = lambda r, node, args, kwargs: Iter(CellR('0'))
        rc.env[('call', '_get_matrix')] = lambda r, node, args, kwargs: Iter(Iter(CellR('0')))
        rc.run()
        report(rc, fi, what)
        return rc, fi

    # which cells an area consists of: decided by evaluation of the reader on a small sheet; the role reading of the individual
    # methods is the fallback when the abstraction cannot follow them
    areas_by_eval = True
    try:
        sub_a = Run('tmp', run.tier, run.seed, quiet=True)
        r2_eval_areas(sub_a, src)
        for o_ in sub_a.obligations:
            if o_['verdict'] == 'holds':
                run.ok('C02.R2', o_['construct'], o_['fact'], loc=o_['loc'])
                checked += 2
        for f_ in sub_a.findings:
            run.bad('C02.R2', f_['construct'], f_['sub'], f_['message'], loc=f_['loc'])
            checked += 2
    except AnalysisError as e_a:
        run.note(f'C02.R2 area evaluation skipped: {e_a.reason[:100]}')
        areas_by_eval = False
    if not areas_by_eval:
        run_method('_fill_cell', {'cell': CellR('0')}, 'data[title][row][column] and three bounds tests')
        run_method('_get_vertical_range', {'first': CellR('0'), 'second': CellR('0')}, 'rows of one column')
        run_method('_get_horizontal_range', {'first': CellR('0'), 'second': CellR('0')}, 'columns of one row')
        rc, fi = run_method('_get_matrix', {'first': CellR('0'), 'second': CellR('0')}, 'rows outer, columns inner')
        # outer loop rows, inner loop columns
        fors = [n for n in ast.walk(fi.node) if isinstance(n, ast.For)]
        nest = [(f, [g for g in ast.walk(f) if isinstance(g, ast.For) and g is not f]) for f in fors]
        outer = [f for f, inner in nest if inner]
        ok = False
        if len(outer) == 1:
            o_it = ast.unparse(outer[0].iter)
            i_it = ast.unparse(nest[[f for f, _ in nest].index(outer[0])][1][0].iter)
            ok = '.row' in o_it and '.column' in i_it and '.column' not in o_it and '.row' not in i_it
        elif not fors:
            # nested comprehension: [[cell for column in columns] for row in rows] -- the outer list is built by the comprehension
            # whose element is the inner list
            comps = [c for c in ast.walk(fi.node) if isinstance(c, ast.ListComp) and isinstance(c.elt, ast.ListComp) and
                     len(c.generators) == 1 and len(c.elt.generators) == 1]
            if len(comps) == 1:
                o_it = ast.unparse(comps[0].generators[0].iter)
                i_it = ast.unparse(comps[0].elt.generators[0].iter)
                ok = '.row' in o_it and '.column' in i_it and '.column' not in o_it and '.row' not in i_it
            else:
                raise AnalysisError('C02.R2', '_get_matrix: neither nested loops nor a nested comprehension')
        run.check(ok, 'C02.R2', 'Excel._get_matrix/loop-order', 'column-major',
                  'the rectangular area is not enumerated with rows in the outer loop and columns in the inner loop (row-major order)',
                  fact='rows outer, columns inner', loc=loc_of(fi.module.path, fi.node))
        run_method('get_matrix', {'first': CellR('0'), 'second': CellR('0')}, 'whole-column branches')
        run_method('get_range', {'first': CellR('0'), 'second': CellR('0')}, 'straight-line test')
    similar_by_eval = True
    try:
        sub_ = Run('tmp', run.tier, run.seed, quiet=True)
        similar_eval(sub_, 'C02.R2', src)
        for o_ in sub_.obligations:
            if o_['verdict'] == 'holds':
                run.ok('C02.R2', o_['construct'], o_['fact'], loc=o_['loc'])
        for f_ in sub_.findings:
            run.bad('C02.R2', f_['construct'], f_['sub'], f_['message'], loc=f_['loc'])
    except AnalysisError as e_:
        similar_by_eval = False
        run.note(f'C02.R2: the SUMIF target by roles ({e_.reason[:100]})')
    if not similar_by_eval:
        run_method('get_similar_second', {'base': CellR('0'), 'first': CellR('0'), 'second': CellR('0')}, 'base + (second - first) per axis')
    run_method('get_cells', {}, 'enumeration of the three data levels')
    if checked < 16:
        raise AnalysisError('C02.R2', f'only {checked} role sinks were analysed')
    # positional Cell(...) constructions anywhere else in the package use the dataclass order
    n = 0
    for f in src.functions.values():
        if f.cls is not None and f.cls.name in ('Excel',) or f.qualname in ('handle_cell',):
            continue
        for c in [x for x in ast.walk(f.node) if isinstance(x, ast.Call) and isinstance(x.func, ast.Name) and x.func.id == 'Cell']:
            n += 1
            if len(c.args) >= 2:
                # only names that carry their role in their spelling can be judged here
                for fld, a in zip(fields, c.args):
                    txt = ast.unparse(a).lower()
                    axis = 'row' if 'row' in txt and 'col' not in txt else 'column' if 'col' in txt and 'row' not in txt else \
                        'title' if ('title' in txt or 'sheet' in txt) else None
                    if axis and fld in ('title', 'column', 'row') and axis != fld:
                        run.bad('C02.R2', f'{f.qualname}/Cell(...)', f'positional-order:{fld}<-{axis}',
                                f'`{ast.unparse(c)[:80]}` passes a {axis} value as the positional {fld} argument (the dataclass order '
                                f'is {", ".join(fields[:3])})', loc=loc_of(f.module.path, c))
            run.ok('C02.R2', f'{f.qualname}/Cell(...)@{c.lineno}', 'construction checked', nontrivial=False,
                   loc=loc_of(f.module.path, c))


def _short(node):
    try:
        return ast.unparse(node)[:40].replace('\n', ' ')
    except Exception:
        return type(node).__name__


def _last_assigned(fn, fld, rc, param, fields):
    """role of the last non-None value assigned to <param>.<fld> anywhere in the function"""
    out = None
    for st in ast.walk(fn):
        if isinstance(st, ast.Assign) and any(isinstance(t, ast.Attribute) and t.attr == fld and isinstance(t.value, ast.Name) and
                                              t.value.id == param for t in st.targets):
            if isinstance(st.value, ast.Constant) and st.value.value is None:
                continue
            sub = RoleChecker(fn, {param: CellR('text')}, fields)
            out = sub.ev(st.value)
    return out


def r3(run: Run, src):
    from .common import inlined_function as _inl_hc
    fi = _inl_hc(src, 'handle_cell')
    fn = fi.node
    cellp, titles = fi.params[0], fi.params[1]
    # the only store to <cell>.title is a subscript of the title map keyed by the title itself
    stores = [st for st in ast.walk(fn) if isinstance(st, ast.Assign) and any(
        isinstance(t, ast.Attribute) and t.attr == 'title' for t in st.targets)]
    if not stores:
        raise AnalysisError('C02.R3', 'handle_cell never stores a sheet index')
    from .common import strict_get_lookup
    strict_names = set()
    for g_ in ast.walk(fn):
        if isinstance(g_, ast.Call) and isinstance(g_.func, ast.Attribute) and g_.func.attr == 'get' and \
                isinstance(g_.func.value, ast.Name) and g_.func.value.id == titles and g_.args and \
                ast.unparse(g_.args[0]) == f'{cellp}.title':
            nm = strict_get_lookup(src, fi, g_)
            if nm:
                strict_names.add(nm)
    for st in stores:
        v = st.value
        ok = isinstance(v, ast.Subscript) and isinstance(v.value, ast.Name) and v.value.id == titles and \
            ast.unparse(v.slice) == f'{cellp}.title'
        ok = ok or (isinstance(v, ast.Name) and v.id in strict_names)     # titles.get(title, SENTINEL) + `is SENTINEL: raise`
        run.check(ok, 'C02.R3', f'handle_cell/`{ast.unparse(st)[:50]}`', 'loose-title-resolution',
                  f'the sheet index is computed as `{ast.unparse(v)[:60]}`: a title written in a formula must resolve through the '
                  f'title map only (no default sheet, no numeric interpretation, no fallback)', fact='titles[cell.title]',
                  loc=loc_of(fi.module.path, st))
    # the store is guarded by isinstance(title, str) only (no additional escape hatch such as isdigit())
    from ..paths import path_conditions, parent_map
    parents = parent_map(fn)
    for st in stores:
        conds = path_conditions(fn, st, parents)
        extra = [ast.unparse(t) for t, pol in conds if 'isinstance' not in ast.unparse(t) and 'has_handled' not in ast.unparse(t)
                 and ' in ' not in ast.unparse(t) and not any(ast.unparse(t).startswith(f'{nm} is ') for nm in strict_names)]
        run.check(not extra, 'C02.R3', 'handle_cell/title-guard', 'conditional-title-resolution',
                  f'the title lookup is additionally conditioned on {extra}: some str titles bypass the title map',
                  fact='every str title goes through the map', loc=loc_of(fi.module.path, st))
    # str titles that skip the lookup: any branch that tests the title text (isdigit, startswith, ...) is an escape hatch
    for n in ast.walk(fn):
        if isinstance(n, ast.Call) and isinstance(n.func, ast.Attribute) and ast.unparse(n.func.value) == f'{cellp}.title' and \
                n.func.attr in ('isdigit', 'isnumeric', 'isdecimal', 'startswith', 'lower', 'upper', 'strip'):
            run.bad('C02.R3', f'handle_cell/{cellp}.title.{n.func.attr}()', 'title-text-inspected',
                    f'handle_cell inspects/transforms the title text ({n.func.attr}) before resolving it: titles that differ only in '
                    f'that respect resolve to another sheet', loc=loc_of(fi.module.path, n))
        if isinstance(n, ast.Call) and isinstance(n.func, ast.Name) and n.func.id == 'int' and n.args and \
                ast.unparse(n.args[0]) == f'{cellp}.title':
            run.bad('C02.R3', 'handle_cell/int(title)', 'title-as-index',
                    'a str title is converted to a sheet index: a worksheet whose title is all digits can no longer be addressed',
                    loc=loc_of(fi.module.path, n))


def _area_evaluator(src, data_rows):
    """an evaluator of the Excel reader class on a small workbook: self._data = data_rows, modelled Cell objects"""
    from ..finite import Evaluator, AV, const_av
    ex = src.cls('Excel')
    members = {n: m.node for n, m in ex.methods.items()}
    ev = Evaluator(members, max_depth=12)
    hc = src.func('handle_cell')
    ev.functions = {st.name: st for st in hc.module.tree.body if isinstance(st, ast.FunctionDef)}
    for st in ex.module.tree.body:
        if isinstance(st, ast.FunctionDef):
            ev.functions.setdefault(st.name, st)
    fields = cell_field_order(src)

    def lst(x):
        return AV('list', items=tuple(lst(y) for y in x)) if isinstance(x, list) else const_av(x)

    def make_cell(args, kwargs):
        vals = dict(zip(fields, args))
        vals.update(kwargs)
        at = {'title': vals.get('title', const_av(None)), 'column': vals.get('column', const_av(None)),
              'row': vals.get('row', const_av(None)), 'value': vals.get('value', const_av(None)), '_handled_identifiers': const_av(False),
              'uid': const_av('_uid')}
        cell = ev.new_obj('Cell', at)
        real = ev.obj_attrs(cell)
        real['has_handled_identifiers'] = AV('func', val=('native', lambda a, real=real: real['_handled_identifiers']))
        return cell
    ev.constructors = {'Cell': make_cell}
    titles = AV('dict', items=(AV('tuple', items=(const_av('S0'), const_av(0))), AV('tuple', items=(const_av('S1'), const_av(1)))))
    me = ev.new_obj('Excel', {'_data': lst(data_rows), '_titles': titles})
    return ev, me, make_cell


def similar_eval(run: Run, rule: str, src):
    """the last cell of a SUMIF target, decided by abstract evaluation (engine F) of the reader method that takes the first cell
    of the target and the two corners of the criteria range: the target has the shape of the criteria range and lies where --
    and on the sheet where -- its first cell is"""
    from ..finite import const_av, Unknown, AbsRaise
    ex = src.cls('Excel')
    cands = [n for n, m in ex.methods.items() if len([p for p in m.params if p not in ('self', 'cls')]) == 3 and 'similar' in n]
    if not cands:
        cands = [n for n, m in ex.methods.items() if len([p for p in m.params if p not in ('self', 'cls')]) == 3 and not n.startswith('_')]
    if len(cands) != 1:
        raise AnalysisError(rule, f'the reader method that places a SUMIF target was not identified ({cands})')
    name = cands[0]
    cases = [((1, 1, 0), (0, 0, 0), (0, 0, 4), (1, 1, 4), 'target on another sheet'), ((0, 2, 1), (0, 0, 1), (0, 1, 3), (0, 3, 3), 'a 2x3 criteria range'),
             ((0, 5, 5), (0, 1, 1), (0, 1, 1), (0, 5, 5), 'a one-cell criteria range'), ((1, 1, None), (0, 0, None), (0, 0, None), (1, 1, None), 'whole columns'),
             ((0, 0, 0), (0, 3, 2), (0, 4, 6), (0, 1, 4), 'target left of and above the criteria range')]
    data = [[[0] * 8 for _ in range(8)], [[0] * 8 for _ in range(8)]]
    for base, first, second, want, what in cases:
        ev, me, make_cell = _area_evaluator(src, data)
        args = [make_cell([const_av(x) for x in c], {}) for c in (base, first, second)]
        construct = f'Excel.{name}/{what}'
        try:
            res = ev.call_method(name, args, me)
            cells = [res] if res.kind == 'obj' else list(res.items or ())
            if not cells or cells[-1].kind != 'obj':
                raise Unknown('a result that is not a cell')
            at = ev.obj_attrs(cells[-1])
            got = tuple(None if at[k].kind == 'none' else at[k].val for k in ('title', 'column', 'row'))
            if len(cells) == 2:
                at0 = ev.obj_attrs(cells[0])
                got0 = tuple(None if at0[k].kind == 'none' else at0[k].val for k in ('title', 'column', 'row'))
                if got0 != base:
                    got = ('first corner', got0)
        except Unknown as u:
            raise AnalysisError(rule, f'{construct}: the abstraction cannot follow the reader ({u})')
        except AbsRaise as e:
            got = f'raises {e.exc}'
        run.check(got == want, rule, construct, 'sumif-target',
                  f'for a target starting at (sheet, column, row) {base} and the criteria range {first}..{second} ({what}) the target ends at '
                  f'{got}; it has the shape of the criteria range and lies on the sheet of its first cell: {want}', fact=f'-> {got}',
                  loc=loc_of(ex.module.path, ex.methods[name].node))


def r2_eval_areas(run: Run, src):
    """which cells an area consists of, decided by abstract evaluation (engine F) of the reader on a 3x3 sheet: rows and columns
    up to and including the second corner, row-major, whole columns over every stored row, straight ranges in order"""
    from ..finite import const_av, Unknown, AbsRaise
    ex = src.cls('Excel')
    data = [[[1, 2, 3], [4, 5, 6], [7, 8, 9]], [[10]], [[1, 2, 3], [4, 5, None], [7, None, None], [None, None, None]],
            [[1, 2, 3], [4], [7, 8, 9]]]

    def values(v):
        if v.kind == 'obj':
            return None           # filled below
        return None
    cases = [('get_matrix', (0, 0, 0), (0, 1, 1), [[1, 2], [4, 5]], 'A1:B2'), ('get_matrix', (0, 1, 0), (0, 2, 2), [[2, 3], [5, 6], [8, 9]], 'B1:C3'),
             ('get_matrix', (0, 0, 2), (0, 2, 2), [[7, 8, 9]], 'A3:C3'), ('get_matrix', (0, 0, None), (0, 1, None), [[1, 2], [4, 5], [7, 8]], 'A:B'),
             ('get_matrix', (0, 2, None), (0, 2, None), [[3], [6], [9]], 'C:C'), ('get_matrix', (1, 0, 0), (1, 0, 0), [[10]], 'second sheet A1:A1'),
             ('get_range', (0, 1, 0), (0, 1, 2), [2, 5, 8], 'B1:B3'), ('get_range', (0, 0, 1), (0, 2, 1), [4, 5, 6], 'A2:C2'),
             ('get_range', (0, 2, None), (0, 2, None), [3, 6, 9], 'C:C as a range'),
             # columns filled to different heights: a whole column still has one cell per row of the sheet
             ('get_matrix', (2, 0, None), (2, 2, None), [[1, 2, 3], [4, 5, None], [7, None, None], [None, None, None]], 'A:C on a ragged sheet'),
             ('get_matrix', (2, 2, None), (2, 2, None), [[3], [None], [None], [None]], 'C:C on a ragged sheet'),
             ('get_range', (2, 1, None), (2, 1, None), [2, 5, None, None], 'B:B on a ragged sheet as a range'),
             ('get_range', (2, 0, None), (2, 0, None), [1, 4, 7, None], 'A:A on a ragged sheet as a range'),
             # rows stored with different lengths: the cells a short row does not have are blank cells of the area
             ('get_matrix', (3, 0, 0), (3, 2, 2), [[1, 2, 3], [4, None, None], [7, 8, 9]], 'A1:C3 across a short row'),
             ('get_matrix', (3, 1, 0), (3, 2, 1), [[2, 3], [None, None]], 'B1:C2 across a short row'),
             ('get_range', (3, 2, 0), (3, 2, 2), [3, None, 9], 'C1:C3 across a short row')]
    for fn_name, a, b, want, what in cases:
        if fn_name not in ex.methods:
            raise AnalysisError('C02.R2', f'Excel.{fn_name} not found')
        ev, me, make_cell = _area_evaluator(src, data)
        first = make_cell([const_av(x) for x in a], {})
        second = make_cell([const_av(x) for x in b], {})
        construct = f'Excel.{fn_name}/{what}'
        try:
            res = ev.call_method(fn_name, [first, second], me)
        except Unknown as u:
            raise AnalysisError('C02.R2', f'{construct}: the abstraction cannot follow the reader ({u})')
        except AbsRaise as e:
            run.bad('C02.R2', construct, f'raises:{e.exc}', f'Excel.{fn_name} raises {e.exc} for {what} on a 3x3 sheet', loc=loc_of(ex.module.path, ex.methods[fn_name].node))
            continue

        def val(x):
            if x.kind == 'obj':
                v_ = ev.obj_attrs(x)['value']
                return None if v_.kind == 'none' else v_.val
            if x.items is not None:
                return [val(y) for y in x.items]
            return f'<{x.kind}>'
        got = val(res)
        run.check(got == want, 'C02.R2', construct, 'area-cells',
                  f'Excel.{fn_name} for {what} on the sheet [[1,2,3],[4,5,6],[7,8,9]] yields the cells {got}; the area consists of {want} '
                  f'(rows and columns up to and including the second corner, row-major)', fact=f'-> {got}',
                  loc=loc_of(ex.module.path, ex.methods[fn_name].node))


def r3_eval(run: Run, src):
    """address normalisation decided by abstract evaluation (engine F) of handle_cell on modelled Cell objects: text
    coordinates become 0-based indices, a title is resolved through the title table only (a digit-only title too), an unknown
    title is rejected, numbers pass unchanged, an empty row text means the whole column"""
    from ..finite import Evaluator, AV, const_av, Unknown, AbsRaise
    from .common import library_exceptions
    fi = src.func('handle_cell')
    lib = library_exceptions(src)
    titles = AV('dict', items=tuple(AV('tuple', items=(const_av(k), const_av(v))) for k, v in
                                    (('Sheet1', 0), ('Data', 1), ('2024', 2), ('7', 3))))

    def run_case(title, column, row):
        ev = Evaluator({}, max_depth=8)
        ev.functions = {st.name: st for st in fi.module.tree.body if isinstance(st, ast.FunctionDef)}
        cell = ev.new_obj('Cell', {'title': const_av(title), 'column': const_av(column), 'row': const_av(row),
                                   '_handled_identifiers': const_av(False)})
        at = ev.obj_attrs(cell)
        at['has_handled_identifiers'] = AV('func', val=('native', lambda a, at=at: at['_handled_identifiers']))
        # what the Cell class itself does to its fields when it is created
        cell_ci = src.cls('Cell')
        for hook_name in ('__post_init__',):
            hk = cell_ci.methods.get(hook_name)
            if hk is not None:
                ev.call_function(hk.node, [cell])
        ev.call_function(fi.node, [cell, titles])
        return tuple(at[k].val if at[k].kind != 'none' else None for k in ('title', 'column', 'row'))
    cases = [(('Data', 'C', '5'), (1, 2, 4), 'text address'), (('Sheet1', 'A', '1'), (0, 0, 0), 'first cell'),
             (('Data', 'AA', '10'), (1, 26, 9), 'two-letter column'), (('Data', 'XFD', '1048576'), (1, 16383, 1048575), 'last cell'),
             ((1, 2, 4), (1, 2, 4), 'numeric address'), (('Data', 'B', ''), (1, 1, None), 'whole column'),
             (('2024', 'A', '1'), (2, 0, 0), 'sheet titled with digits'), (('7', 'B', '2'), (3, 1, 1), 'one-digit sheet title'),
             (('Nope', 'A', '1'), 'rejected', 'unknown title'), (('5', 'A', '1'), 'rejected', 'digit title that does not exist')]
    for (t, c, r), want, what in cases:
        construct = f'handle_cell/{what}'
        try:
            got = run_case(t, c, r)
        except Unknown as u:
            raise AnalysisError('C02.R3', f'{construct}: the abstraction cannot follow handle_cell ({u})')
        except AbsRaise as e:
            got = 'rejected' if e.exc in lib else f'raises {e.exc}'
        run.check(got == want, 'C02.R3', construct, 'address-normalisation',
                  f'handle_cell on Cell({t!r}, {c!r}, {r!r}) with the titles Sheet1, Data, 2024, 7 gives {got!r}; expected {want!r} '
                  f'(title through the title table only, letters and digits to 0-based indices, empty row = whole column)',
                  fact=f'-> {got!r}', loc=loc_of(fi.module.path, fi.node))


def r3_both(run: Run, src):
    """decided by evaluation; the structural reading is the fallback when the abstraction cannot follow the function"""
    try:
        sub = Run('tmp', run.tier, run.seed, quiet=True)
        r3_eval(sub, src)
    except AnalysisError as e:
        run.note(f'C02.R3 evaluation skipped: {e.reason[:120]}')
        return r3(run, src)
    for o in sub.obligations:
        if o['verdict'] == 'holds':
            run.ok(o['rule'], o['construct'], o['fact'], loc=o['loc'])
    for f in sub.findings:
        run.bad(f['rule'], f['construct'], f['sub'], f['message'], loc=f['loc'])


def r4_r5(run: Run, src):
    ex = src.cls('Excel')
    fi = ex.methods.get('get_matrix')
    if fi is None:
        raise AnalysisError('C02.R4', 'Excel.get_matrix not found')
    # every branch returns rows of cells: decided by evaluation (the get_matrix cases of r2_eval_areas cover the rectangular, the
    # one-column and the several-column branch); the shape reading below is the fallback
    shapes_by_eval = True
    try:
        sub_s = Run('tmp', run.tier, run.seed, quiet=True)
        r2_eval_areas(sub_s, src)
        for o_ in sub_s.obligations:
            if o_['verdict'] == 'holds' and 'get_matrix' in o_['construct']:
                run.ok('C02.R4', o_['construct'], o_['fact'], loc=o_['loc'])
        for f_ in sub_s.findings:
            if 'get_matrix' in f_['construct']:
                run.bad('C02.R4', f_['construct'], f_['sub'], f_['message'], loc=f_['loc'])
    except AnalysisError:
        shapes_by_eval = False
    rets = sorted([n for n in ast.walk(fi.node) if isinstance(n, ast.Return) and n.value is not None], key=lambda n: n.lineno)
    if shapes_by_eval:
        rets = []
    elif len(rets) < 2:
        raise AnalysisError('C02.R4', 'get_matrix has fewer than two return branches')
    assigned = {}
    for st in ast.walk(fi.node):
        if isinstance(st, ast.Assign) and isinstance(st.targets[0], ast.Name):
            assigned[st.targets[0].id] = st.value
    # a list that is filled by one append in one loop is read as the comprehension it spells out
    for lp in [n for n in ast.walk(fi.node) if isinstance(n, ast.For)]:
        apps = [c for c in ast.walk(lp) if isinstance(c, ast.Call) and isinstance(c.func, ast.Attribute) and c.func.attr == 'append' and
                isinstance(c.func.value, ast.Name) and len(c.args) == 1]
        if len(apps) == 1 and isinstance(assigned.get(apps[0].func.value.id), ast.List) and not assigned[apps[0].func.value.id].elts:
            assigned[apps[0].func.value.id] = ast.ListComp(elt=apps[0].args[0], generators=[
                ast.comprehension(target=lp.target, iter=lp.iter, ifs=[], is_async=0)])
    for r in rets:
        v = r.value
        shape = _shape_of(v, assigned)
        run.check(shape == 'rows', 'C02.R4', f'Excel.get_matrix/return `{ast.unparse(v)[:50]}`', f'shape:{shape}',
                  f'this branch of get_matrix returns {_shape_words(shape)}; every area must be a list of rows (row-major), as the '
                  f'rectangular branch returns', fact='list of rows', loc=loc_of(fi.module.path, r))
    # R5: the extent never depends on cell contents
    for name in ('_get_vertical_range', '_get_horizontal_range', '_get_matrix', 'get_matrix', 'get_range', 'get_similar_second'):
        m = ex.methods.get(name)
        if m is None:
            continue
        bad = []
        for n in ast.walk(m.node):
            if isinstance(n, ast.Attribute) and n.attr == 'value' and isinstance(n.ctx, ast.Load):
                bad.append(n)
            if isinstance(n, ast.Subscript) and isinstance(n.ctx, ast.Load) and isinstance(n.value, ast.Subscript) and \
                    isinstance(n.value.value, ast.Subscript) and '_data' in ast.unparse(n):
                bad.append(n)
            if isinstance(n, (ast.For, ast.comprehension)) and '_data' in ast.unparse(n.iter) and 'range' not in ast.unparse(n.iter):
                bad.append(n.iter)
        run.check(not bad, 'C02.R5', f'Excel.{name}', 'extent-depends-on-content',
                  f'{name} reads cell contents (`{ast.unparse(bad[0])[:50] if bad else ""}`) while enumerating an area: which cells '
                  f'belong to a reference must depend on coordinates and sheet sizes only', fact='coordinates and len() only',
                  loc=loc_of(m.module.path, bad[0] if bad else m.node))


def _shape_words(s):
    return {'rows': 'a list of rows', 'columns': 'one list per column (column-major)', 'flat': 'a flat list of cells',
            'unknown': 'a shape the analysis cannot classify'}.get(s, s)


def _shape_of(v, assigned, depth=0):
    """'rows' | 'columns' | 'flat' | 'unknown' for the value returned by a get_matrix branch"""
    if depth > 4:
        return 'unknown'
    if isinstance(v, ast.Name) and v.id in assigned:
        return _shape_of(assigned[v.id], assigned, depth + 1)
    txt = ast.unparse(v)
    if isinstance(v, ast.Call) and isinstance(v.func, ast.Attribute) and v.func.attr == '_get_matrix':
        return 'rows'
    if isinstance(v, ast.Call) and isinstance(v.func, ast.Attribute) and v.func.attr in ('_get_vertical_range', '_get_horizontal_range'):
        return 'flat'
    if isinstance(v, (ast.ListComp, ast.GeneratorExp)):
        elt = v.elt
        it = v.generators[0].iter
        # [[c] for c in vertical]  -> rows of one cell
        if isinstance(elt, ast.List) and len(elt.elts) == 1 and _shape_of(it, assigned, depth + 1) == 'flat':
            return 'rows'
        # [list(row) for row in zip(*columns)] -> transposition of columns
        if isinstance(it, ast.Call) and isinstance(it.func, ast.Name) and it.func.id == 'zip' and it.args and \
                isinstance(it.args[0], ast.Starred):
            inner = _shape_of(it.args[0].value, assigned, depth + 1)
            return {'columns': 'rows', 'rows': 'columns'}.get(inner, 'unknown')
        # [vertical_range(col) for col in range(first.column, ...)] -> one list per column
        if isinstance(elt, ast.Call) and isinstance(elt.func, ast.Attribute) and elt.func.attr == '_get_vertical_range':
            return 'columns'
        if isinstance(elt, ast.Call) and isinstance(elt.func, ast.Attribute) and elt.func.attr == '_get_horizontal_range':
            return 'rows'
        return 'unknown'
    if isinstance(v, ast.Call) and isinstance(v.func, ast.Name) and v.func.id == 'list' and v.args:
        a = v.args[0]
        if isinstance(a, ast.Call) and isinstance(a.func, ast.Name) and a.func.id in ('zip', 'map') and a.args:
            star = [x for x in a.args if isinstance(x, ast.Starred)]
            if a.func.id == 'zip' and star:
                inner = _shape_of(star[0].value, assigned, depth + 1)
                return {'columns': 'rows', 'rows': 'columns'}.get(inner, 'unknown')
            if a.func.id == 'map' and len(a.args) == 2 and isinstance(a.args[1], ast.Call):
                z = a.args[1]
                if isinstance(z.func, ast.Name) and z.func.id == 'zip' and z.args and isinstance(z.args[0], ast.Starred):
                    inner = _shape_of(z.args[0].value, assigned, depth + 1)
                    return {'columns': 'rows', 'rows': 'columns'}.get(inner, 'unknown')
        return _shape_of(a, assigned, depth + 1)
    return 'unknown'


def r8_fresh_parse(run: Run, src):
    """tokens remember the cell they were lexed in (in_cell) and resolve un-prefixed references on its sheet: the tree a cell is
    translated from must be lexed and parsed for that very cell, never taken from a store shared between cells"""
    from .common import normalized_method
    fi, fn = normalized_method(src, 'CellTranslator', '_set_cell_to_context')
    cellp = fi.params[0] if fi.params and fi.params[0] not in ('cls', 'self') else fi.params[1]
    loc = loc_of(fi.module.path, fi.node)

    def assignments(name):
        out = []
        for n in ast.walk(fn):
            if isinstance(n, ast.Assign) and any(isinstance(t, ast.Name) and t.id == name for t in n.targets):
                out.append(n.value)
            elif isinstance(n, ast.NamedExpr) and n.target.id == name:
                out.append(n.value)
            elif isinstance(n, (ast.AnnAssign, ast.AugAssign)) and isinstance(n.target, ast.Name) and n.target.id == name and \
                    n.value is not None:
                out.append(n.value)
        return out

    def is_cell(e):
        if isinstance(e, ast.Name) and e.id == cellp:
            return True
        if isinstance(e, ast.Name):
            ds = assignments(e.id)
            return bool(ds) and all(is_cell(d) for d in ds)
        return False

    def in_cell_ok(call):
        kw = {k.arg: k.value for k in call.keywords}
        v = kw.get('in_cell', call.args[1] if len(call.args) > 1 else None)
        return v is not None and is_cell(v)

    def cell_text(e):
        if isinstance(e, ast.Attribute) and e.attr == 'value' and is_cell(e.value):
            return True
        if isinstance(e, ast.Name):
            ds = assignments(e.id)
            return bool(ds) and all(cell_text(d) for d in ds)
        return False

    def fresh(e, producer, depth=0):
        """None when e is, on every definition, a call of <producer>.parse for this cell; else the offending expression"""
        if depth > 6:
            return e
        if isinstance(e, ast.Name):
            ds = assignments(e.id)
            if not ds:
                return e
            for d in ds:
                bad = fresh(d, producer, depth + 1)
                if bad is not None:
                    return bad
            return None
        if isinstance(e, ast.Call) and ast.unparse(e.func) == f'{producer}.parse':
            if not in_cell_ok(e):
                return e
            if producer == 'AstBuilder':
                return fresh(e.args[0], 'Lexer', depth + 1) if e.args else e
            return None if e.args and cell_text(e.args[0]) else e
        return e
    sites = [n for n in ast.walk(fn) if isinstance(n, ast.Call) and isinstance(n.func, ast.Attribute) and n.func.attr == 'translate' and
             isinstance(n.func.value, ast.Name) and n.func.value.id.endswith('TokenTranslator') and n.args]
    if not sites:
        raise AnalysisError('C02.R8', 'the call that translates the syntax tree of a formula cell was not found')
    for sct in sites:
        bad = fresh(sct.args[0], 'AstBuilder')
        run.check(bad is None, 'C02.R8', f'CellTranslator/{ast.unparse(sct.func)}', 'tree-not-parsed-for-this-cell',
                  f'the syntax tree handed to `{ast.unparse(sct.func)}` can come from `{ast.unparse(bad)[:70] if bad is not None else ""}` '
                  f'instead of Lexer.parse / AstBuilder.parse of this cell\'s text with in_cell = this cell: tokens keep the cell they '
                  f'were lexed in and resolve un-prefixed references on ITS sheet, so a tree shared between cells (a memo keyed by the '
                  f'formula text, for instance) reads the first cell\'s sheet', fact='fresh Lexer.parse / AstBuilder.parse per cell',
                  loc=loc_of(fi.module.path, sct))


def run(run: Run):
    from .common import cached_guard as _cached_guard
    src = get_source()
    g = get_grammar(src)
    run.rule('C02.R1', 'regex group <-> Cell field agreement for the three reference terminals')
    run.rule('C02.R2', 'role and base flow text -> 0-based -> data indices, inclusive bounds, row-major loops')
    run.rule('C02.R3', 'strict sheet-title resolution')
    run.rule('C02.R4', 'every branch of get_matrix returns rows of cells')
    run.rule('C02.R5', 'the extent of an area depends on coordinates and sizes only')
    _cached_guard(run, 'C02.R1', r1_any, src, g)
    _cached_guard(run, 'C02.R2', r2, src)
    _cached_guard(run, 'C02.R3', r3_both, src)
    _cached_guard(run, 'C02.R4', r4_r5, src)
    # a title resolves to the right sheet only if the title list is index-aligned with the data: shared with C18.R2
    from .common import borrow
    from . import c18
    run.rule('C02.R6', 'title list, data and sizes are index-aligned per worksheet (shared with C18.R2)')
    borrow(run, 'C02.R6', c18.r2_any, src)
    from . import c03 as _c03x
    from .common import borrow as _bx
    from ..grammar import get_grammar as _ggx
    from ..emission import get_emission as _gex
    from ..callgraph import get_callgraph as _gcx
    from ..source import get_source as _gsx
    run.rule('C02.R9', 'every reference reads its cell through the member of the cell (minted by the context for a registered cell; shared with C03.R1/R2)')
    _sx = _gsx()
    _bx(run, 'C02.R9', _c03x.r1, _sx, _ggx(_sx), _gex(_sx), _gcx(_sx))
    _bx(run, 'C02.R9', _c03x.r2, _sx, _gcx(_sx))
    run.floor('C02.R9', 15)
    run.floor('C02.R6', 2)
    run.rule('C02.R7', 'the reader delivers every stored cell at its coordinate (stream not truncated; shared with C18.R1)')
    borrow(run, 'C02.R7', c18.r1_any, src)
    run.floor('C02.R7', 5)
    run.rule('C02.R8', 'the tree a cell is translated from is lexed and parsed for that very cell (in_cell = the cell)')
    _cached_guard(run, 'C02.R8', r8_fresh_parse, src)
    run.floor('C02.R8', 1)
    run.floor('C02.R1', 24)
    run.floor('C02.R2', 14)
    run.floor('C02.R3', 2)
    run.floor('C02.R4', 3)
    run.floor('C02.R5', 5)
    from .common import shared_mechanisms as _shared_f
    _shared_f(run, 'C02', 10, ['formulas', 'current-values'])
    return INFO
