"""C08 -- evaluation is pure and repeatable; all query APIs agree (DESIGN 3/C08)."""
from __future__ import annotations

import ast

from ..core import Run, AnalysisError, loc_of
from ..source import get_source
from ..runtime import get_runtime
from ..callgraph import get_callgraph, stores_of, fresh_locals
from ..paths import parent_map
from ..roles import RoleChecker, Role, Sizes, CellR, Level, SHEET, ROW, COL, cell_field_order
from .common import borrow

INFO = {
    'explanation': (
        'R1 no write effects on query paths: for Executor.get_cell/get_cells/get_sheet and everything they call inside the '
        'executor, and for every method of the runtime class (both copies; generated members may call any helper), the effect '
        'summary contains no store to self/class/module state and no in-place mutation of an object that aliases a parameter or '
        'self state. Allowed, each with its reason: the flush of pending overrides in get_cell (set_arguments + clearing the dirty '
        'flag; idempotent), writing the result into the caller\'s Cell and normalising it (documented API), mutation of lists the '
        'helper itself created (parameters re-bound to fresh lists count from that point on). R2 delegation: get_cells and '
        'get_sheet obtain every value through get_cell; get_sheet iterates range(last_row) x range(last_column) of the addressed '
        'sheet, rows outer (role analysis). R3 one normaliser: every public method that accepts cells passes each through '
        'handle_cell with the same title map before the uid is read; get_sheet resolves a title through the same map. R4 no value '
        'cache: no memo decorator and no uid-keyed store on the query path. Not decided: value equality across schedules (there is '
        'no state through which a schedule could matter, except time).'),
    'rule': 'one obligation per function on the query path / per delegation site',
    'trusted': ['aliasing is tracked one level: call results and literals are fresh, parameters and attributes are not'],
}

ALLOWED_EXECUTOR = {
    ('Executor.get_cell', 'cell.value'): 'documented API: the result is written into the caller\'s Cell',
    ('Executor._set_cells_to_executed_instance', 'self._cells_have_been_changed'): 'flush of pending overrides: clears the dirty flag',
}
RUNTIME_WRITERS = {'__init__', 'set_arguments'}


def _param_fresh_at(fn: ast.FunctionDef, name: str, lineno: int) -> bool:
    """a parameter that was re-bound to a fresh object before this line"""
    last = None
    for st in ast.walk(fn):
        tgts = []
        if isinstance(st, ast.Assign):
            for t in st.targets:
                if isinstance(t, ast.Name):
                    tgts.append((t.id, st.value))
                elif isinstance(t, ast.Tuple) and isinstance(st.value, ast.Tuple) and len(t.elts) == len(st.value.elts):
                    for a, b in zip(t.elts, st.value.elts):
                        if isinstance(a, ast.Name):
                            tgts.append((a.id, b))
        for n, v in tgts:
            if n == name and st.lineno < lineno and (last is None or st.lineno > last[0]):
                last = (st.lineno, v)
    if last is None:
        return False
    v = last[1]
    if isinstance(v, (ast.List, ast.ListComp, ast.Dict, ast.DictComp, ast.Set, ast.SetComp, ast.BinOp)):
        return True
    if isinstance(v, ast.Call):
        f = v.func
        if isinstance(f, ast.Attribute) and isinstance(f.value, ast.Name) and f.value.id == 'self' and \
                (f.attr.startswith('_flatten') or f.attr.startswith('_only') or f.attr.startswith('_when')):
            return True
        if isinstance(f, ast.Name) and f.id in ('list', 'sorted', 'dict', 'set', 'tuple', '_when_bool_cast_to_int'):
            return True
        if isinstance(f, ast.Name):
            return True
    return False


def _effects(fn: ast.FunctionDef):
    """stores that are visible outside the function"""
    params = {a.arg for a in fn.args.posonlyargs + fn.args.args + fn.args.kwonlyargs}
    out = []
    for st in stores_of(fn):
        if st.fresh:
            continue
        if st.kind in ('self-attr', 'cls-attr', 'global'):
            out.append(st)
        elif st.kind in ('obj-attr', 'subscript', 'mutating-call'):
            if st.base in ('self', 'cls'):
                out.append(st)
            elif st.base in params:
                if _param_fresh_at(fn, st.base, st.node.lineno):
                    continue
                out.append(st)
            else:
                # a local that is not fresh: aliases state or a parameter
                out.append(st)
    return out


def _flush_flags(ex) -> set:
    """attributes of the executor that only say whether overrides are pending: every store assigns a Boolean constant and every
    read is the test of a branch"""
    stores, reads, in_tests = {}, {}, {}
    for m in ex.methods.values():
        tests = set()
        for n in ast.walk(m.node):
            if isinstance(n, (ast.If, ast.IfExp, ast.While)):
                tests.update(id(x) for x in ast.walk(n.test))
        for n in ast.walk(m.node):
            if isinstance(n, ast.Attribute) and isinstance(n.value, ast.Name) and n.value.id == 'self':
                if isinstance(n.ctx, ast.Store):
                    stores.setdefault(n.attr, []).append(n)
                else:
                    reads.setdefault(n.attr, []).append(n)
                    in_tests.setdefault(n.attr, []).append(id(n) in tests)
    out = set()
    for attr, sts in stores.items():
        consts = True
        for m in ex.methods.values():
            for st in ast.walk(m.node):
                if isinstance(st, (ast.Assign, ast.AnnAssign)) and any(
                        isinstance(t, ast.Attribute) and t.attr == attr for t in (st.targets if isinstance(st, ast.Assign) else [st.target])):
                    if not (isinstance(st.value, ast.Constant) and isinstance(st.value.value, bool)):
                        consts = False
        if consts and reads.get(attr) and all(in_tests[attr]):
            out.add(attr)
    return out


def r1(run: Run, src, rt, cg):
    ex = src.cls('Executor')
    flags = _flush_flags(ex)
    entries = [ex.methods[n] for n in ('get_cell', 'get_cells', 'get_sheet') if n in ex.methods]
    if len(entries) != 3:
        raise AnalysisError('C08.R1', 'Executor.get_cell/get_cells/get_sheet not all found')
    reach = cg.reachable(entries)
    n = 0
    for key, (f, parent) in sorted(reach.items()):
        if f.cls is None or f.cls.name != 'Executor':
            continue        # the runtime copies are analysed below; handle_cell/Cell normalise the caller's cell (allowed)
        n += 1
        effs = _effects(f.node)
        bad = [st for st in effs if (f.qualname, st.target) not in ALLOWED_EXECUTOR]
        # clearing / raising the pending-overrides flag is bookkeeping of the flush (whether the flush happens when it must is
        # decided by the evaluated histories, C08.R2)
        bad = [st for st in bad if not (st.target.startswith('self.') and st.target[5:] in flags)]
        # the documented API: the result is written into the Cell the caller handed in (or into the Cell of the grid being built)
        bad = [st for st in bad if not (st.target.endswith('.value') and not st.target.startswith('self.') and st.target.count('.') == 1)]
        for st in bad:
            run.bad('C08.R1', f'{f.qualname}/{st.target}', 'query-writes-state',
                    f'{f.qualname} is on the query path ({" -> ".join(cg.path_to(reach, key)[-3:])}) and writes `{st.target}`: querying '
                    f'must not change overrides, sizes or titles', loc=loc_of(f.module.path, st.node))
        if not bad:
            run.ok('C08.R1', f.qualname, f'effects: {[st.target for st in effs] or "none"} (all allowed)', loc=loc_of(f.module.path, f.node))
    if n < 3:
        raise AnalysisError('C08.R1', 'query path inside the executor not found')
    # the flush is only reached under the dirty flag and calls set_arguments once
    gc = ex.methods['get_cell']
    flush_calls = [c for c in ast.walk(gc.node) if isinstance(c, ast.Call) and '_set_cells_to_executed_instance' in ast.unparse(c.func)]
    for c in flush_calls:
        from ..paths import path_conditions
        conds = [ast.unparse(t) for t, pol in path_conditions(gc.node, c, parent_map(gc.node)) if pol]
        run.check(any('changed' in x for x in conds), 'C08.R1', 'Executor.get_cell/flush-condition', 'unconditional-flush',
                  'the override flush runs on every query instead of only when overrides are pending', fact=f'under {conds}',
                  loc=loc_of(gc.module.path, c))
    # runtime methods (both copies)
    for cp in rt.copies():
        for name, fn in sorted(cp.members.items()):
            short = name.split('.')[-1]
            if short in RUNTIME_WRITERS and '.' not in name:
                continue
            effs = _effects(fn)
            for st in effs:
                run.bad('C08.R1', f'{name}[{cp.label}]/{st.target}', 'helper-writes-state',
                        f'the runtime method {name} writes `{st.target}`: evaluation of a cell must not leave traces (another query, or '
                        f'the same one repeated, could see them)', loc=cp.loc(st.node))
            if not effs:
                run.ok('C08.R1', f'{name}[{cp.label}]', 'no externally visible store', nontrivial=(len(fn.body) > 1), loc=cp.loc(fn))


def r2_r3(run: Run, src):
    """decided by evaluation of query / override histories on the executor as written; the structural reading is the fallback"""
    from . import executor_eval
    try:
        executor_eval.evaluate_histories(run, lambda h: 'C08.R3' if 'addressing' in h or 'a1' in h or 'apis' in h else 'C08.R2', src)
        run.extra['executor_by_evaluation'] = True
    except AnalysisError as e:
        run.notes.append(f'C08.R2/R3: executor by structure ({e})')
        _r2_r3_structural(run, src)


def _r2_r3_structural(run: Run, src):
    ex = src.cls('Executor')
    fields = cell_field_order(src)
    gcs = ex.methods['get_cells']
    rets = [n for n in ast.walk(gcs.node) if isinstance(n, ast.Return)]
    p = gcs.params[1]
    ok = len(rets) == 1 and isinstance(rets[0].value, ast.ListComp) and ast.unparse(rets[0].value.elt) == \
        f'self.get_cell({rets[0].value.generators[0].target.id})' and ast.unparse(rets[0].value.generators[0].iter) == p and \
        not rets[0].value.generators[0].ifs
    run.check(ok, 'C08.R2', 'Executor.get_cells/delegation', 'not-delegating',
              f'get_cells returns `{ast.unparse(rets[0].value)[:70] if rets else "?"}`; every value must come from get_cell, one per '
              f'requested cell, in order', fact='[self.get_cell(cell) for cell in cells]', loc=loc_of(gcs.module.path, gcs.node))
    gs = ex.methods['get_sheet']
    sp = gs.params[1]
    rc = RoleChecker(gs.node, {sp: Role(SHEET, 0)}, fields, self_attrs={'self._sheets_size': Sizes(0)}, qual=gs.qualname)
    rc.env[('call', 'get_cell')] = lambda r, node, args, kwargs: args[0] if args else None
    rc.run()
    for c in rc.clashes:
        if c.kind == 'branch-role':
            continue
        run.bad('C08.R2', 'Executor.get_sheet/roles', c.kind, c.msg, loc=loc_of(gs.module.path, c.node))
    # the grid: nested loops with appends, or a nested comprehension [[cell for column in ...] for row in ...]
    fors = [n for n in ast.walk(gs.node) if isinstance(n, ast.For)]
    outer = [f for f in fors if any(isinstance(g, ast.For) and g is not f for g in ast.walk(f))]
    comps = [c for c in ast.walk(gs.node) if isinstance(c, ast.ListComp) and isinstance(c.elt, ast.ListComp)]
    from ..paths import path_conditions
    calls = [c for c in ast.walk(gs.node) if isinstance(c, ast.Call) and ast.unparse(c.func) == 'self.get_cell']
    if len(fors) == 2 and len(outer) == 1 and not comps:
        inner = [f for f in fors if f is not outer[0]][0]
        o_it, i_it = ast.unparse(outer[0].iter), ast.unparse(inner.iter)
        delegated = len(calls) == 1 and any(c is calls[0] for c in ast.walk(inner))
        apps = [c for c in ast.walk(gs.node) if isinstance(c, ast.Call) and isinstance(c.func, ast.Attribute) and c.func.attr == 'append']
        cond_apps = [a for a in apps if path_conditions(gs.node, a, parent_map(gs.node))]
        one_each = len(apps) == 2 and not cond_apps
    elif len(comps) == 1 and not fors and len(comps[0].generators) == 1 and len(comps[0].elt.generators) == 1:
        o_it, i_it = ast.unparse(comps[0].generators[0].iter), ast.unparse(comps[0].elt.generators[0].iter)
        delegated = len(calls) == 1 and any(c is calls[0] for c in ast.walk(comps[0].elt.elt))
        one_each = not comps[0].generators[0].ifs and not comps[0].elt.generators[0].ifs
    else:
        raise AnalysisError('C08.R2', 'get_sheet builds its grid neither with two nested loops nor with a nested comprehension')
    ok = 'last_row' in o_it and 'last_column' in i_it and 'last_column' not in o_it and 'last_row' not in i_it
    run.check(ok and not [c for c in rc.clashes if c.kind != 'branch-role'], 'C08.R2', 'Executor.get_sheet/grid', 'grid',
              'get_sheet does not iterate range(last_row) in the outer loop and range(last_column) in the inner loop of the addressed '
              'sheet', fact='rows outer x columns inner', loc=loc_of(gs.module.path, gs.node))
    run.check(delegated, 'C08.R2', 'Executor.get_sheet/delegation', 'not-delegating', 'get_sheet does not obtain each entry through get_cell',
              fact='self.get_cell(Cell(...)) per coordinate', loc=loc_of(gs.module.path, gs.node))
    run.check(one_each, 'C08.R2', 'Executor.get_sheet/one-entry-per-coordinate', 'entries',
              'the grid does not receive exactly one entry per coordinate (conditional or extra appends)', fact='one entry per coordinate',
              loc=loc_of(gs.module.path, gs.node))
    # R3 one normaliser
    for name in ('get_cell', 'set_cells'):
        m = ex.methods[name]
        hcs = [c for c in ast.walk(m.node) if isinstance(c, ast.Call) and getattr(c.func, 'id', '') == 'handle_cell']
        ok = len(hcs) == 1 and len(hcs[0].args) == 2 and ast.unparse(hcs[0].args[1]) == 'self._titles'
        uid_reads = [n for n in ast.walk(m.node) if isinstance(n, ast.Attribute) and n.attr == 'uid']
        ok = ok and all(u.lineno > hcs[0].lineno for u in uid_reads) if hcs else False
        if not hcs:
            # extracted helper: a method of the executor called before the uid is read that normalises with the same map
            for c in ast.walk(m.node):
                if isinstance(c, ast.Call) and isinstance(c.func, ast.Attribute) and isinstance(c.func.value, ast.Name) and \
                        c.func.value.id == 'self' and c.func.attr in ex.methods:
                    inner = [h for h in ast.walk(ex.methods[c.func.attr].node) if isinstance(h, ast.Call) and
                             getattr(h.func, 'id', '') == 'handle_cell' and len(h.args) == 2 and
                             ast.unparse(h.args[1]) == 'self._titles']
                    if inner and all(u.lineno > c.lineno for u in uid_reads):
                        ok = True
        run.check(ok, 'C08.R3', f'Executor.{name}/normaliser', 'normaliser',
                  f'{name} does not pass each cell through handle_cell(cell, self._titles) before reading its uid: the same address '
                  f'spelled differently (A1-style vs numeric) would name different members', fact='handle_cell(cell, self._titles) '
                  f'before .uid', loc=loc_of(m.module.path, m.node))
    t = [n for n in ast.walk(gs.node) if isinstance(n, ast.Subscript) and ast.unparse(n.value) == 'self._titles']
    run.check(len(t) == 1 and ast.unparse(t[0].slice) == sp, 'C08.R3', 'Executor.get_sheet/title', 'title-resolution',
              'get_sheet does not resolve a sheet title through the same title map', fact='self._titles[sheet]',
              loc=loc_of(gs.module.path, gs.node))
    # titles and sizes come from the instance
    sec = ex.methods['set_executed_class']
    txt = ast.unparse(sec.node)
    run.check('self._titles = self._executed_instance.get_titles()' in txt and
              'self._sheets_size = self._executed_instance.get_sheets_size()' in txt, 'C08.R3', 'Executor.set_executed_class/maps',
              'maps', 'the executor does not take its title map and sizes from the generated instance', fact='get_titles / get_sheets_size',
              loc=loc_of(sec.module.path, sec.node))


def r4(run: Run, src, rt):
    for cp in rt.copies():
        for name, fn in sorted(cp.members.items()):
            decos = [ast.unparse(d) for d in fn.decorator_list]
            bad = [d for d in decos if any(k in d for k in ('cache', 'lru', 'memo'))]
            if bad:
                run.bad('C08.R4', f'{name}[{cp.label}]', 'memoised', f'{name} is decorated with {bad}: a cached value survives an override',
                        loc=cp.loc(fn))
        for name in ('_cell_preprocessor', 'exec_function_in'):
            fn = cp.members.get(name)
            if fn is None:
                run.bad('C08.R4', f'{name}[{cp.label}]', 'missing', 'missing', loc=cp.path)
                continue
            stores = [st for st in stores_of(fn) if not st.fresh]
            run.check(not stores, 'C08.R4', f'{name}[{cp.label}]/no-cache', 'value-cached',
                      f'{name} stores `{stores[0].target if stores else ""}`: a value cache makes later queries depend on earlier ones',
                      fact='re-evaluates on every query', loc=cp.loc(fn))
        efi = cp.members.get('exec_function_in')
        if efi is not None:
            rets = [n for n in ast.walk(efi) if isinstance(n, ast.Return)]
            uid = [a.arg for a in efi.args.args if a.arg != 'self'][0]
            run.check(len(rets) == 1 and ast.unparse(rets[0].value) == f'self._cell_preprocessor({uid})', 'C08.R4',
                      f'exec_function_in[{cp.label}]', 'exec-route', 'exec_function_in does not evaluate through _cell_preprocessor',
                      fact='self._cell_preprocessor(uid)', loc=cp.loc(efi))
    ex = src.cls('Executor')
    gc = ex.methods['get_cell']
    if run.extra.get('executor_by_evaluation'):
        return              # the route of a query is part of the evaluated histories
    run.check('self._executed_instance.exec_function_in(cell.uid)' in ast.unparse(gc.node), 'C08.R4', 'Executor.get_cell/route', 'route',
              'get_cell does not evaluate through exec_function_in(cell.uid)', fact='exec_function_in(cell.uid)',
              loc=loc_of(gc.module.path, gc.node))


def run(run: Run):
    from .common import cached_guard as _cached_guard
    src = get_source()
    rt = get_runtime(src)
    cg = get_callgraph(src)
    run.rule('C08.R1', 'no write effects on query paths (executor and all runtime methods)')
    run.rule('C08.R2', 'get_cells / get_sheet delegate to get_cell; grid = rows x columns of the addressed sheet')
    run.rule('C08.R3', 'one address normaliser and one title map for every public method')
    run.rule('C08.R4', 'no value cache')
    run.rule('C08.R5', 'address normalisation is strict and role-correct (shared with C02.R2/R3)')
    _cached_guard(run, 'C08.R1', r1, src, rt, cg)
    _cached_guard(run, 'C08.R2', r2_r3, src)
    _cached_guard(run, 'C08.R4', r4, src, rt)
    from . import c02
    borrow(run, "C08.R5", c02.r3_both, src)
    from .common import check_per_instance_state
    run.rule('C08.R6', 'runtime state is per instance: one executor cannot change what another one reports')
    _cached_guard(run, 'C08.R6', check_per_instance_state, 'C08.R6', get_runtime(get_source()))
    from . import c18
    run.rule('C08.R7', 'reported sizes are those of the sheet itself: per-sheet accumulators are reset per sheet (shared with C18.R2)')
    borrow(run, 'C08.R7', c18.r2_any, src)
    run.floor('C08.R7', 2)
    run.floor('C08.R6', 6)
    run.floor('C08.R1', 100)
    run.floor('C08.R2', 4)
    run.floor('C08.R3', 4)
    run.floor('C08.R4', 4)
    run.floor('C08.R5', 2)
    return INFO
