"""C09 -- translation output depends only on the current workbook and settings (DESIGN 3/C09)."""
from __future__ import annotations

import ast
import itertools

from ..core import Run, AnalysisError, loc_of
from ..source import get_source, ClassInfo
from ..callgraph import get_callgraph, stores_of, nondeterminism_of
from ..paths import parent_map, path_conditions
from ..runtime import may_complete_normally

INFO = {
    'explanation': (
        'R1 dirty-flag discipline: the early-return guard of Parser._translate is evaluated as a boolean function of its flags '
        '(truth table: it must return early iff every flag is false); every field _translate reads after the guard is an input; '
        'every setter of an input raises a flag that defeats the guard; the flags are cleared only after the new translation is '
        'stored and only at the end of a successful run. R2: get_translation returns, and write_translation writes, the same field '
        'untransformed, with an explicit encoding. R3: no nondeterminism source (iteration over a set, id/hash/random/uuid/clock/'
        'environment/directory listing) in any function reachable from _translate (call graph). R4: every store to class-level '
        'state reachable from _translate is one of the confirmed lazily initialised token tables, is guarded test-before-set and '
        'its value depends on nothing but the class. Byte-identity across processes follows from R3+R4 and dict insertion order '
        '(stated assumption), it is not observed.'),
    'rule': 'one obligation per truth-table row, input, setter, reachable function',
    'trusted': ['dict preserves insertion order; __subclasses__() returns classes in definition order'],
}

GLOBAL_TABLE = {
    ('BaseToken.subclasses', '_SUBCLASSES'): 'lazily built list of terminal classes; value depends on cls only',
    ('KeywordRegexpBaseToken.subclasses', '_SUBCLASSES'): 'lazily built, length-sorted list of keyword terminals; depends on cls only',
    ('RecursiveCompositeBaseToken.get_token_sets', '_TOKEN_SETS'): 'CLS marker replaced by the class once; depends on cls only',
    ('RecursiveCompositeBaseToken.get_token_sets', '_PROCESSED'): 'the flag of the line above',
}


def _bool_eval(node, env):
    if isinstance(node, ast.BoolOp):
        vals = [_bool_eval(v, env) for v in node.values]
        return all(vals) if isinstance(node.op, ast.And) else any(vals)
    if isinstance(node, ast.UnaryOp) and isinstance(node.op, ast.Not):
        return not _bool_eval(node.operand, env)
    if isinstance(node, ast.Attribute) and isinstance(node.value, ast.Name) and node.value.id == 'self':
        return env[node.attr]
    if isinstance(node, ast.Constant):
        return bool(node.value)
    raise AnalysisError('C09.R1', f'the cache guard contains `{ast.unparse(node)[:50]}`, which is not a boolean combination of flags')


def r1_any(run: Run, src):
    """the facade decided by evaluation of setter / request histories (rules/parser_eval.py); the structural reading (guard truth
    table, setters raise a flag on every path, kept intermediates) counts in addition where the code can be read"""
    from . import parser_eval
    evaluated = False
    sub = Run('tmp', run.tier, run.seed, quiet=True)
    try:
        parser_eval.evaluate_histories(sub, 'C09.R1', src)
        evaluated = True
    except AnalysisError as e:
        run.note(f'C09.R1: the facade by structure only ({e.reason[:120]})')
    if not evaluated:
        return r1(run, src)
    for o in sub.obligations:
        if o['verdict'] == 'holds':
            run.ok(o['rule'], o['construct'], o['fact'], loc=o['loc'])
    for f_ in sub.findings:
        run.bad(f_['rule'], f_['construct'], f_['sub'], f_['message'], loc=f_['loc'])
    sub2 = Run('tmp', run.tier, run.seed, quiet=True)
    try:
        r1(sub2, src)
    except AnalysisError as e:
        run.note(f'C09.R1: the structural reading gave up ({e.reason[:120]}); the evaluated histories decide')
    for o in sub2.obligations:
        if o['verdict'] == 'holds':
            run.ok(o['rule'], o['construct'], o['fact'], loc=o['loc'])
    for f_ in sub2.findings:
        run.bad(f_['rule'], f_['construct'], f_['sub'], f_['message'], loc=f_['loc'])


def r1(run: Run, src):
    p = src.cls('Parser')
    if p.methods.get('_translate') is None:
        raise AnalysisError('C09.R1', 'Parser._translate not found')
    from .common import inlined_function
    fi = inlined_function(src, 'Parser._translate')      # helpers of the facade (flag tests, flag resets, ...) analysed in place
    fn = fi.node
    body = [s for s in fn.body if not (isinstance(s, ast.Expr) and isinstance(s.value, ast.Constant))]
    loc = loc_of(fi.module.path, fn)
    guard = None
    if body and isinstance(body[0], ast.If) and len(body[0].body) == 1 and isinstance(body[0].body[0], ast.Return) and not body[0].orelse:
        guard = body[0]
    if guard is None:
        # accepted alternative: no cache at all
        stores = [n for n in ast.walk(fn) if isinstance(n, ast.Assign) and any(isinstance(t, ast.Attribute) and t.attr == '_translation'
                                                                               for t in n.targets)]
        if stores and not any(isinstance(s, ast.If) and any(isinstance(x, ast.Return) for x in s.body) for s in body[:1]):
            run.ok('C09.R1', 'Parser._translate/no-cache', 'no early return: every call re-translates', loc=loc)
            run.ok('C09.R1', 'Parser._translate/no-cache-2', 'nothing to invalidate', nontrivial=False, loc=loc)
            return
        raise AnalysisError('C09.R1', 'the cache guard of _translate has an unexpected shape')
    flags = sorted({n.attr for n in ast.walk(guard.test) if isinstance(n, ast.Attribute) and isinstance(n.value, ast.Name)
                    and n.value.id == 'self'})
    if not flags:
        raise AnalysisError('C09.R1', 'the cache guard reads no flag')
    # truth table: early return iff all flags are false
    for combo in itertools.product([False, True], repeat=len(flags)):
        env = dict(zip(flags, combo))
        early = _bool_eval(guard.test, env)
        want = not any(combo)
        desc = ', '.join(f'{f.replace("_has_been_changed", "")}={"changed" if v else "unchanged"}' for f, v in env.items())
        run.check(early == want, 'C09.R1', f'Parser._translate/guard[{desc}]', 'guard-truth-table',
                  f'with {desc} the guard `{ast.unparse(guard.test)[:90]}` {"returns the cached text" if early else "re-translates"}; '
                  f'it must {"return early only when nothing changed" if not want else "reuse the cache when nothing changed"}',
                  fact='early return' if early else 're-translate', loc=loc_of(fi.module.path, guard))
    defeat = {f for f in flags if not _bool_eval(guard.test, {g: (g == f) for g in flags})}
    # inputs: self.* read after the guard
    rest = body[1:]
    inputs = set()
    for s in rest:
        for n in ast.walk(s):
            if isinstance(n, ast.Attribute) and isinstance(n.value, ast.Name) and n.value.id == 'self' and \
                    isinstance(n.ctx, ast.Load) and n.attr not in flags and n.attr != '_translation' and \
                    not (n.attr in p.methods):
                inputs.add(n.attr)
    if not inputs:
        raise AnalysisError('C09.R1', 'no input field is read by _translate')
    for inp in sorted(inputs):
        setters = []
        for name, m in p.methods.items():
            if name in ('__init__', '_translate'):
                continue
            for st in ast.walk(m.node):
                if isinstance(st, (ast.Assign, ast.AugAssign, ast.AnnAssign)):
                    targets = st.targets if isinstance(st, ast.Assign) else [st.target]
                    if any(isinstance(t, ast.Attribute) and t.attr == inp and isinstance(t.value, ast.Name) and t.value.id == 'self'
                           for t in targets):
                        setters.append(m)
        if not setters:
            run.note(f'C09.R1 input {inp} has no setter')
        for m in {id(x): x for x in setters}.values():
            raised = set()
            from ..paths import normal_exits_pass
            for f in defeat:
                def ev(st, f=f):
                    return isinstance(st, ast.Assign) and isinstance(st.value, ast.Constant) and st.value.value is True and \
                        any(isinstance(t, ast.Attribute) and t.attr == f for t in st.targets)
                if normal_exits_pass(m.node.body, ev):
                    raised.add(f)
            run.check(bool(raised), 'C09.R1', f'Parser.{m.name}/{inp}', 'setter-without-flag',
                      f'{m.name} changes the input {inp} but raises none of the flags {sorted(defeat)} on every path: after a first '
                      f'translation the next get_translation()/write_translation() returns the stale text',
                      fact=f'raises {sorted(raised)}', loc=loc_of(m.module.path, m.node))
    # intermediate results kept on the Parser between calls (a parsed workbook, a context, ...): a later call may only reuse one
    # when no setting changed -- the object was computed under the settings of the call that stored it
    from ..paths import parent_map as _pm, path_conditions as _pc
    parents_ = _pm(fn)

    def _ev3(node, env):
        """three-valued evaluation of a condition over the flags: anything else is unknown (None)"""
        if isinstance(node, ast.BoolOp):
            vals = [_ev3(v, env) for v in node.values]
            if isinstance(node.op, ast.And):
                return False if any(v is False for v in vals) else (True if all(v is True for v in vals) else None)
            return True if any(v is True for v in vals) else (False if all(v is False for v in vals) else None)
        if isinstance(node, ast.UnaryOp) and isinstance(node.op, ast.Not):
            v = _ev3(node.operand, env)
            return None if v is None else not v
        if isinstance(node, ast.Attribute) and isinstance(node.value, ast.Name) and node.value.id == 'self' and node.attr in env:
            return env[node.attr]
        if isinstance(node, ast.Constant):
            return bool(node.value)
        return None
    kept = {}
    for s_ in rest:
        for n in ast.walk(s_):
            if isinstance(n, (ast.Assign, ast.AnnAssign, ast.AugAssign)):
                for t in (n.targets if isinstance(n, ast.Assign) else [n.target]):
                    if isinstance(t, ast.Attribute) and isinstance(t.value, ast.Name) and t.value.id == 'self' and \
                            t.attr not in flags and t.attr != '_translation':
                        kept.setdefault(t.attr, []).append(n)
    for attr, sts in sorted(kept.items()):
        reads = [n for s_ in rest for n in ast.walk(s_) if isinstance(n, ast.Attribute) and n.attr == attr and
                 isinstance(n.value, ast.Name) and n.value.id == 'self' and isinstance(n.ctx, ast.Load)]
        if not reads:
            continue
        for st_ in sts:
            conds = [(t, pol) for t, pol in _pc(fn, st_, parents_) if t is not guard.test]
            stale = []
            for f in flags:
                env = {g: (g == f) for g in flags}
                vals = [(_ev3(t, env), pol) for t, pol in conds]
                # the store is skipped (the old object is reused) unless every condition on its path certainly holds
                certain = all(v is not None and v == pol for v, pol in vals)
                if conds and not certain:
                    stale.append(f)
            run.check(not stale, 'C09.R1', f'Parser._translate/kept `{attr}`', 'kept-intermediate-ignores-setting',
                      f'_translate keeps `self.{attr}` between calls and re-computes it only when '
                      f'`{" and ".join(("" if pol else "not ") + ast.unparse(t)[:60] for t, pol in conds)}`: when only '
                      f'{[f.replace("_has_been_changed", "") for f in stale]} changed, the object computed under the previous '
                      f'settings is reused, so the next result does not correspond to the settings in force',
                      fact='recomputed whenever a setting changed', loc=loc_of(fi.module.path, st_))
    # flags are cleared only after the translation is stored, at the end, unconditionally
    store_idx = [i for i, s in enumerate(body) if isinstance(s, ast.Assign) and any(
        isinstance(t, ast.Attribute) and t.attr == '_translation' for t in s.targets)]
    if len(store_idx) != 1:
        raise AnalysisError('C09.R1', 'expected one top-level store of the translation in _translate')
    for f in flags:
        clears = [(i, s) for i, s in enumerate(body) if isinstance(s, ast.Assign) and isinstance(s.value, ast.Constant) and
                  s.value.value is False and any(isinstance(t, ast.Attribute) and t.attr == f for t in s.targets)]
        nested = [s for s in ast.walk(fn) if isinstance(s, ast.Assign) and isinstance(s.value, ast.Constant) and s.value.value is False
                  and any(isinstance(t, ast.Attribute) and t.attr == f for t in s.targets) and s not in [c for _, c in clears]]
        ok = len(clears) == 1 and clears[0][0] > store_idx[0] and not nested
        why = 'is never cleared' if not clears and not nested else \
            'is cleared before the new translation is stored: when translation fails (safety exception, parser exception) the next ' \
            'call returns the stale text' if clears and clears[0][0] < store_idx[0] else 'is cleared conditionally or more than once'
        run.check(ok, 'C09.R1', f'Parser._translate/clear {f}', 'flag-cleared-too-early' if 'before' in why else 'flag-clear',
                  f'the flag {f} {why}', fact='cleared once, after the translation is stored', loc=loc_of(fi.module.path, fn))
    # nothing between the store and the end can fail/return early
    tail = body[store_idx[0] + 1:]
    ok_tail = all(isinstance(s, ast.Assign) or isinstance(s, ast.Return) for s in tail)
    run.check(ok_tail, 'C09.R1', 'Parser._translate/tail', 'tail', 'statements other than flag resets follow the store of the translation',
              fact='store, clear flags, return', loc=loc)


def r2(run: Run, src):
    p = src.cls('Parser')
    gt = p.methods.get('get_translation')
    wt = p.methods.get('write_translation')
    if gt is None or wt is None:
        raise AnalysisError('C09.R2', 'get_translation / write_translation not found')
    rets = [n for n in ast.walk(gt.node) if isinstance(n, ast.Return)]
    ok = len(rets) == 1 and ast.unparse(rets[0].value) in ('self._translate()._translation',)
    if not ok and len(rets) == 1 and ast.unparse(rets[0].value) == 'self._translation':
        ok = any(isinstance(s, ast.Expr) and ast.unparse(s.value) == 'self._translate()' for s in gt.node.body)
    run.check(ok, 'C09.R2', 'Parser.get_translation', 'returned-field',
              f'get_translation returns `{ast.unparse(rets[0].value)[:60] if rets else "?"}`', fact='the stored translation after '
              '_translate()', loc=loc_of(gt.module.path, gt.node))
    body = wt.node.body
    calls_translate = [i for i, s in enumerate(body) if isinstance(s, ast.Expr) and ast.unparse(s.value) == 'self._translate()']
    writes = [n for n in ast.walk(wt.node) if isinstance(n, ast.Call) and isinstance(n.func, ast.Attribute) and n.func.attr == 'write']
    ok = False
    if len(writes) == 1 and writes[0].args:
        w = writes[0].args[0]
        # follow one local binding: text = self.get_translation()
        if isinstance(w, ast.Name):
            binds = [st for st in body if isinstance(st, ast.Assign) and any(isinstance(t, ast.Name) and t.id == w.id for t in st.targets)]
            if len(binds) == 1 and binds[0].lineno < writes[0].lineno:
                w = binds[0].value
        wtxt = ast.unparse(w)
        if wtxt in ('self.get_translation()', 'self._translate()._translation'):
            ok = True                 # the up-to-date text, obtained the way get_translation obtains it
        elif wtxt == 'self._translation':
            ok = len(calls_translate) == 1 and writes[0].lineno > body[calls_translate[0]].lineno
    run.check(ok, 'C09.R2', 'Parser.write_translation/content', 'written-text',
              f'write_translation writes `{ast.unparse(writes[0].args[0])[:60] if writes else "?"}`; it must write exactly the text '
              f'get_translation returns, after bringing it up to date', fact='writes self._translation after _translate()',
              loc=loc_of(wt.module.path, wt.node))
    opens = [n for n in ast.walk(wt.node) if isinstance(n, ast.Call) and isinstance(n.func, ast.Name) and n.func.id == 'open']
    enc = [k for o in opens for k in o.keywords if k.arg == 'encoding']
    mode = [ast.unparse(o.args[1]) if len(o.args) > 1 else next((ast.unparse(k.value) for k in o.keywords if k.arg == 'mode'), "'r'")
            for o in opens]
    run.check(len(opens) == 1 and len(enc) == 1 and mode == ["'w'"], 'C09.R2', 'Parser.write_translation/open', 'encoding',
              f'the file is opened as {[ast.unparse(o)[:60] for o in opens]}: text mode "w" with an explicit encoding is needed for the '
              f'file to equal the returned text on every platform', fact='open(path, "w", encoding=...)',
              loc=loc_of(wt.module.path, wt.node))


def r3_r4(run: Run, src, cg):
    entry = src.func('Parser._translate')
    reach = cg.reachable([entry])
    n = 0
    for key, (f, parent) in sorted(reach.items()):
        if f.module.name.endswith('abstract_excel_in_python_class') or (f.cls is not None and f.cls.name == 'Executor'):
            continue
        n += 1
        nd = nondeterminism_of(f.node)
        if nd:
            for kind, node in nd:
                run.bad('C09.R3', f'{f.qualname}/{kind}', 'nondeterminism-source',
                        f'{f.qualname} is reachable from Parser._translate ({" -> ".join(cg.path_to(reach, key)[-4:])}) and uses '
                        f'{kind}: the generated text can differ between runs / hash seeds', loc=loc_of(f.module.path, node))
        else:
            run.ok('C09.R3', f.qualname, 'no nondeterminism source', nontrivial=(len(f.node.body) > 1), loc=loc_of(f.module.path, f.node))
        # a memoising decorator is a process-global store keyed by the arguments: what an earlier translation computed (token
        # objects, Cell objects already resolved and filled) is handed to a later one
        for d in f.node.decorator_list:
            dn = ast.unparse(d.func if isinstance(d, ast.Call) else d)
            if dn.split('.')[-1] in ('lru_cache', 'cache', 'memoize', 'memoized', 'cached'):
                # memoising a PURE constructor of an immutable value from immutable arguments (compiling a pattern text) is harmless
                body_ = [x for x in f.node.body if not (isinstance(x, ast.Expr) and isinstance(x.value, ast.Constant))]
                if len(body_) == 1 and isinstance(body_[0], ast.Return) and isinstance(body_[0].value, ast.Call) and \
                        ast.unparse(body_[0].value.func) in ('re.compile', 'compile') and \
                        not any(isinstance(x, ast.Call) and x is not body_[0].value for x in ast.walk(body_[0].value)):
                    run.ok('C09.R4', f'{f.qualname}/@{dn}', 'memoised pure pattern compilation (immutable arguments and result)',
                           loc=loc_of(f.module.path, f.node))
                    continue
                run.bad('C09.R4', f'{f.qualname}/@{dn}', 'memoised-translation-step',
                        f'{f.qualname} (reachable from _translate: {" -> ".join(cg.path_to(reach, key)[-4:])}) is memoised with @{dn}: '
                        f'the cache is process-global and keyed by the arguments, so objects created and mutated during an earlier '
                        f'translation (tokens, resolved and filled Cell objects) are reused by a later translation -- the output then '
                        f'depends on process history', loc=loc_of(f.module.path, f.node))
        # class-level / module-level stores
        for st in stores_of(f.node):
            is_global = st.kind in ('cls-attr', 'global')
            if st.kind in ('obj-attr', 'mutating-call', 'subscript') and st.base and st.base[:1].isupper():
                r = src.resolve_class(st.base, f.module, f)
                is_global = r is not None
            if st.kind in ('mutating-call', 'subscript') and st.base == 'cls':
                is_global = True
            if st.kind in ('mutating-call', 'subscript') and st.base == 'self' and st.attr and f.cls is not None:
                # a container bound at class level and changed in place through an instance is one container for the whole process
                # (unless every instance gets its own in a method of the class)
                held = [c for c in src.mro(f.cls) if hasattr(c, 'attrs') and st.attr in c.attrs and
                        (isinstance(c.attrs[st.attr], (ast.Dict, ast.List, ast.Set, ast.ListComp, ast.DictComp, ast.SetComp)) or
                         (isinstance(c.attrs[st.attr], ast.Call) and ast.unparse(c.attrs[st.attr].func).split('.')[-1] in
                          ('dict', 'list', 'set', 'defaultdict', 'OrderedDict', 'deque', 'Counter')))]
                own = any(isinstance(t_, ast.Attribute) and isinstance(t_.value, ast.Name) and t_.value.id == 'self' and t_.attr == st.attr and
                          isinstance(t_.ctx, ast.Store)
                          for c in src.mro(f.cls) if hasattr(c, 'methods') for m_ in c.methods.values() for t_ in ast.walk(m_.node))
                if held and not own:
                    is_global = True
            if not is_global:
                continue
            attr = st.attr or st.target
            tkey = (f.qualname, attr)
            loc = loc_of(f.module.path, st.node)
            # a process-global store is harmless exactly when it is a lazily initialised table: written under a test of the stored
            # state (test-before-set) and with a key and a value that depend on nothing but the class -- then every translation
            # and every thread can only ever store the same thing.  Anything computed from the arguments (tokens, cells, formula
            # text) makes the output depend on what was translated before.
            parents = parent_map(f.node)
            conds = path_conditions(f.node, st.node, parents)
            params = set(f.params) - {'cls', 'self'}
            local_defs = {}
            for a_ in ast.walk(f.node):
                if isinstance(a_, ast.Assign) and len(a_.targets) == 1 and isinstance(a_.targets[0], ast.Name):
                    local_defs.setdefault(a_.targets[0].id, []).append(a_.value)

            def taint_of(e, depth=0):
                out = set()
                for x in ast.walk(e):
                    if isinstance(x, ast.Attribute) and isinstance(x.value, ast.Name) and x.value.id == 'self' and 'self' in f.params and \
                            not any(hasattr(c, 'attrs') and x.attr in c.attrs for c in (src.mro(f.cls) if f.cls is not None else [])):
                        out.add(f'self.{x.attr}')              # the state of one instance: an input like any argument
                    if isinstance(x, ast.Name):
                        if x.id in params:
                            out.add(x.id)
                        elif x.id in local_defs and depth < 4:
                            for v_ in local_defs[x.id]:
                                out |= taint_of(v_, depth + 1)
                return out
            val = getattr(st.node, 'value', None)
            tainted = set()
            if val is not None:
                tainted |= taint_of(val)
            tgt = st.node.targets[0] if isinstance(st.node, ast.Assign) else getattr(st.node, 'target', None)
            if isinstance(tgt, ast.Subscript):
                tainted |= taint_of(tgt.slice)
            if st.kind == 'mutating-call':
                for a_ in getattr(st.node, 'args', []):
                    tainted |= taint_of(a_)
                if st.node.func.attr in ('clear', 'pop', 'popitem', 'remove', 'discard'):
                    tainted.add('<removal>')
            base_txt = (st.target or '').split('[')[0]

            def tests_state(t):
                txt = ast.unparse(t)
                if 'cls.' in txt or base_txt and base_txt in txt:
                    return True
                return any(isinstance(x, ast.Name) and x.id in local_defs and
                           any(base_txt and base_txt in ast.unparse(v_) for v_ in local_defs[x.id]) for x in ast.walk(t))
            guarded = any(tests_state(t) for t, pol in conds)
            known = GLOBAL_TABLE.get(tkey, 'lazily initialised table: test-before-set, key and value depend on the class only')
            if tainted:
                run.bad('C09.R4', f'{f.qualname}/{st.target}', 'unconfirmed-global-write',
                        f'{f.qualname} (reachable from _translate) writes the process-global `{st.target}` with data computed from its '
                        f'arguments {sorted(tainted)}: what one translation (or a rejected formula) leaves there is seen by the next, so '
                        f'the output depends on process history', loc=loc)
                continue
            run.check(guarded, 'C09.R4', f'{f.qualname}/{st.target}', 'global-write-discipline',
                      f'the write to the process-global `{st.target}` is not guarded by a test of the stored state (test-before-set): '
                      f'two translations could observe different tables', fact=known, loc=loc)
    if n < 100:
        raise AnalysisError('C09.R3', f'only {n} functions are reachable from _translate (call graph resolution broke?)')
    # a fresh Context per translation, never stored globally
    from .common import inlined_function
    tr = inlined_function(src, 'Parser._translate').node
    ctxs = [s for s in ast.walk(tr) if isinstance(s, ast.Assign) and isinstance(s.value, ast.Call) and
            isinstance(s.value.func, ast.Name) and s.value.func.id == 'Context']
    run.check(len(ctxs) == 1 and isinstance(ctxs[0].targets[0], ast.Name) and not ctxs[0].value.args, 'C09.R4',
              'Parser._translate/Context()', 'shared-context',
              'the translation context is not created afresh (as a local) for every translation', fact='context = Context()',
              loc=loc_of(entry.module.path, tr))
    ctx_init = src.cls('Context').methods.get('__init__')
    mutable_defaults = [d for d in ctx_init.node.args.defaults if isinstance(d, (ast.Dict, ast.List, ast.Set))]
    class_level = [k for k, v in src.cls('Context').attrs.items() if isinstance(v, (ast.Dict, ast.List, ast.Set))]
    run.check(not mutable_defaults and not class_level, 'C09.R4', 'Context/state', 'shared-context-state',
              f'Context keeps mutable state at class level / in defaults ({class_level}): translations share it',
              fact='all state created in __init__', loc=loc_of(ctx_init.module.path, ctx_init.node))


def run(run: Run):
    from .common import cached_guard as _cached_guard
    src = get_source()
    cg = get_callgraph(src)
    run.rule('C09.R1', 'dirty-flag discipline: guard truth table, setter raises flag, flags cleared after the store')
    run.rule('C09.R2', 'written = returned')
    run.rule('C09.R3', 'no nondeterminism source on the translation path')
    run.rule('C09.R4', 'global writes are confirmed, guarded and argument-independent; fresh Context')
    _cached_guard(run, 'C09.R1', r1_any, src)
    _cached_guard(run, 'C09.R2', r2, src)
    _cached_guard(run, 'C09.R3', r3_r4, src, cg)
    # values that reach repr() must have a deterministic repr: the reader stores plain data, array formulas as text (C18.R3)
    from .common import borrow
    from . import c18
    from ..runtime import get_runtime
    run.rule('C09.R5', 'constants are printed with repr() of plain data only (array-formula objects never stored; shared with C18.R3)')
    borrow(run, 'C09.R5', c18.r3, src, get_runtime(src))
    from .common import check_mutable_defaults
    run.rule('C09.R6', 'no mutable default value is changed in place or handed out (it would carry one translation into the next)')
    _cached_guard(run, 'C09.R6', check_mutable_defaults, 'C09.R6', src)
    run.floor('C09.R6', 5)
    run.floor('C09.R5', 5)
    run.floor('C09.R1', 8)
    run.floor('C09.R2', 3)
    run.floor('C09.R3', 100)
    run.floor('C09.R4', 5)
    return INFO
