"""C11 -- aggregates fold exactly the numeric cells of their arguments (DESIGN 3/C11)."""
from __future__ import annotations

import ast

from ..core import Run, AnalysisError, loc_of
from ..source import get_source
from ..grammar import get_grammar
from ..emission import get_emission
from ..runtime import get_runtime
from ..finite import evaluator_for, Evaluator, AV, Unknown, AbsRaise, const_av, truth
from .common import check_plumbing

INFO = {
    'explanation': (
        'R1: in _sum/_average/_min/_max (both copies) the argument of every fold primitive (sum, min, max, len) is the numeric '
        'filter applied to the parameter -- data cannot reach a fold unfiltered. R2: the filter predicate of _only_numeric_list '
        '(default flag) is evaluated over the type domain {int, float, bool, blank (an int subclass), int-like text, decimal text, '
        'other text, empty text, date-time, None, list}: admitted <=> exactly int or float; _count_blank\'s predicate: admitted <=> '
        'blank, empty text or None. R3: Excel function <-> fold primitive table (SUM sum, MIN min, MAX max, AVERAGE sum/len of the '
        'same filtered list, COUNT len, AND all, OR any). R4: argument plumbing (every argument expression, in order, flattened once) '
        'equals the confirmed reference. R5: a fold primitive that fails on an empty list (min, max, division by len) is reached '
        'with a list the filter may empty (known finding). Not decided: the value of the fold on concrete areas.'),
    'rule': 'one obligation per (helper, copy, primitive call) / (predicate, kind) / function',
    'trusted': ['semantics of sum/min/max/len/any/all'],
}

FUNCS = ['SUM', 'AVERAGE', 'MIN', 'MAX', 'COUNT', 'COUNTBLANK', 'AND', 'OR']
KINDS = {
    'int': AV('int', sign='pos'), 'negative int': AV('int', sign='neg'), 'zero': AV('int', sign='zero', val=0),
    'float': AV('float', sign='pos', frac=True), 'bool': AV('bool', sign='pos', val=True),
    'blank': AV('blank', sign='zero'), 'int-like text': AV('str', text='int'), 'decimal text': AV('str', text='dec'),
    'other text': AV('str', text='other'), 'empty text': AV('str', text='empty', val=''), 'error text': AV('str', text='error'),
    'date-time': AV('datetime'), 'None': AV('none'),
}
NUMERIC_ADMITTED = {'int', 'negative int', 'zero', 'float'}
BLANK_ADMITTED = {'blank', 'empty text', 'None'}
FOLDS = {'_sum': 'sum', '_min': 'min', '_max': 'max'}


def _filter_pred(fn: ast.FunctionDef):
    comps = [n for n in ast.walk(fn) if isinstance(n, (ast.ListComp, ast.GeneratorExp))]
    if len(comps) != 1 or len(comps[0].generators) != 1 or len(comps[0].generators[0].ifs) != 1:
        raise AnalysisError('C11.R2', f'{fn.name} is not a single filtering comprehension')
    gen = comps[0].generators[0]
    if not (isinstance(gen.target, ast.Name) and isinstance(comps[0].elt, ast.Name) and comps[0].elt.id == gen.target.id):
        raise AnalysisError('C11.R2', f'{fn.name} transforms its elements')
    return gen.target.id, gen.ifs[0]


def r2(run: Run, rt):
    """the numeric filter and the blank predicate, decided by abstract evaluation (engine F) of the helpers on a one-element list
    of every kind of cell value -- however the selection is written (comprehension, loop, filter())"""
    from ..finite import evaluator_for
    for cp in rt.copies():
        fn = cp.members.get('_only_numeric_list')
        if fn is None:
            run.bad('C11.R2', f'_only_numeric_list[{cp.label}]', 'missing', 'numeric filter missing', loc=cp.path)
            continue
        for kname, av in KINDS.items():
            ev = evaluator_for(cp)
            try:
                res = ev.call_method('_only_numeric_list', [AV('list', items=(av,))])
            except Unknown as u:
                raise AnalysisError('C11.R2', f'numeric filter on {kname}: {u}')
            except AbsRaise as r:
                run.bad('C11.R2', f'_only_numeric_list[{cp.label}]/{kname}', f'raises:{r.exc}',
                        f'the numeric filter raises {r.exc} on a {kname} cell', loc=cp.loc(fn))
                continue
            if res.items is None:
                raise AnalysisError('C11.R2', f'numeric filter on {kname}: the result is not a list of known contents')
            got = len(res.items) == 1
            want = kname in NUMERIC_ADMITTED
            run.check(got == want and len(res.items) <= 1, 'C11.R2', f'_only_numeric_list[{cp.label}]/{kname}',
                      'filter-admits' if got else 'filter-rejects',
                      f'the numeric filter {"admits" if got else "rejects"} a {kname} cell; aggregates must fold exactly the cells '
                      f'whose type is int or float (text, booleans and blanks inside areas are ignored)',
                      fact='admitted' if got else 'rejected', loc=cp.loc(fn))
        # COUNTBLANK
        fn = cp.members.get('_count_blank')
        if fn is None:
            run.bad('C11.R2', f'_count_blank[{cp.label}]', 'missing', 'helper missing', loc=cp.path)
            continue
        for kname, av in KINDS.items():
            if kname == 'error text':
                continue                         # an error value makes the function return the error (C13.R4 / C11.R11)
            ev = evaluator_for(cp)
            try:
                res = ev.call_method('_count_blank', [AV('list', items=(av, AV('int', sign='pos', val=3)))])
            except Unknown as u:
                raise AnalysisError('C11.R2', f'blank predicate on {kname}: {u}')
            except AbsRaise as r:
                run.bad('C11.R2', f'_count_blank[{cp.label}]/{kname}', f'raises:{r.exc}', f'COUNTBLANK raises {r.exc} on a {kname} cell',
                        loc=cp.loc(fn))
                continue
            got = res.val == 1
            want = kname in BLANK_ADMITTED
            run.check(got == want and res.val in (0, 1), 'C11.R2', f'_count_blank[{cp.label}]/{kname}', 'blank-predicate',
                      f'COUNTBLANK of a {kname} cell and the number 3 is {res.val!r}; it must count exactly blank and empty-text '
                      f'cells', fact='counted' if got else 'not counted', loc=cp.loc(fn))


def _is_filtered(expr, param, filtered_vars):
    """expr is self._only_numeric_list(param) (possibly via a variable)"""
    if isinstance(expr, ast.Name):
        return expr.id in filtered_vars
    return isinstance(expr, ast.Call) and isinstance(expr.func, ast.Attribute) and expr.func.attr == '_only_numeric_list' and \
        expr.args and isinstance(expr.args[0], ast.Name) and expr.args[0].id == param and len(expr.args) == 1 and not expr.keywords


def r3_eval(run: Run, rt):
    """the folds decided by abstract evaluation (engine F) on a mixed argument list: numbers are folded, text / booleans / blanks /
    None inside the list are ignored, an Excel error value is handed back"""
    from ..finite import evaluator_for
    blank = AV('blank', sign='zero')

    def lst(xs):
        return AV('list', items=tuple(x if isinstance(x, AV) else const_av(x) for x in xs))
    mixed = [3, 'x', True, blank, 1.5, None, '7']
    cases = [('_sum', mixed, 4.5, 'C11.R3'), ('_min', mixed, 1.5, 'C11.R3'), ('_max', mixed, 3, 'C11.R3'), ('_average', [3, 'x', 1, blank], 2.0, 'C11.R3'),
             ('_sum', [2, 2, 2], 6, 'C11.R3'), ('_min', [5, -2, 9], -2, 'C11.R3'), ('_max', [5, -2, 9.5], 9.5, 'C11.R3'),
             ('_and', [True, 1, 2], True, 'C11.R3'), ('_and', [True, 0], False, 'C11.R3'), ('_or', [0, False], False, 'C11.R3'),
             ('_or', [0, 3], True, 'C11.R3'), ('_min', [3, '#N/A', 1], '#N/A', 'C11.R1'), ('_max', [3, '#DIV/0!'], '#DIV/0!', 'C11.R1')]
    # COUNT(areas, literal arguments, single cells): numbers and dates everywhere; booleans and numeric text only as literal arguments
    dt = AV('datetime')
    for cp in rt.copies():
        fn = cp.members.get('_count')
        if fn is not None:
            ps = [a.arg for a in fn.args.args if a.arg not in ('self', 'cls')]
            vals = {'matrices': AV('list', items=(AV('list', items=(lst([1, True, 'x']), lst([2.5, blank, dt]))),)),
                    'args': lst([3, '4', True, 'abc']), 'args_cells': lst([2, True, blank, '5'])}
            if set(ps) == set(vals):
                ev = evaluator_for(cp, hooks={'EmptyCell': lambda e_, a_: AV('blank', sign='zero')})
                construct = f'_count[{cp.label}]/areas [1,TRUE,"x"],[2.5,blank,date]; literals 3,"4",TRUE,"abc"; cells 2,TRUE,blank,"5"'
                try:
                    res = ev.call_method('_count', [vals[p_] for p_ in ps])
                except Unknown as u:
                    raise AnalysisError('C11.R3', f'{construct}: the abstraction cannot follow the helper ({u})')
                except AbsRaise as r_:
                    run.bad('C11.R3', construct, f'raises:{r_.exc}', f'_count raises {r_.exc}', loc=cp.loc(fn))
                    res = None
                if res is not None:
                    run.check(res.val == 7, 'C11.R3', construct, 'wrong-count',
                              f'COUNT gives {res.val!r}; it counts the numbers and dates of the areas (1, 2.5, the date), of the single cells '
                              f'(2) and the literal arguments that are numbers, numeric text or booleans (3, "4", TRUE): 7', fact=f'-> {res.val!r}',
                              loc=cp.loc(fn))
    for cp in rt.copies():
        for helper, args, want, rule in cases:
            fn = cp.members.get(helper)
            if fn is None:
                run.bad('C11.R3', f'{helper}[{cp.label}]', 'missing', 'helper missing', loc=cp.path)
                continue
            ev = evaluator_for(cp, hooks={'EmptyCell': lambda e_, a_: AV('blank', sign='zero')})
            shown = [getattr(x, 'kind', x) if isinstance(x, AV) else x for x in args]
            construct = f'{helper}[{cp.label}]/{shown}'
            try:
                res = ev.call_method(helper, [lst(args)])
            except Unknown as u:
                raise AnalysisError('C11.R3', f'{construct}: the abstraction cannot follow the helper ({u})')
            except AbsRaise as r_:
                run.bad(rule, construct, f'raises:{r_.exc}', f'{helper} raises {r_.exc} on {shown}', loc=cp.loc(fn))
                continue
            got = res.val
            same = (got == want) and (isinstance(want, bool) == isinstance(got, bool) or not isinstance(want, bool))
            run.check(same, rule, construct, 'wrong-fold',
                      f'{helper} of {shown} gives {got!r}; the fold over the numeric cells (text, booleans, blanks ignored; an error '
                      f'value handed back) is {want!r}', fact=f'-> {got!r}', loc=cp.loc(fn))


def r1_r3_r5(run: Run, rt):
    sub_e = Run('tmp', run.tier, run.seed, quiet=True)
    by_eval = True
    try:
        r3_eval(sub_e, rt)
    except AnalysisError as e_:
        run.note(f'C11.R3 evaluation skipped: {e_.reason[:100]}')
        by_eval = False
    sub_s = Run('tmp', run.tier, run.seed, quiet=True)
    try:
        _r1_r3_r5_structural(sub_s, rt)
        struct_ok = True
    except AnalysisError as e_:
        if not by_eval:
            raise
        struct_ok = False
    for sub, keep in ((sub_e, None) if by_eval else (None, None), (sub_s, ({'C11.R5'} if by_eval else None))):
        if sub is None:
            continue
        for o in sub.obligations:
            if o['verdict'] == 'holds' and (keep is None or o['rule'] in keep or 'COUNT' in o['construct'].upper()):
                run.ok(o['rule'], o['construct'], o['fact'], loc=o['loc'])
        for f in sub.findings:
            if keep is None or f['rule'] in keep or 'COUNT' in f['construct'].upper():
                run.bad(f['rule'], f['construct'], f['sub'], f['message'], loc=f['loc'])


def _r1_r3_r5_structural(run: Run, rt):
    for cp in rt.copies():
        for helper, prim in FOLDS.items():
            fn = cp.members.get(helper)
            if fn is None:
                run.bad('C11.R3', f'{helper}[{cp.label}]', 'missing', 'helper missing', loc=cp.path)
                continue
            param = [a.arg for a in fn.args.args if a.arg not in ('self', 'cls')][0]
            filtered_vars = {t.id for st in ast.walk(fn) if isinstance(st, ast.Assign) for t in st.targets
                             if isinstance(t, ast.Name) and _is_filtered(st.value, param, set())}
            rets = sorted([n for n in ast.walk(fn) if isinstance(n, ast.Return)], key=lambda n: (n.lineno, n.col_offset))
            final = rets[-1].value if rets else None
            ok_prim = isinstance(final, ast.Call) and isinstance(final.func, ast.Name) and final.func.id == prim and len(final.args) == 1
            got = final.func.id if isinstance(final, ast.Call) and isinstance(final.func, ast.Name) else ast.unparse(final)[:30] if final is not None else '?'
            run.check(ok_prim, 'C11.R3', f'{helper}[{cp.label}]/primitive', 'wrong-fold',
                      f'{helper} folds with `{got}`; the Excel function needs `{prim}`', fact=f'{prim}(...)', loc=cp.loc(fn))
            folds = [n for n in ast.walk(fn) if isinstance(n, ast.Call) and isinstance(n.func, ast.Name) and
                     n.func.id in ('sum', 'min', 'max', 'len') and n.args]
            for c in folds:
                run.check(_is_filtered(c.args[0], param, filtered_vars), 'C11.R1', f'{helper}[{cp.label}]/{c.func.id}({ast.unparse(c.args[0])[:40]})',
                          'unfiltered-fold', f'{helper} applies {c.func.id} to `{ast.unparse(c.args[0])[:50]}`, which is not the numeric '
                                             f'filter of its argument: text, booleans or blanks reach the fold',
                          fact='fold over _only_numeric_list(parameter)', loc=cp.loc(c))
                if c.func.id in ('min', 'max'):
                    has_default = any(k.arg == 'default' for k in c.keywords)
                    guarded = _guarded_nonempty(fn, c)
                    if not has_default and not guarded:
                        run.bad('C11.R5', f'{helper}/{c.func.id} of a possibly empty list', 'empty-fold',
                                f'{helper} calls {c.func.id}() on the filtered list without a guard or default: an area without '
                                f'numeric cells raises ValueError (Excel: 0)', loc=cp.loc(c))
                    else:
                        run.ok('C11.R5', f'{helper}[{cp.label}]/{c.func.id}', 'guarded', loc=cp.loc(c))
        # AVERAGE = sum / len of the same filtered list
        fn = cp.members.get('_average')
        if fn is None:
            run.bad('C11.R3', f'_average[{cp.label}]', 'missing', 'helper missing', loc=cp.path)
        else:
            param = [a.arg for a in fn.args.args if a.arg not in ('self', 'cls')][0]
            rets = sorted([n for n in ast.walk(fn) if isinstance(n, ast.Return)], key=lambda n: (n.lineno, n.col_offset))
            final = rets[-1].value if rets else None
            ok = isinstance(final, ast.BinOp) and isinstance(final.op, ast.Div)
            num_ok = den_ok = False
            if ok:
                num, den = final.left, final.right
                filtered_vars = {t.id for st in ast.walk(fn) if isinstance(st, ast.Assign) for t in st.targets
                                 if isinstance(t, ast.Name) and _is_filtered(st.value, param, set())}
                num_ok = (isinstance(num, ast.Call) and isinstance(num.func, ast.Attribute) and num.func.attr == '_sum' and
                          num.args and isinstance(num.args[0], ast.Name) and (num.args[0].id == param or num.args[0].id in filtered_vars)) or \
                         (isinstance(num, ast.Call) and isinstance(num.func, ast.Name) and num.func.id == 'sum' and
                          _is_filtered(num.args[0], param, filtered_vars))
                den_ok = isinstance(den, ast.Call) and isinstance(den.func, ast.Name) and den.func.id == 'len' and den.args and \
                    _is_filtered(den.args[0], param, filtered_vars)
            run.check(ok and num_ok, 'C11.R3', f'_average[{cp.label}]/numerator', 'average-numerator',
                      f'AVERAGE is computed as `{ast.unparse(final)[:80] if final is not None else "?"}`: the numerator is not the sum of '
                      f'the numeric cells of the argument', fact='sum of the filtered list', loc=cp.loc(fn))
            run.check(ok and den_ok, 'C11.R1', f'_average[{cp.label}]/denominator', 'average-denominator',
                      f'AVERAGE divides by `{ast.unparse(final.right)[:60] if ok else "?"}`, which is not the number of numeric cells '
                      f'(length of the numeric filter of the same argument)', fact='len of the filtered list', loc=cp.loc(fn))
            if ok and not _guarded_nonempty(fn, final):
                run.bad('C11.R5', '_average/division by a possibly zero count', 'empty-fold',
                        '_average divides by the number of numeric cells without a guard: an area without numeric cells raises '
                        'ZeroDivisionError (Excel: #DIV/0!)', loc=cp.loc(final))
        # AND / OR
        for helper, prim in (('_and', 'all'), ('_or', 'any')):
            fn = cp.members.get(helper)
            if fn is None:
                run.bad('C11.R3', f'{helper}[{cp.label}]', 'missing', 'helper missing', loc=cp.path)
                continue
            param = [a.arg for a in fn.args.args if a.arg not in ('self', 'cls')][0]
            rets = sorted([n for n in ast.walk(fn) if isinstance(n, ast.Return)], key=lambda n: (n.lineno, n.col_offset))
            final = rets[-1].value if rets else None
            ok = isinstance(final, ast.Call) and isinstance(final.func, ast.Name) and final.func.id == prim and final.args and \
                isinstance(final.args[0], ast.Name) and final.args[0].id == param
            run.check(ok, 'C11.R3', f'{helper}[{cp.label}]/primitive', 'wrong-fold',
                      f'{helper} returns `{ast.unparse(final)[:50] if final is not None else "?"}`; expected {prim}(arguments)',
                      fact=f'{prim}(arguments)', loc=cp.loc(fn))
        # COUNT = number of elements of type-filtered selections: len(F1 + F2 + ..), len(F1) + len(F2) + .., or
        # sum(len(g) for g in [F1, F2, ..]) -- locals that hold a selection are followed
        fn = cp.members.get('_count')
        if fn is not None:
            rets = sorted([n for n in ast.walk(fn) if isinstance(n, ast.Return)], key=lambda n: (n.lineno, n.col_offset))
            final = rets[-1].value if rets else None
            local = {}
            for st in ast.walk(fn):
                if isinstance(st, ast.Assign) and len(st.targets) == 1 and isinstance(st.targets[0], ast.Name):
                    local.setdefault(st.targets[0].id, []).append(st.value)

            def res(e):
                if isinstance(e, ast.Name) and len(local.get(e.id, [])) == 1:
                    return res(local[e.id][0])
                return e

            def concat(e):
                e = res(e)
                if isinstance(e, ast.BinOp) and isinstance(e.op, ast.Add):
                    return concat(e.left) + concat(e.right)
                return [e]

            def count_terms(e):
                """the selections whose sizes are added up, or None when the expression is not a count"""
                e = res(e)
                if isinstance(e, ast.Call) and isinstance(e.func, ast.Name) and e.func.id == 'len' and len(e.args) == 1:
                    return concat(e.args[0])
                if isinstance(e, ast.BinOp) and isinstance(e.op, ast.Add):
                    a, b = count_terms(e.left), count_terms(e.right)
                    return None if a is None or b is None else a + b
                if isinstance(e, ast.Call) and isinstance(e.func, ast.Name) and e.func.id == 'sum' and len(e.args) == 1 and \
                        isinstance(e.args[0], (ast.GeneratorExp, ast.ListComp)) and len(e.args[0].generators) == 1:
                    g_ = e.args[0].generators[0]
                    elt = e.args[0].elt
                    if isinstance(g_.target, ast.Name) and not g_.ifs and isinstance(elt, ast.Call) and isinstance(elt.func, ast.Name) and \
                            elt.func.id == 'len' and ast.unparse(elt.args[0]) == g_.target.id:
                        it = res(g_.iter)
                        if isinstance(it, (ast.List, ast.Tuple)):
                            out = []
                            for x in it.elts:
                                out += concat(x)
                            return out
                return None
            terms = count_terms(final) if final is not None else None
            run.check(terms is not None, 'C11.R3', f'_count[{cp.label}]/primitive', 'wrong-fold', 'COUNT does not return a number of '
                      'selected elements (a length / a sum of lengths)', fact='len(...)', loc=cp.loc(fn))
            for p_ in terms or []:
                okp = isinstance(p_, ast.Call) and isinstance(p_.func, ast.Attribute) and p_.func.attr.startswith('_only_')
                run.check(okp, 'C11.R1', f'_count[{cp.label}]/{ast.unparse(p_)[:40]}', 'unfiltered-count',
                          f'COUNT counts `{ast.unparse(p_)[:50]}` without a type filter', fact='type-filtered selection',
                          loc=cp.loc(p_))


def _guarded_nonempty(fn, node) -> bool:
    """a preceding early return / enclosing condition tests the filtered list (or its length) for emptiness"""
    from ..paths import path_conditions, parent_map
    conds = path_conditions(fn, node, parent_map(fn))
    for test, pol in conds:
        txt = ast.unparse(test)
        if '_only_numeric_list' in txt or 'len(' in txt:
            return True
    return False


def r9_flatten(run: Run, rt):
    """_flatten_list unfolds its argument completely: every scalar at any nesting depth appears once, in order, whatever stands
    in front of a nested list (engine F on small nested shapes)"""
    from ..finite import evaluator_for, Evaluator, AV, Unknown, AbsRaise

    def leaf(i):
        return AV('str', text='other', val=f'L{i}')

    def build(shape, counter):
        if shape == 's':
            counter[0] += 1
            return leaf(counter[0])
        return AV('list', items=tuple(build(x, counter) for x in shape))
    shapes = {'scalars only': ['s', 's'], 'rows of an area': [['s', 's'], ['s']], 'scalar before an area': ['s', [['s', 's'], ['s']]],
              'area before a scalar': [[['s'], ['s']], 's'], 'two areas': [[['s', 's']], [['s'], ['s']]], 'empty': [],
              'empty row inside': [[], ['s'], 's'], 'three levels': ['s', [['s', ['s', 's']]], 's']}
    for cp in rt.copies():
        fn = cp.members.get('_flatten_list')
        if fn is None:
            run.bad('C11.R9', f'_flatten_list[{cp.label}]', 'missing', 'the unfolding helper does not exist', loc=cp.path)
            continue
        for name, shape in shapes.items():
            cnt = [0]
            arg = build(shape, cnt)
            want = [f'L{i}' for i in range(1, cnt[0] + 1)]
            ev = evaluator_for(cp, max_depth=10)
            construct = f'_flatten_list[{cp.label}]/{name}'
            try:
                res = ev.call_method('_flatten_list', [arg])
            except Unknown as u:
                raise AnalysisError('C11.R9', f'{construct}: the abstraction cannot follow the helper ({u})')
            except AbsRaise as r_:
                run.bad('C11.R9', construct, f'raises:{r_.exc}', f'_flatten_list raises {r_.exc} on {name}', loc=cp.loc(fn))
                continue
            got = [x.val if x.kind == 'str' else f'<{x.kind}>' for x in (res.items or ())] if res.kind == 'list' else None
            run.check(got == want, 'C11.R9', construct, 'not-unfolded',
                      f'_flatten_list on the shape "{name}" {shape} returns {got}; every scalar must appear once, in order, with no '
                      f'nested list left (a nested list is then dropped by the numeric filter and its cells are not folded)',
                      fact=f'{len(want)} leaves in order', loc=cp.loc(fn))


def run(run: Run):
    from .common import cached_guard as _cached_guard
    src = get_source()
    g = get_grammar(src)
    em = get_emission(src)
    rt = get_runtime(src)
    run.rule('C11.R1', 'data passes the numeric filter before every fold primitive')
    run.rule('C11.R2', 'the numeric filter admits exactly int/float; the blank predicate exactly blank / empty text / None')
    run.rule('C11.R3', 'Excel function <-> fold primitive table')
    run.rule('C11.R4', 'argument plumbing of the eight functions equals the confirmed reference')
    run.rule('C11.R5', 'fold primitives that fail on an empty list are guarded')
    _cached_guard(run, 'C11.R1', r1_r3_r5, rt)
    _cached_guard(run, 'C11.R2', r2, rt)
    _cached_guard(run, 'C11.R4', check_plumbing, 'C11.R4', src, em, rt, FUNCS)
    # an aggregate can only fold the numeric cells of an area if the reader delivered every cell of it (a dropped row turns
    # its zeros into blanks, which the numeric filter then ignores): shared with C18.R1
    from .common import borrow
    from . import c18
    run.rule('C11.R6', 'the reader delivers every row and cell of an area (append-only data lists; shared with C18.R1)')
    borrow(run, 'C11.R6', c18.r1_any, src)
    # a function result depends on its arguments only: no runtime helper keeps results or other state between calls
    from .common import borrow as _borrow
    from . import c08 as _c08
    from ..callgraph import get_callgraph as _gcg
    from ..source import get_source as _gs
    from ..runtime import get_runtime as _grt
    run.rule('C11.R8', 'runtime helpers are pure functions of their arguments: no write effects, no value cache (shared with C08.R1/R4)')
    _src = _gs()
    _borrow(run, 'C11.R8', _c08.r1, _src, _grt(_src), _gcg(_src))
    _borrow(run, 'C11.R8', _c08.r4, _src, _grt(_src))
    run.rule('C11.R9', 'the argument list is unfolded completely whatever the order of scalars and areas')
    _cached_guard(run, 'C11.R9', r9_flatten, rt)
    from . import c03 as _c03x
    from .common import borrow as _bx
    from ..grammar import get_grammar as _ggx
    from ..emission import get_emission as _gex
    from ..callgraph import get_callgraph as _gcx
    from ..source import get_source as _gsx
    run.rule('C11.R10', 'every cell of an area is read through the member of the cell, also outside the used range (shared with C03.R1/R2)')
    _sx = _gsx()
    _bx(run, 'C11.R10', _c03x.r1, _sx, _ggx(_sx), _gex(_sx), _gcx(_sx))
    _bx(run, 'C11.R10', _c03x.r2, _sx, _gcx(_sx))
    from . import c13 as _c13
    from .common import borrow as _b13
    run.rule('C11.R11', 'only Excel error values make an aggregate return an error; other text is ignored (shared with C13.R4)')
    def _table_only(sub_run, rt_):
        tmp = Run('tmp', run.tier, run.seed, quiet=True)
        _c13.r4(tmp, rt_)
        for o in tmp.obligations:
            if o['verdict'] == 'holds' and o['construct'].startswith('error-table'):
                sub_run.ok(o['rule'], o['construct'], o['fact'], loc=o['loc'])
        for f in tmp.findings:
            if f['sub'] in ('missing-error-value', 'not-an-excel-error'):
                sub_run.bad(f['rule'], f['construct'], f['sub'], f['message'], loc=f['loc'])
    _b13(run, 'C11.R11', _table_only, rt)
    run.floor('C11.R11', 14)
    run.floor('C11.R10', 15)
    run.floor('C11.R9', 16)
    run.floor('C11.R8', 50)
    run.floor('C11.R6', 5)
    from . import c02
    run.rule('C11.R7', 'an area argument enumerates every cell incl. the last row/column, each once (shared with C02.R2/R4)')
    borrow(run, 'C11.R7', c02.r2, src)
    borrow(run, 'C11.R7', c02.r4_r5, src)
    from ..grammar import get_grammar as _gg
    borrow(run, 'C11.R7', c02.r1_any, src, _gg(src))          # the corners of the area as the reference regex groups give them
    run.floor('C11.R7', 14)
    run.floor('C11.R1', 4)
    run.floor('C11.R2', 50)
    run.floor('C11.R3', 14)
    run.floor('C11.R4', 8)
    run.floor('C11.R5', 1)
    from .common import shared_mechanisms as _shared
    _shared(run, 'C11', 12, ['lexer', 'literals'])
    from .common import shared_mechanisms as _shared_f
    _shared_f(run, 'C11', 14, ['formulas'])
    from .common import shared_mechanisms as _shared_g
    _shared_g(run, 'C11', 15, ['override-lookup'])
    return INFO
