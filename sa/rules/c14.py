"""C14 -- lookup and reference functions return the addressed element (DESIGN 3/C14)."""
from __future__ import annotations

import ast

from ..core import Run, AnalysisError, loc_of
from ..source import get_source
from ..grammar import get_grammar
from ..emission import get_emission, helper_calls
from ..runtime import get_runtime, may_complete_normally
from ..finite import evaluator_for, Evaluator, AV, Unknown, AbsRaise, const_av
from ..regexmodel import group_role
from ..symeval import NumV, GroupStr, Opaque, Code, Part, Const
from .common import check_plumbing, function_token_of, skeleton_of, all_skeletons, reachable_function_emissions

INFO = {
    'explanation': (
        'Decided (structural necessary conditions): R1 the value each optional argument takes when omitted -- printed by the '
        'translator or taken from the helper signature -- equals Excel\'s default (VLOOKUP range_lookup TRUE, MATCH match_type 1, '
        'XMATCH match_mode 0 / search_mode 1, INDEX column = whole row, area 1) and XMATCH\'s printed defaults select the forward exact '
        '_match branch (abstract evaluation of the match statement); R2 argument plumbing equals the hand-confirmed reference; R3 '
        'every runtime helper that any emission calls returns on every path (no silent None); R4 COLUMN is 1-based in all three '
        'forms (column letters -> column_index_from_string; 0-based coordinate + 1); R5 positions and rows that the scanning '
        'helpers return are taken from an iteration over the original area parameter (not a filtered or reversed copy); R6 the '
        '1-based row/column/area numbers index with `n - 1`. Not decided: the scans themselves on concrete key columns (first of '
        'duplicates, type gates), ADDRESS base-26 arithmetic.'),
    'rule': 'one obligation per production/default, per helper, per loop, per subscript',
    'trusted': ['Python enumerate/indexing semantics'],
}

FUNCS = ['VLOOKUP', 'MATCH', 'XMATCH', 'INDEX', 'ADDRESS', 'COLUMN']


def _effective(call: ast.Call, fn: ast.FunctionDef, param: str):
    """('const', value) | ('expr', text) | ('missing',) : what reaches `param` of helper fn at this emitted call"""
    static = any(isinstance(d, ast.Name) and d.id == 'staticmethod' for d in fn.decorator_list)
    params = [a.arg for a in fn.args.posonlyargs + fn.args.args]
    if not static:
        params = params[1:]
    for k in call.keywords:
        if k.arg == param:
            return _lit(k.value)
    pos = [a for a in call.args if not isinstance(a, ast.Starred)]
    if param in params:
        i = params.index(param)
        if i < len(pos):
            return _lit(pos[i])
        allp = [a.arg for a in fn.args.posonlyargs + fn.args.args]
        nd = len(fn.args.defaults)
        dflt = dict(zip(allp[len(allp) - nd:], fn.args.defaults))
        if param in dflt:
            return _lit(dflt[param])
    return ('missing',)


def _lit(node):
    try:
        return ('const', ast.literal_eval(node))
    except Exception:
        return ('expr', ast.unparse(node)[:40])


DEFAULTS = [
    # (Excel function, number of Excel arguments present, helper, parameter, predicate on the constant, description)
    ('VLOOKUP', 3, '_vlookup', 'range_lookup', lambda v: v is True or v == 1, 'TRUE (approximate match)'),
    ('MATCH', 2, '_match', 'match_type', lambda v: v == 1 and v is not True, '1 (largest value not greater)'),
    ('XMATCH', 2, '_xmatch', 'match_mode', lambda v: v == 0 and v is not False, '0 (exact match)'),
    ('XMATCH', 2, '_xmatch', 'search_mode', lambda v: v == 1, '1 (first to last)'),
    ('XMATCH', 3, '_xmatch', 'search_mode', lambda v: v == 1, '1 (first to last)'),
    ('INDEX', 2, '_index', 'column_number', lambda v: v is None or v == 0, 'omitted = whole row'),
    ('INDEX', 2, '_index', 'area_number', lambda v: v == 1, '1'),
    ('INDEX', 3, '_index', 'area_number', lambda v: v == 1, '1'),
]


def _excel_arg_count(g, tk, production):
    prod = g.composites[tk].productions[production]
    return sum(1 for s in prod if s not in ('BracketStartToken', 'BracketFinishToken', 'SeparatorToken') and
               not (s in g.terminals and g.terminals[s].keyword))


def r1(run: Run, src, g, em, rt):
    tmpl = rt.template
    seen = set()
    for fname, nargs, helper, param, pred, desc in DEFAULTS:
        comp = function_token_of(g, fname)
        if comp is None:
            raise AnalysisError('C14.R1', f'{fname} not found')
        found = False
        for (tr, tk) in em.function_pairs():
            if tk != comp.name:
                continue
            for e in em.pairs[(tr, tk)]:
                if e.outcome.kind != 'return' or em.unreachable(e) or e.production is None:
                    continue
                if _excel_arg_count(g, tk, e.production) != nargs:
                    continue
                sk = skeleton_of(em, e)
                for s in all_skeletons(sk):
                    if s.tree is None:
                        continue
                    for name, call in helper_calls(s.tree):
                        if name != helper or helper not in tmpl.members:
                            continue
                        key = (fname, e.production, param)
                        if key in seen:
                            continue
                        seen.add(key)
                        found = True
                        eff = _effective(call, tmpl.members[helper], param)
                        construct = f'{fname}/production[{e.production}]/{param}'
                        loc = loc_of(src.cls(tr).module.path, src.cls(tr).node)
                        if eff[0] == 'const':
                            run.check(pred(eff[1]), 'C14.R1', construct, 'wrong-default',
                                      f'{fname} with {nargs} argument(s): the omitted {param} reaches {helper} as {eff[1]!r}; '
                                      f'Excel\'s default is {desc}', fact=f'{param} = {eff[1]!r}', loc=loc)
                        elif eff[0] == 'missing':
                            run.bad('C14.R1', construct, 'no-default',
                                    f'{fname} with {nargs} argument(s): nothing reaches the parameter {param} of {helper}', loc=loc)
                        else:
                            run.bad('C14.R1', construct, 'default-not-constant',
                                    f'{fname} with {nargs} argument(s): {param} is filled with `{eff[1]}` although the argument is '
                                    f'omitted', loc=loc)
        if not found:
            raise AnalysisError('C14.R1', f'no emission of {fname} with {nargs} arguments calls {helper}')
    # XMATCH: with the defaults the helper selects the forward _match with the exact mode
    for cp in rt.copies():
        fn = cp.members.get('_xmatch')
        if fn is None:
            continue
        V, ARR = AV('other', val=('the', 'value')), AV('other', val=('the', 'array'))
        rec = []

        def m_hook(ev, args, rec=rec):
            rec.append(('_match', args))
            return AV('other', val=('result',))

        def b_hook(ev, args, rec=rec):
            rec.append(('_binary_search', args))
            raise Unknown('binary search result')
        for sm in (const_av(True), const_av(1)):
            rec.clear()
            ev = evaluator_for(cp, hooks={'_match': m_hook, '_binary_search': b_hook})
            construct = f'_xmatch[{cp.label}]/defaults(search_mode={sm.val!r})'
            try:
                ev.call_method('_xmatch', [V, ARR, const_av(0), sm])
            except Unknown as u:
                run.bad('C14.R1', construct, 'default-branch', f'with match_mode 0 and search_mode {sm.val!r} _xmatch does not '
                                                               f'take the forward linear search ({u})', loc=cp.loc(fn))
                continue
            except AbsRaise as r:
                run.bad('C14.R1', construct, 'default-raises', f'_xmatch raises {r.exc} for the default modes', loc=cp.loc(fn))
                continue
            ok = len(rec) == 1 and rec[0][0] == '_match' and rec[0][1][0] == V and rec[0][1][1] == ARR and \
                len(rec[0][1]) > 2 and rec[0][1][2].val == 0
            run.check(ok, 'C14.R1', construct, 'default-branch',
                      f'with the default modes _xmatch calls {[(n, [repr(a) for a in args]) for n, args in rec]}; expected '
                      f'_match(value, array, 0) on the unreversed array', fact='_match(value, array, 0)', loc=cp.loc(fn))


def r3(run: Run, src, g, em, rt):
    """every emitted helper answers on every path"""
    called = set()
    for (tr, tk), ems in em.pairs.items():
        for e in ems:
            if e.outcome.kind != 'return' or em.unreachable(e):
                continue
            sk = skeleton_of(em, e)
            if sk is None:
                continue
            for s in all_skeletons(sk):
                if s.tree is None:
                    continue
                for name, call in helper_calls(s.tree):
                    called.add(name)
    called.add('_cell_preprocessor')
    called.add('exec_function_in')
    for cp in rt.copies():
        for name in sorted(called):
            fn = cp.members.get(name)
            if fn is None:
                continue
            run.check(not may_complete_normally(fn.body), 'C14.R3', f'{name}[{cp.label}]', 'falls-off-the-end',
                      f'{name} has a path that falls off the end of the function and silently returns None to the formula',
                      fact='returns or raises on every path', loc=cp.loc(fn))


def r4(run: Run, src, g, em):
    comp = function_token_of(g, 'COLUMN')
    if comp is None:
        raise AnalysisError('C14.R4', 'COLUMN not found')
    for (tr, tk) in em.function_pairs():
        if tk != comp.name:
            continue
        loc = loc_of(src.cls(tr).module.path, src.cls(tr).node)
        done = set()
        for e in em.pairs[(tr, tk)]:
            o = e.outcome
            if o.kind != 'return' or em.unreachable(e):
                continue
            prod = g.composites[tk].productions[e.production]
            v = o.value
            nums = []
            if isinstance(v, NumV):
                nums = [v]
            elif isinstance(v, Code):
                def walk(c):
                    for p in c.parts:
                        if isinstance(p, Part):
                            if p.kind == 'num':
                                nums.append(p.a)
                            elif p.kind == 'sub':
                                walk(p.a)
                walk(v)
            form = 'own-cell' if len(prod) == 3 else ('cell' if 'CellIdentifierToken' in prod else 'area')
            if (form, repr(nums)) in done:
                continue
            done.add((form, repr(nums)))
            construct = f'COLUMN/{form}/production[{e.production}]'
            if len(nums) != 1:
                run.bad('C14.R4', construct, 'not-a-number', f'COLUMN ({form} form) does not print one computed number: {v!r}'[:200],
                        loc=loc)
                continue
            n = nums[0]
            ok, why = _one_based(g, n)
            run.check(ok, 'C14.R4', construct, 'column-base',
                      f'COLUMN ({form} form) is computed as {_numdesc(n)}: {why}', fact=_numdesc(n), loc=loc)


def _numdesc(n):
    if isinstance(n, NumV):
        if n.op == 'bin':
            return '(' + f' {n.args[0]} '.join(_numdesc(a) for a in n.args[1:]) + ')'
        if n.op == 'colidx':
            return f'column_index_from_string({_numdesc(n.args[0])})'
        if n.op == 'coord':
            return f'{n.args[0]}0'
        if n.op == 'const':
            return repr(n.args[0])
        return n.op
    if isinstance(n, GroupStr):
        return f'{n.owner}.group{n.gid - 1}'
    if isinstance(n, Opaque):
        return n.why
    return type(n).__name__


def _one_based(g, n):
    """is this number a 1-based column number?"""
    if isinstance(n, NumV) and n.op == 'colidx':
        a = n.args[0]
        if isinstance(a, GroupStr) and a.owner in g.terminals:
            role = group_role(g.terminals[a.owner].rx, a.gid)
            if role == 'COL':
                return True, 'column letters -> 1-based index'
            return False, f'column_index_from_string is applied to a group whose role is {role}, not the column letters'
        return False, 'column_index_from_string of something that is not the column-letters group'
    if isinstance(n, NumV) and n.op == 'bin' and n.args[0] == '+':
        a, b = n.args[1], n.args[2]
        for x, y in ((a, b), (b, a)):
            zero_based = (isinstance(x, NumV) and x.op == 'coord' and x.args[0] == 'column') or \
                         (isinstance(x, Opaque) and x.why == 'in_cell.column')
            if zero_based and isinstance(y, NumV) and y.op == 'const':
                if y.args[0] == 1:
                    return True, '0-based coordinate + 1'
                return False, f'0-based column coordinate + {y.args[0]} is not the 1-based column number'
        return False, 'not (0-based column coordinate + 1)'
    if isinstance(n, NumV) and n.op == 'coord':
        return False, f'the 0-based {n.args[0]} coordinate is returned without + 1'
    if isinstance(n, Opaque) and n.why == 'in_cell.column':
        return False, 'the 0-based column of the formula cell is returned without + 1'
    return False, 'not recognised as a 1-based column number'


SCANNERS = {'_match': 'lookup_array', '_vlookup': 'table_array', '_xmatch': 'lookup_array', '_binary_search': 'arr'}


def r5(run: Run, rt):
    """positions / rows are taken from an iteration over the original area"""
    for cp in rt.copies():
        for name, param in SCANNERS.items():
            fn = cp.members.get(name)
            if fn is None:
                run.bad('C14.R5', f'{name}[{cp.label}]', 'missing', 'helper missing', loc=cp.path)
                continue
            params = [a.arg for a in fn.args.posonlyargs + fn.args.args]
            if param not in params:
                raise AnalysisError('C14.R5', f'{name} has no parameter {param} (renamed?)')
            loc = cp.loc(fn)
            rebound = [n for n in ast.walk(fn) if isinstance(n, ast.Name) and n.id == param and isinstance(n.ctx, ast.Store)]
            run.check(not rebound, 'C14.R5', f'{name}[{cp.label}]/{param}', 'area-rebound',
                      f'{name} rebinds its area parameter {param} (filtered / re-ordered copy): positions computed afterwards no '
                      f'longer refer to the rows of the original area', fact=f'{param} is never rebound', loc=loc)
            loops = [n for n in ast.walk(fn) if isinstance(n, (ast.For, ast.comprehension))]
            for lp in loops:
                it = lp.iter
                inner = it.args[0] if isinstance(it, ast.Call) and isinstance(it.func, ast.Name) and it.func.id == 'enumerate' \
                    and it.args else it
                names = {n.id for n in ast.walk(inner) if isinstance(n, ast.Name)}
                if param not in names and not (names & _derived_from(fn, param)):
                    continue
                ok = isinstance(inner, ast.Name) and inner.id == param
                if isinstance(it, ast.Call) and isinstance(it.func, ast.Name) and it.func.id == 'enumerate':
                    start = it.args[1] if len(it.args) > 1 else next((k.value for k in it.keywords if k.arg == 'start'), None)
                    if start is not None and not (isinstance(start, ast.Constant) and start.value == 0):
                        # a non-zero start k: every position derived from the index (index + c in a returned or stored value)
                        # must satisfy k + c = 1 (positions are 1-based)
                        tgt = lp.target
                        iv = tgt.elts[0].id if isinstance(tgt, ast.Tuple) and isinstance(tgt.elts[0], ast.Name) else None
                        if not (isinstance(start, ast.Constant) and isinstance(start.value, int)) or iv is None:
                            ok = False
                        else:
                            k0 = start.value
                            body_nodes = lp.body if isinstance(lp, ast.For) else []
                            offs = set()
                            for st_ in body_nodes:
                                for v_ in ast.walk(st_):
                                    val = v_.value if isinstance(v_, (ast.Return, ast.Assign, ast.Yield)) and getattr(v_, 'value', None) is not None else None
                                    if val is None:
                                        continue
                                    for x in ast.walk(val):
                                        if isinstance(x, ast.BinOp) and isinstance(x.op, (ast.Add, ast.Sub)) and isinstance(x.left, ast.Name) \
                                                and x.left.id == iv and isinstance(x.right, ast.Constant) and isinstance(x.right.value, int):
                                            offs.add(x.right.value if isinstance(x.op, ast.Add) else -x.right.value)
                                    bare = [x for x in ast.walk(val) if isinstance(x, ast.Name) and x.id == iv]
                                    inbin = [x.left for x in ast.walk(val) if isinstance(x, ast.BinOp) and isinstance(x.left, ast.Name) and x.left.id == iv]
                                    if len(bare) > len(inbin):
                                        offs.add(0)
                            ok = ok and bool(offs) and all(k0 + c == 1 for c in offs)
                run.check(ok, 'C14.R5', f'{name}[{cp.label}]/loop over {ast.unparse(inner)[:30]}', 'scan-not-over-original-area',
                          f'{name} scans `{ast.unparse(it)[:60]}` instead of the area parameter itself: the position it returns is '
                          f'counted in a different sequence', fact=f'iterates {param}', loc=cp.loc(it))
            # calls that hand a transformed area to another position-returning scanner
            for c in [n for n in ast.walk(fn) if isinstance(n, ast.Call) and isinstance(n.func, ast.Attribute) and
                      isinstance(n.func.value, ast.Name) and n.func.value.id == 'self' and n.func.attr in SCANNERS]:
                callee = cp.members.get(c.func.attr)
                if callee is None:
                    continue
                cparams = [a.arg for a in callee.args.posonlyargs + callee.args.args][1:] \
                    if not any(isinstance(d, ast.Name) and d.id == 'staticmethod' for d in callee.decorator_list) \
                    else [a.arg for a in callee.args.posonlyargs + callee.args.args]
                target = SCANNERS[c.func.attr]
                if target in cparams and cparams.index(target) < len(c.args):
                    a = c.args[cparams.index(target)]
                    ok = isinstance(a, ast.Name) and a.id == param
                    run.check(ok, 'C14.R5', f'{name}/{c.func.attr}({ast.unparse(a)[:30]})', 'transformed-area-passed',
                              f'{name} passes `{ast.unparse(a)[:40]}` to {c.func.attr}: the position that comes back is counted in '
                              f'the transformed sequence and is returned as if it were a position in the original area',
                              fact='passes the area unchanged', loc=cp.loc(c))


def _derived_from(fn, param):
    out = set()
    for st in ast.walk(fn):
        if isinstance(st, ast.Assign) and any(isinstance(n, ast.Name) and n.id == param for n in ast.walk(st.value)):
            for t in st.targets:
                if isinstance(t, ast.Name):
                    out.add(t.id)
    return out


ONE_BASED = {'_index': ['row_number', 'column_number', 'area_number'], '_vlookup': ['col_index_num']}


def r6(run: Run, rt):
    for cp in rt.copies():
        for name, params in ONE_BASED.items():
            fn = cp.members.get(name)
            if fn is None:
                run.bad('C14.R6', f'{name}[{cp.label}]', 'missing', 'helper missing', loc=cp.path)
                continue
            have = [a.arg for a in fn.args.posonlyargs + fn.args.args]
            for p in params:
                if p not in have:
                    raise AnalysisError('C14.R6', f'{name} has no parameter {p} (renamed?)')
                uses = [n for n in ast.walk(fn) if isinstance(n, ast.Subscript) and isinstance(n.ctx, ast.Load) and
                        any(isinstance(x, ast.Name) and x.id == p for x in ast.walk(n.slice))]
                if not uses:
                    run.bad('C14.R6', f'{name}[{cp.label}]/{p}', 'unused-index',
                            f'the 1-based argument {p} of {name} never indexes anything', loc=cp.loc(fn))
                    continue
                for u in uses:
                    sl = u.slice
                    ok = isinstance(sl, ast.BinOp) and isinstance(sl.op, ast.Sub) and isinstance(sl.left, ast.Name) and \
                        sl.left.id == p and isinstance(sl.right, ast.Constant) and sl.right.value == 1
                    run.check(ok, 'C14.R6', f'{name}[{cp.label}]/[{ast.unparse(sl)}]', 'off-by-one',
                              f'{name} indexes with `{ast.unparse(sl)}`; the Excel argument {p} is 1-based, the list is 0-based: '
                              f'expected `{p} - 1`', fact=f'[{p} - 1]', loc=cp.loc(u))


# ---------------------------------------------------------------------------------------------------
# R7: which row a scan answers with -- first equal row (exact), last row not greater (approximate, ascending)
# ---------------------------------------------------------------------------------------------------
_NEG = {ast.Eq: ast.NotEq, ast.NotEq: ast.Eq, ast.Lt: ast.GtE, ast.LtE: ast.Gt, ast.Gt: ast.LtE, ast.GtE: ast.Lt}
_SWAP = {ast.Eq: ast.Eq, ast.NotEq: ast.NotEq, ast.Lt: ast.Gt, ast.LtE: ast.GtE, ast.Gt: ast.Lt, ast.GtE: ast.LtE}
_SYM = {ast.Eq: '==', ast.NotEq: '!=', ast.Lt: '<', ast.LtE: '<=', ast.Gt: '>', ast.GtE: '>='}


def _key_relations(test, elem: str, value: str):
    """operators of the comparisons `key OP lookup value` inside a test (key = <elem>[0], case-normalisers ignored);
    the conditional-expression form `A if isinstance(..) else B` contributes both arms"""
    out = set()

    def strip(e):
        while isinstance(e, ast.Call) and isinstance(e.func, ast.Attribute) and e.func.attr in ('lower', 'casefold', 'upper') and not e.args:
            e = e.func.value
        return e
    for c in ast.walk(test):
        if isinstance(c, ast.Compare) and len(c.ops) == 1:
            l, r = strip(c.left), strip(c.comparators[0])
            lt, rt_ = ast.unparse(l), ast.unparse(r)
            if lt == f'{elem}[0]' and rt_ == value:
                out.add(type(c.ops[0]))
            elif rt_ == f'{elem}[0]' and lt == value:
                out.add(_SWAP[type(c.ops[0])])
    return out


def r7(run: Run, rt):
    from ..paths import parent_map, path_conditions
    for cp in rt.copies():
        for h in ('_vlookup', '_match'):
            fn = cp.members.get(h)
            if fn is None:
                run.bad('C14.R7', f'{h}[{cp.label}]', 'missing', f'helper {h} is missing', loc=cp.path)
                continue
            ps = [a.arg for a in fn.args.args if a.arg not in ('self', 'cls')]
            value, area = ps[0], ps[1]
            parents = parent_map(fn)
            loops = [n for n in ast.walk(fn) if isinstance(n, ast.For) and area in {x.id for x in ast.walk(n.iter) if isinstance(x, ast.Name)}]
            if not loops:
                raise AnalysisError('C14.R7', f'{h}: no scan loop over `{area}` found')
            seen = 0
            for loop in loops:
                tgt = loop.target
                elem = tgt.elts[-1].id if isinstance(tgt, ast.Tuple) and isinstance(tgt.elts[-1], ast.Name) else \
                    tgt.id if isinstance(tgt, ast.Name) else None
                if elem is None:
                    raise AnalysisError('C14.R7', f'{h}: unmodelled loop target `{ast.unparse(tgt)}`')
                # mode of the loop / of a site inside it
                def mode_of(node):
                    conds = path_conditions(fn, node, parents)
                    m = None
                    for t, pol in conds:
                        txt = ast.unparse(t)
                        if h == '_vlookup' and len(ps) >= 4 and txt == ps[3]:
                            m = 'approx' if pol else 'exact'
                        if h == '_vlookup' and len(ps) >= 4 and txt == f'not {ps[3]}':
                            m = 'exact' if pol else 'approx'
                    q = parents.get(node)
                    while q is not None:
                        if isinstance(q, ast.match_case):
                            if isinstance(q.pattern, ast.MatchValue) and isinstance(q.pattern.value, ast.Constant) and q.pattern.value.value == 0:
                                m = 'exact'
                            elif q.guard is not None:
                                g = ast.unparse(q.guard).replace(' ', '')
                                if g.endswith('>0'):
                                    m = 'approx'
                                elif g.endswith('<0'):
                                    m = 'approx-desc'
                        q = parents.get(q)
                    return m
                sites = [n for n in ast.walk(loop) if isinstance(n, ast.Return)]
                stores = [n for n in ast.walk(loop) if isinstance(n, ast.Assign) and n.targets and isinstance(n.targets[0], ast.Name) and
                          n.targets[0].id.startswith('last_')]
                for node in sites + stores:
                    conds = [c for c in path_conditions(fn, node, parents) if any(c[0] is x for x in ast.walk(loop))]
                    rels = set()
                    for t, pol in conds:
                        for op in _key_relations(t, elem, value):
                            rels.add(op if pol else _NEG[op])
                    if not rels:
                        continue
                    m = mode_of(node)
                    kind = 'return' if isinstance(node, ast.Return) else 'candidate'
                    relsym = '/'.join(sorted(_SYM[r] for r in rels))
                    modes = [m] if m else ['exact', 'approx']          # a site not conditioned on the mode is reached in both
                    for mm in modes:
                        seen += 1
                        construct = f'{h}[{cp.label}]/{mm}/{kind} when key {relsym} value'
                        if mm == 'exact':
                            ok = rels == {ast.Eq} if kind == 'return' else True
                            run.check(ok, 'C14.R7', construct, 'exact-answer',
                                      f'{h}: in exact mode the scan answers when key {relsym} value; it must answer at the first row whose key '
                                      f'EQUALS the value', fact='first equal row', loc=cp.loc(node))
                        elif mm == 'approx':
                            if kind == 'return':
                                ok = rels == {ast.Gt}
                                run.check(ok, 'C14.R7', construct, 'approximate-stops-early',
                                          f'{h}: in approximate mode the scan stops and answers when key {relsym} value; on ascending keys it '
                                          f'may only stop at the first key GREATER than the value -- stopping at an equal key returns the first '
                                          f'of several equal rows instead of the last', fact='stops only when key > value', loc=cp.loc(node))
                            else:
                                ok = rels == {ast.LtE}
                                run.check(ok, 'C14.R7', construct, 'approximate-candidate',
                                          f'{h}: in approximate mode a row becomes the candidate when key {relsym} value; it must be every '
                                          f'row whose key is NOT GREATER than the value (<=), so that an equal key and the last of equal keys '
                                          f'win', fact='candidate when key <= value', loc=cp.loc(node))
                        # descending approximate mode (-1) is outside the statement
            if seen < 2:
                # the scan is not written as a loop with comparisons of <row>[0] in the loop body: decide by evaluation
                r7_eval(run, rt, only={(cp.label, h)})


def r7_eval(run: Run, rt, only=None):
    """the same obligations as the structural R7, decided by abstract evaluation (engine F) of the helper on small key columns:
    exact mode answers at the FIRST equal key, approximate mode on ascending keys at the LAST key <= value (the last row when
    the value exceeds every key, #N/A when it is below every key)"""
    from ..finite import evaluator_for, Evaluator, AV, const_av, Unknown, AbsRaise

    BLANK = AV('blank', sign='zero')

    def area(keys):
        return AV('list', items=tuple(AV('list', items=(k if isinstance(k, AV) else const_av(k), AV('str', text='other', val=f'P{i + 1}')))
                                      for i, k in enumerate(keys)))
    cases = [('exact', [1, 2, 2, 3], 2, 2, 'first of several equal keys'), ('exact', [1, 2, 3], 3, 3, 'equal key in the last row'),
             ('exact', [1, 2, 3], 5, '#N/A', 'no equal key'),
             ('approx', [1, 2, 2, 3], 2, 3, 'last of several equal keys'), ('approx', [1, 2, 4], 3, 2, 'last key below the value'),
             ('approx', [1, 2, 3], 5, 3, 'value above every key'), ('approx', [2, 3, 4], 1, '#N/A', 'value below every key'),
             # rows that do not take part (blank key, key of another kind) still count as positions of the area
             ('exact', [BLANK, 1, 2], 2, 3, 'a blank key row in front'), ('exact', [1, 'x', 2], 2, 3, 'a text key row in between'),
             ('approx', [BLANK, 1, 2, 4], 3, 3, 'a blank key row in front (approximate)'),
             ('exact', ['apple', 'Banana', 'Cherry'], 'Banana', 2, 'a text key with an upper-case letter'),
             ('exact', ['apple', 'Banana', 'Cherry'], 'apple', 1, 'a lower-case text key'),
             ('exact', ['apple', 'Banana', 'Cherry'], 'Date', '#N/A', 'a text that is no key')]
    for cp in rt.copies():
        for h in ('_vlookup', '_match'):
            if only is not None and (cp.label, h) not in only:
                continue
            fn = cp.members.get(h)
            if fn is None:
                continue
            for mode, keys, val, want_pos, desc in cases:
                if h == '_vlookup':
                    args = [const_av(val), area(keys), const_av(2), const_av(mode == 'approx')]
                    want = want_pos if want_pos == '#N/A' else f'P{want_pos}'
                else:
                    args = [const_av(val), area(keys), const_av(0 if mode == 'exact' else 1)]
                    want = want_pos
                construct = f'{h}[{cp.label}]/{mode}/{desc}'
                ev = evaluator_for(cp, max_depth=8)
                try:
                    res = ev.call_method(h, args)
                except Unknown as u:
                    raise AnalysisError('C14.R7', f'{construct}: the abstraction cannot follow the helper ({u})')
                except AbsRaise as r_:
                    run.bad('C14.R7', construct, f'raises:{r_.exc}', f'{h} raises {r_.exc} ({mode} mode, keys {keys}, value {val})',
                            loc=cp.loc(fn))
                    continue
                sub = 'exact-answer' if mode == 'exact' else 'approximate-answer'
                run.check(res.val == want, 'C14.R7', construct, sub,
                          f'{h}: {mode} mode, keys {keys}, value {val} ({desc}): the answer is {res.val!r}, it must be {want!r}',
                          fact=f'-> {res.val!r}', loc=cp.loc(fn))


def r7_eval_all(run: Run, rt):
    """evaluation-based obligations for every helper the abstraction can follow (in addition to the structural reading)"""
    for cp in rt.copies():
        for h in ('_vlookup', '_match'):
            sub = Run('tmp', run.tier, run.seed, quiet=True)
            try:
                r7_eval(sub, rt, only={(cp.label, h)})
            except AnalysisError as e:
                run.note(f'C14.R7 evaluation skipped for {h}[{cp.label}]: {e.reason}')
                continue
            for o in sub.obligations:
                if o['verdict'] == 'holds' and not any(x['construct'] == o['construct'] for x in run.obligations):
                    run.ok('C14.R7', o['construct'], o['fact'], loc=o['loc'])
            for f in sub.findings:
                if not any(x['construct'] == f['construct'] for x in run.findings):
                    run.bad('C14.R7', f['construct'], f['sub'], f['message'], loc=f['loc'])


def r11_index_eval(run: Run, rt):
    """INDEX decided by abstract evaluation (engine F) on a small area: the addressed cell and nothing else decides the result --
    an error value, a blank or a text elsewhere in the area is not looked at --, a row or column out of the area is #REF!"""
    from ..finite import evaluator_for, AV, const_av, Unknown, AbsRaise
    BLANK = AV('blank', sign='zero')

    def lst(x):
        return AV('list', items=tuple(lst(y) for y in x)) if isinstance(x, list) else (x if isinstance(x, AV) else const_av(x))
    grid = [[11, 12, 13], ['#N/A', 22, BLANK], [31, '#DIV/0!', 'text']]
    column = [[1], ['#N/A'], [3]]
    row = [[5, '#VALUE!', 7]]
    cases = [(grid, 1, 1, 11, 'first cell'), (grid, 1, 3, 13, 'last column of the first row'), (grid, 3, 1, 31, 'first column of the last row'),
             (grid, 2, 2, 22, 'a cell beside error values'), (grid, 3, 3, 'text', 'last cell'), (grid, 2, 1, '#N/A', 'an error value that is addressed'),
             (grid, 4, 1, '#REF!', 'row beyond the area'), (grid, 1, 4, '#REF!', 'column beyond the area'),
             (column, 1, None, 1, 'column area, first'), (column, 3, None, 3, 'column area, a cell below an error value'),
             (column, 3, 1, 3, 'column area with a column number'), (row, 3, None, 7, 'row area addressed by one number'),
             (row, 1, 3, 7, 'row area, a cell after an error value'), (row, 1, 1, 5, 'row area, first')]
    for cp in rt.copies():
        fn = cp.members.get('_index')
        if fn is None:
            run.bad('C14.R11', f'_index[{cp.label}]', 'missing', 'helper _index is missing', loc=cp.path)
            continue
        for area, r, c, want, what in cases:
            ev = evaluator_for(cp, max_depth=8)
            construct = f'_index[{cp.label}]/{what}'
            try:
                res = ev.call_method('_index', [lst(area), const_av(r), const_av(c), const_av(1)])
                got = res.val if res.val is not None and not isinstance(res.val, tuple) else ('blank' if res.kind == 'blank' else repr(res))
            except Unknown as u:
                raise AnalysisError('C14.R11', f'{construct}: the abstraction cannot follow the helper ({u})')
            except AbsRaise as e:
                got = f'raises {e.exc}'
            run.check(got == want and type(got) is type(want), 'C14.R11', construct, 'index-cell',
                      f'INDEX(area, {r}, {c}) on the area {_show_area(area)} ({what}) gives {got!r}; the addressed cell is {want!r} and '
                      f'no other cell of the area has a say', fact=f'-> {got!r}', loc=cp.loc(fn))


def _show_area(a):
    from ..finite import AV
    return '[' + ', '.join(_show_area(x) if isinstance(x, list) else ('blank' if isinstance(x, AV) else repr(x)) for x in a) + ']'


def r10(run: Run, rt):
    """candidacy of a row: whether a key takes part in the scan may depend on blank / text / number, never on int versus float --
    2 and 2.0 are the same Excel number.  The helpers are evaluated abstractly (engine F) on a one-row area."""
    from ..finite import evaluator_for, Evaluator, AV, const_av, Unknown, AbsRaise
    payload = AV('str', text='other', val='PAYLOAD')
    grid = [('int key 2 / float value 2.0', 2, 2.0, True), ('float key 2.0 / int value 2', 2.0, 2, True),
            ('int key 2 / int value 2', 2, 2, True), ('float key 2.5 / float value 2.5', 2.5, 2.5, True),
            ('int key 2 / float value 2.5 (approximate)', 2, 2.5, False), ('float key 1.5 / int value 2 (approximate)', 1.5, 2, False)]
    for cp in rt.copies():
        for h in ('_vlookup', '_match'):
            fn = cp.members.get(h)
            if fn is None:
                continue
            for desc, key, val, exact in grid:
                row = AV('list', items=(const_av(key), payload))
                area = AV('list', items=(row,))
                if h == '_vlookup':
                    args = [const_av(val), area, const_av(2), const_av(not exact)]
                    want = 'PAYLOAD'
                else:
                    args = [const_av(val), area, const_av(0 if exact else 1)]
                    want = 1
                construct = f'{h}[{cp.label}]/{desc}'
                ev = evaluator_for(cp, max_depth=8)
                try:
                    res = ev.call_method(h, args)
                except Unknown as u:
                    raise AnalysisError('C14.R10', f'{construct}: the abstraction cannot follow the helper ({u})')
                except AbsRaise as r_:
                    run.bad('C14.R10', construct, f'raises:{r_.exc}', f'{h} raises {r_.exc} for {desc}', loc=cp.loc(fn))
                    continue
                run.check(res.val == want, 'C14.R10', construct, 'numeric-key-skipped',
                          f'{h}: with {desc} the only row is not found (result {res.val!r}): whether a key is a candidate depends on '
                          f'the Python type (int / float) of the key and of the value, although they are the same kind of Excel number',
                          fact=f'-> {res.val!r}', loc=cp.loc(fn))


def run(run: Run):
    from .common import cached_guard as _cached_guard
    src = get_source()
    g = get_grammar(src)
    em = get_emission(src)
    rt = get_runtime(src)
    run.rule('C14.R1', 'omitted optional arguments take Excel\'s defaults')
    run.rule('C14.R2', 'argument plumbing equals the confirmed reference')
    run.rule('C14.R3', 'every emitted runtime helper returns on every path')
    run.rule('C14.R4', 'COLUMN is 1-based in all forms')
    run.rule('C14.R5', 'returned positions/rows come from an iteration over the original area')
    run.rule('C14.R6', '1-based row/column/area numbers index with n - 1')
    _cached_guard(run, 'C14.R1', r1, src, g, em, rt)
    _cached_guard(run, 'C14.R2', check_plumbing, 'C14.R2', src, em, rt, FUNCS)
    _cached_guard(run, 'C14.R3', r3, src, g, em, rt)
    _cached_guard(run, 'C14.R4', r4, src, g, em)
    _cached_guard(run, 'C14.R5', r5, rt)
    _cached_guard(run, 'C14.R6', r6, rt)
    run.rule('C14.R7', 'exact scans answer at the first equal key; approximate scans keep the last key <= value and stop only at a greater key')
    _cached_guard(run, 'C14.R7', r7, rt)
    _cached_guard(run, 'C14.R7', r7_eval_all, rt)
    from . import c02 as _c02
    from .common import borrow as _b2
    run.rule('C14.R9', 'the area a lookup scans is the rectangle between the written corners, row-major (shared with C02.R1/R2/R4)')
    _b2(run, 'C14.R9', _c02.r1_any, src, g)
    run.rule('C14.R11', 'INDEX: the addressed cell decides, other cells of the area have no say; outside the area is #REF!')
    _cached_guard(run, 'C14.R11', r11_index_eval, rt)
    run.floor('C14.R11', 20)
    _b2(run, 'C14.R9', _c02.r2, src)
    _b2(run, 'C14.R9', _c02.r4_r5, src)
    run.floor('C14.R9', 30)
    # a function result depends on its arguments only: no runtime helper keeps results or other state between calls
    from .common import borrow as _borrow
    from . import c08 as _c08
    from ..callgraph import get_callgraph as _gcg
    from ..source import get_source as _gs
    from ..runtime import get_runtime as _grt
    run.rule('C14.R8', 'runtime helpers are pure functions of their arguments: no write effects, no value cache (shared with C08.R1/R4)')
    _src = _gs()
    _borrow(run, 'C14.R8', _c08.r1, _src, _grt(_src), _gcg(_src))
    _borrow(run, 'C14.R8', _c08.r4, _src, _grt(_src))
    run.floor('C14.R8', 50)
    run.rule('C14.R10', 'a numeric key is a candidate for a numeric lookup value whatever the int/float mix')
    _cached_guard(run, 'C14.R10', r10, rt)
    run.floor('C14.R10', 20)
    run.floor('C14.R7', 8)
    run.floor('C14.R1', 10)
    run.floor('C14.R2', 12)
    run.floor('C14.R3', 60)
    run.floor('C14.R4', 3)
    run.floor('C14.R5', 12)
    run.floor('C14.R6', 8)
    from .common import shared_mechanisms as _shared
    _shared(run, 'C14', 12, ['stored-values', 'fresh-parse'])
    from .common import shared_mechanisms as _shared_f
    _shared_f(run, 'C14', 14, ['formulas', 'no-history'])
    return INFO
