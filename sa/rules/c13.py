"""C13 -- IF / IFS / IFERROR choose the right branch and contain errors (DESIGN 3/C13)."""
from __future__ import annotations

import ast
import re

from ..core import Run, AnalysisError, loc_of
from ..source import get_source
from ..grammar import get_grammar
from ..emission import get_emission, deferred_positions
from ..runtime import get_runtime, returned_exprs
from ..finite import evaluator_for, Evaluator, AV, Unknown, AbsRaise, const_av, ERROR_STRINGS
from ..symeval import Tok
from .common import (check_plumbing, check_atomic, function_token_of, skeleton_of, all_skeletons, _shape)

INFO = {
    'explanation': (
        'R1: the IF emission is a parenthesised Python conditional expression whose test/body/orelse are Excel arguments 1/2/3 '
        '(FALSE when the third is omitted), both branches in deferred positions, every slot parenthesised (frozen, hand-confirmed '
        'plumbing + position analysis of the parsed skeleton). R2: the emitted code of IF/IFS/IFERROR is atomic for Python '
        'precedence, so it keeps its meaning in operand position. R3: IFERROR prints its guarded argument inside a lambda and '
        '_iferror (both copies), abstractly evaluated over {value, error value, raises X for nine exception classes}, returns the '
        'fallback exactly on error value / any exception and the value otherwise. R4: the error table recognised by the runtime is '
        'Excel\'s seven error values and every error-looking string any helper returns is in it. R5: _ifs scans positions 0,2,4,... '
        'and returns position+1, #N/A after the loop; laziness of IFS (known finding). Not decided: values of arbitrary nests.'),
    'rule': 'one obligation per production / scenario / error string / helper',
    'trusted': ['a Python conditional expression evaluates only the chosen branch; a lambda body is evaluated only when called'],
}

FUNCS = ['IF', 'IFS', 'IFERROR']
EXCEPTIONS = ['ZeroDivisionError', 'TypeError', 'ValueError', 'AttributeError', 'KeyError', 'IndexError', 'ExcelInPythonException',
              'OverflowError', 'RecursionError']


def r1(run: Run, src, g, em, rt):
    comp = function_token_of(g, 'IF')
    if comp is None:
        raise AnalysisError('C13.R1', 'IF not found')
    for (tr, tk) in em.function_pairs():
        if tk != comp.name:
            continue
        for e in em.pairs[(tr, tk)]:
            if e.outcome.kind != 'return' or em.unreachable(e):
                continue
            sk = skeleton_of(em, e)
            loc = loc_of(src.cls(tr).module.path, src.cls(tr).node)
            construct = f'IF/production[{e.production}]'
            if sk is None or sk.tree is None or not isinstance(sk.tree.body, ast.IfExp):
                run.bad('C13.R1', construct, 'not-a-conditional-expression',
                        f'IF is printed as `{_shape(sk.text) if sk else "?"}`, not as a Python conditional expression (only that '
                        f'evaluates just the chosen branch)', loc=loc)
                continue
            pos = deferred_positions(sk.tree)
            by_path = {p.b.path: n for n, p in sk.atoms.items() if p.kind == 'slot' and isinstance(p.b, Tok)}
            n_children = len(g.composites[tk].productions[e.production])
            want = {(2,): 'eager', (4,): 'ifexp-body'}
            if n_children >= 8:
                want[(6,)] = 'ifexp-orelse'
            ok = True
            for path, where in want.items():
                atom = by_path.get(path)
                got = pos.get(atom) if atom else None
                if got != where:
                    ok = False
                    run.bad('C13.R1', construct, f'role@{path[0]}',
                            f'Excel argument {(path[0] - 2) // 2 + 1} of IF is printed in position {got or "nowhere"}; expected '
                            f'{where} (1 = test, 2 = taken when true, 3 = taken otherwise)', loc=loc)
                elif f'({atom})' not in sk.text:
                    ok = False
                    run.bad('C13.R1', construct, f'unparenthesised@{path[0]}',
                            f'argument {(path[0] - 2) // 2 + 1} of IF is printed without its own parentheses: a looser operator '
                            f'inside it (a lambda, another conditional) would capture the rest', loc=loc)
            if n_children < 8:
                orelse = sk.tree.body.orelse
                if not (isinstance(orelse, ast.Constant) and orelse.value is False):
                    ok = False
                    run.bad('C13.R1', construct, 'default-else',
                            f'IF without third argument yields `{ast.unparse(orelse)[:40]}` when the condition is false; Excel yields '
                            f'FALSE', loc=loc)
            if ok:
                run.ok('C13.R1', construct, _shape(sk.text), loc=loc)


def r3(run: Run, src, g, em, rt):
    # the guarded argument is printed inside a lambda
    comp = function_token_of(g, 'IFERROR')
    for (tr, tk) in em.function_pairs():
        if tk != comp.name:
            continue
        for e in em.pairs[(tr, tk)]:
            if e.outcome.kind != 'return' or em.unreachable(e):
                continue
            sk = skeleton_of(em, e)
            loc = loc_of(src.cls(tr).module.path, src.cls(tr).node)
            construct = f'IFERROR/production[{e.production}]'
            if sk is None or sk.tree is None:
                run.bad('C13.R3', construct, 'unparseable', 'IFERROR emission does not parse', loc=loc)
                continue
            pos = deferred_positions(sk.tree)
            by_path = {p.b.path: n for n, p in sk.atoms.items() if p.kind == 'slot' and isinstance(p.b, Tok)}
            a1 = by_path.get((2,))
            run.check(a1 is not None and pos.get(a1) == 'lambda', 'C13.R3', construct + '/deferral', 'guarded-argument-eager',
                      f'the guarded argument of IFERROR is printed in position {pos.get(a1)}: it is evaluated before _iferror can '
                      f'catch its failure (emission `{_shape(sk.text)}`)', fact='inside lambda:', loc=loc)
            a2 = by_path.get((4,))
            run.check(a2 is not None and pos.get(a2) == 'eager', 'C13.R3', construct + '/fallback', 'fallback-position',
                      f'the fallback of IFERROR is in position {pos.get(a2)}', fact='plain argument', loc=loc)
    # the helper
    for cp in rt.copies():
        fn = cp.members.get('_iferror')
        if fn is None:
            run.bad('C13.R3', f'_iferror[{cp.label}]', 'missing', 'helper missing', loc=cp.path)
            continue
        loc = cp.loc(fn)
        VALUE = AV('other', val=('the', 'value'))
        FALLBACK = AV('other', val=('the', 'fallback'))
        scenarios = [('value', None, False), ('error value', None, True)] + [(f'raises {x}', x, False) for x in EXCEPTIONS]
        for label, exc, is_err in scenarios:
            def lam(ev, args, exc=exc):
                if exc:
                    raise AbsRaise(exc, 'guarded expression fails')
                return VALUE

            def find_err(ev, args, is_err=is_err):
                lst = args[0] if args else None
                if lst is None or lst.items is None or VALUE not in lst.items:
                    raise Unknown('_find_error_in_list is not applied to [value]')
                return const_av('#N/A') if is_err else AV('none')
            ev = evaluator_for(cp, hooks={'<call>': lam, '_find_error_in_list': find_err})
            construct = f'_iferror[{cp.label}]/{label}'
            try:
                r = ev.call_method('_iferror', [AV('func', val='guarded'), FALLBACK])
            except Unknown as u:
                raise AnalysisError('C13.R3', f'{construct}: {u}')
            except AbsRaise as ar:
                run.bad('C13.R3', f'_iferror[{cp.label}]', f'escapes:{ar.exc}',
                        f'when the guarded expression {label}, {ar.exc} escapes from IFERROR instead of the fallback being '
                        f'returned', loc=loc)
                continue
            want = VALUE if label == 'value' else FALLBACK
            run.check(r == want, 'C13.R3', construct, 'wrong-result',
                      f'when the guarded expression yields {label}, _iferror returns {"the value" if r == VALUE else "the fallback" if r == FALLBACK else r!r}',
                      fact='returns ' + ('the value' if want == VALUE else 'the fallback'), loc=loc)


def error_table(fn: ast.FunctionDef):
    """string constants of the list _find_error_in_list tests membership in"""
    lists = [n for n in ast.walk(fn) if isinstance(n, (ast.List, ast.Tuple, ast.Set)) and n.elts and
             all(isinstance(e, ast.Constant) and isinstance(e.value, str) for e in n.elts)]
    if len(lists) != 1:
        raise AnalysisError('C13.R4', f'expected one constant list of error strings in _find_error_in_list, found {len(lists)}')
    return [e.value for e in lists[0].elts]


def r4(run: Run, rt):
    for cp in rt.copies():
        fn = cp.members.get('_find_error_in_list')
        if fn is None:
            run.bad('C13.R4', f'_find_error_in_list[{cp.label}]', 'missing', 'helper missing', loc=cp.path)
            continue
        try:
            table = error_table(fn)
        except AnalysisError as e_:
            # not a membership test in one constant list: decide what the helper recognises by abstract evaluation (engine F)
            from ..finite import evaluator_for, Evaluator, AV, const_av, Unknown, AbsRaise
            cands = list(ERROR_STRINGS) + ['#ERROR!', '#DIV0!', '#1 priority', '#1024', '#A17', '# note', '#high', 'abc', '']
            for _n, m_ in cp.members.items():
                for r_ in returned_exprs(m_):
                    for c_ in ast.walk(r_):
                        if isinstance(c_, ast.Constant) and isinstance(c_.value, str) and c_.value.startswith('#') and c_.value not in cands:
                            cands.append(c_.value)
            table = []
            for cand in cands:
                ev = evaluator_for(cp, max_depth=6)
                try:
                    res = ev.call_method('_find_error_in_list', [AV('list', items=(const_av(5), const_av(cand), const_av('x')))])
                except (Unknown, AbsRaise) as u:
                    raise AnalysisError('C13.R4', f'_find_error_in_list[{cp.label}]: neither a constant table ({e_.reason[:60]}) nor '
                                                  f'followed by the abstraction ({u})')
                from ..finite import truth
                if res.kind != 'none' and truth(res):
                    table.append(cand)
        for es in ERROR_STRINGS:
            run.check(es in table, 'C13.R4', f'error-table[{cp.label}]/{es}', 'missing-error-value',
                      f'the Excel error value {es} is not recognised by _find_error_in_list (table {table})', fact='recognised',
                      loc=cp.loc(fn))
        for t in table:
            if t not in ERROR_STRINGS:
                run.bad('C13.R4', f'error-table[{cp.label}]/{t!r}', 'not-an-excel-error',
                        f'the error table lists {t!r}, which is not one of Excel\'s error values {list(ERROR_STRINGS)}', loc=cp.loc(fn))
        # every error-looking string returned by a helper is in the table
        # (keyed by the string, not by the helper: moving the code that returns it into another helper is not a new defect)
        returned = {}
        for name, m in sorted(cp.members.items()):
            for r in returned_exprs(m):
                for c in ast.walk(r):
                    if isinstance(c, ast.Constant) and isinstance(c.value, str) and re.fullmatch(r'\s*#[A-Z/0-9]+[!?]?\s*', c.value):
                        returned.setdefault(c.value, []).append((name, c))
        for es, sites in sorted(returned.items()):
            names = sorted({n for n, _ in sites})
            if es in table:
                run.ok('C13.R4', f'{es!r} returned[{cp.label}]', f'in the error table (returned by {", ".join(names)[:80]})', loc=cp.loc(sites[0][1]))
            else:
                run.bad('C13.R4', f'{es!r} returned by runtime helpers', 'unknown-error-string',
                        f'{", ".join(names)} return{"s" if len(names) == 1 else ""} {es!r}, which the error table does not list: IFERROR '
                        f'does not contain it', loc=cp.loc(sites[0][1]))


def r5(run: Run, src, g, em, rt):
    for cp in rt.copies():
        fn = cp.members.get('_ifs')
        if fn is None:
            run.bad('C13.R5', f'_ifs[{cp.label}]', 'missing', 'helper missing', loc=cp.path)
            continue
        loc = cp.loc(fn)
        lst = [a.arg for a in fn.args.args if a.arg != 'self'][0]
        ok_stride = ok_pair = ok_default = False
        # while index < len(list): if list[index]: return list[index + 1]; index += 2
        for loop in [n for n in ast.walk(fn) if isinstance(n, (ast.While, ast.For))]:
            idx = None
            if isinstance(loop, ast.While):
                incs = [s for s in ast.walk(loop) if isinstance(s, ast.AugAssign) and isinstance(s.op, ast.Add) and
                        isinstance(s.target, ast.Name) and isinstance(s.value, ast.Constant)]
                if len(incs) == 1:
                    idx = incs[0].target.id
                    ok_stride = incs[0].value.value == 2
                    starts = [s for s in fn.body if isinstance(s, ast.Assign) and isinstance(s.targets[0], ast.Name) and
                              s.targets[0].id == idx and isinstance(s.value, ast.Constant)]
                    ok_stride = ok_stride and len(starts) == 1 and starts[0].value.value == 0
            else:
                it = loop.iter
                if isinstance(loop.target, ast.Name) and isinstance(it, ast.Call) and isinstance(it.func, ast.Name) and \
                        it.func.id == 'range' and len(it.args) == 3 and all(isinstance(a, ast.Constant) for a in (it.args[0], it.args[2])):
                    idx = loop.target.id
                    ok_stride = it.args[0].value == 0 and it.args[2].value == 2
            if idx is None:
                continue
            # every value returned from inside the loop is the element at i + 1, returned exactly when the element at i is true
            from ..paths import parent_map as _pm, path_conditions as _pc
            from .common import flat_conditions as _flat
            _par = _pm(fn)
            rets_in = [s for s in ast.walk(loop) if isinstance(s, ast.Return) and s.value is not None]
            pair_ok = []
            for r_ in rets_in:
                conds_ = [(ast.unparse(t), pol) for t, pol in _flat(_pc(fn, r_, _par))]
                val_ok = ast.unparse(r_.value).replace(' ', '') in (f'{lst}[{idx}+1]', f'{lst}[1+{idx}]')
                pair_ok.append(val_ok and (f'{lst}[{idx}]', True) in conds_)
            if rets_in and all(pair_ok):
                ok_pair = True
        tail = [s for s in fn.body if isinstance(s, ast.Return)]
        ok_default = bool(tail) and isinstance(tail[-1].value, ast.Constant) and tail[-1].value.value == '#N/A' and fn.body[-1] is tail[-1]
        if not (ok_stride or ok_pair or ok_default):
            raise AnalysisError('C13.R5', f'_ifs[{cp.label}] has a shape the stride analysis does not model')
        run.check(ok_stride, 'C13.R5', f'_ifs[{cp.label}]/stride', 'stride', 'conditions are not scanned at positions 0, 2, 4, ...',
                  fact='index starts at 0, step 2', loc=loc)
        run.check(ok_pair, 'C13.R5', f'_ifs[{cp.label}]/pairing', 'pairing',
                  'the value returned for a true condition at position i is not the element at i + 1', fact='returns list[i + 1]', loc=loc)
        run.check(ok_default, 'C13.R5', f'_ifs[{cp.label}]/default', 'default',
                  'IFS without a true condition does not yield #N/A', fact="'#N/A' after the loop", loc=loc)
    # laziness: conditions and values sit in an eagerly built list
    comp = function_token_of(g, 'IFS')
    for (tr, tk) in em.function_pairs():
        if tk != comp.name:
            continue
        eager = False
        for e in em.pairs[(tr, tk)]:
            if e.outcome.kind != 'return' or em.unreachable(e):
                continue
            sk = skeleton_of(em, e)
            for s in all_skeletons(sk):
                if s.tree is None:
                    continue
                pos = deferred_positions(s.tree)
                for n, p in s.atoms.items():
                    if p.kind == 'slot' and isinstance(p.b, Tok) and pos.get(n) == 'eager':
                        eager = True
        loc = loc_of(src.cls(tr).module.path, src.cls(tr).node)
        if eager:
            run.bad('C13.R5', 'IFS/laziness', 'eager-branches',
                    'every condition and value of IFS is an element of one eagerly built list (which is also scanned for error '
                    'strings): a failing or error-valued branch that is not chosen still decides the result', loc=loc)
        else:
            run.ok('C13.R5', 'IFS/laziness', 'branches are deferred', loc=loc)


def run(run: Run):
    from .common import cached_guard as _cached_guard
    src = get_source()
    g = get_grammar(src)
    em = get_emission(src)
    rt = get_runtime(src)
    run.rule('C13.R1', 'IF = parenthesised conditional expression with roles test/then/else, default FALSE, lazy branches')
    run.rule('C13.R2', 'emitted code of IF/IFS/IFERROR is atomic in operand position')
    run.rule('C13.R3', 'IFERROR defers its guarded argument; _iferror returns the fallback exactly on error value or any exception')
    run.rule('C13.R4', 'error vocabulary: table = Excel\'s seven error values; every returned error string is in it')
    run.rule('C13.R5', 'IFS stride, pairing, #N/A default, laziness')
    run.rule('C13.R6', 'argument plumbing of IF/IFS/IFERROR equals the confirmed reference')
    _cached_guard(run, 'C13.R1', r1, src, g, em, rt)
    _cached_guard(run, 'C13.R2', check_atomic, 'C13.R2', src, em, FUNCS)
    _cached_guard(run, 'C13.R3', r3, src, g, em, rt)
    _cached_guard(run, 'C13.R4', r4, rt)
    _cached_guard(run, 'C13.R5', r5, src, g, em, rt)
    _cached_guard(run, 'C13.R6', check_plumbing, 'C13.R6', src, em, rt, FUNCS)
    from . import c03 as _c03
    from .common import borrow as _b
    from ..callgraph import get_callgraph as _g
    run.rule('C13.R8', 'a sub-expression placed in a helper member is referenced by its own number (shared with C03.R1)')
    _b(run, 'C13.R8', _c03.r1, src, g, em, _g(src))
    run.floor('C13.R8', 10)
    # a function result depends on its arguments only: no runtime helper keeps results or other state between calls
    from .common import borrow as _borrow
    from . import c08 as _c08
    from ..callgraph import get_callgraph as _gcg
    from ..source import get_source as _gs
    from ..runtime import get_runtime as _grt
    run.rule('C13.R7', 'runtime helpers are pure functions of their arguments: no write effects, no value cache (shared with C08.R1/R4)')
    _src = _gs()
    _borrow(run, 'C13.R7', _c08.r1, _src, _grt(_src), _gcg(_src))
    _borrow(run, 'C13.R7', _c08.r4, _src, _grt(_src))
    run.floor('C13.R7', 50)
    run.floor('C13.R1', 2)
    run.floor('C13.R2', 3)
    run.floor('C13.R3', 20)
    run.floor('C13.R4', 20)
    run.floor('C13.R5', 6)
    run.floor('C13.R6', 4)
    from .common import shared_mechanisms as _shared
    _shared(run, 'C13', 9, ['stored-values'])
    from .common import shared_mechanisms as _shared_f
    _shared_f(run, 'C13', 10, ['formulas'])
    return INFO
