"""The Executor decided by abstract evaluation (engine F).

The Executor, Cell and handle_cell are evaluated as they are written, on a modelled executed instance that does what the contract of
the generated class says (C04 decides that contract on the runtime side): `set_arguments` merges a batch of overrides by uid,
`exec_function_in(uid)` reports the most recent override of that uid or, without one, the workbook value of the uid,
`get_titles` / `get_sheets_size` hand out the title table and the (mutable, shared) size records.  A history is a sequence of
set-cells batches and queries; an oracle written here (last write wins, sizes grow with max, every query re-evaluates) says what
each query must report, and the rule compares.  Nothing of the repository is run: the evaluator interprets the syntax trees.
"""
from __future__ import annotations

import ast

from ..core import AnalysisError, Run, loc_of

TITLES = (('S0', 0), ('S1', 1), ('S2', 2))
SIZES = ((2, 3), (1, 1), (0, 0))            # (last_row, last_column) per sheet


def _dataclass_fields(ci):
    out = []
    for st in ci.node.body:
        if isinstance(st, ast.AnnAssign) and isinstance(st.target, ast.Name):
            out.append((st.target.id, st.value))
    return out


class Model:
    def __init__(self, src):
        from ..finite import Evaluator, AV, const_av
        self.AV, self.const_av = AV, const_av
        self.src = src
        ex = src.cls('Executor')
        cell_ci = src.cls('Cell')
        self.ex = ex
        ev = Evaluator({n: m.node for n, m in ex.methods.items()}, max_depth=14)
        self.ev = ev
        ev.strict_sets = True
        from .common import exception_bases
        ev.exception_bases = exception_bases(src)
        ev.classes = {'Cell': {n: m.node for n, m in cell_ci.methods.items()}}
        hc = src.func('handle_cell')
        for m in (hc.module, ex.module, cell_ci.module):
            for st in m.tree.body:
                if isinstance(st, ast.FunctionDef):
                    ev.functions.setdefault(st.name, st)
        from .common import inlined_function
        self.fields = _dataclass_fields(cell_ci)
        self.cell_ci = cell_ci
        decos = [ast.unparse(d) for d in cell_ci.node.decorator_list]
        if any(d.split('(')[0].endswith('dataclass') for d in decos) and not any('eq=False' in d.replace(' ', '') for d in decos):
            ev.dataclass_fields = {'Cell': [n for n, _ in self.fields]}

        def make_cell(args, kwargs):
            names = [n for n, _ in self.fields]
            vals = dict(zip(names, args))
            vals.update(kwargs)
            at = {}
            for n, d in self.fields:
                if n in vals:
                    at[n] = vals[n]
                elif d is not None:
                    at[n] = ev.ev(d, {})
                else:
                    from ..finite import AbsRaise
                    raise AbsRaise('TypeError', f'Cell() missing {n}')
            cell = ev.new_obj('Cell', at)
            if '__post_init__' in cell_ci.methods:
                ev.call_bound(cell_ci.methods['__post_init__'].node, cell, [])
            return cell
        self.make_cell = make_cell
        ev.constructors = {'Cell': make_cell}
        # the executed instance
        self.overrides: dict = {}          # uid -> AV
        self.log: list = []
        self.size_boxes = [ev.box(AV('dict', items=(AV('tuple', items=(const_av('last_row'), const_av(r))),
                                                    AV('tuple', items=(const_av('last_column'), const_av(c))))))
                           for r, c in SIZES]
        titles = AV('dict', items=tuple(AV('tuple', items=(const_av(k), const_av(v))) for k, v in TITLES))

        def set_arguments(a):
            from ..finite import Unknown
            batch = ev.deep_unbox(a[0]) if a else None
            if batch is None or batch.items is None:
                raise Unknown('set_arguments with a batch of unknown contents')
            sent = []
            for d in batch.items:
                if d.kind != 'dict' or d.items is None:
                    raise Unknown('an override that is not a mapping')
                rec = {kv.items[0].val: kv.items[1] for kv in d.items}
                if 'uid' not in rec or 'value' not in rec or not isinstance(rec['uid'].val, str):
                    raise Unknown('an override without uid / value')
                self.overrides[rec['uid'].val] = rec['value']
                sent.append(rec['uid'].val)
            self.log.append(('set_arguments', tuple(sent)))
            return inst

        def exec_function_in(a):
            from ..finite import Unknown
            if not a or not isinstance(a[0].val, str):
                raise Unknown('exec_function_in with a uid of unknown text')
            self.log.append(('exec', a[0].val))
            if a[0].val in self.overrides:
                return self.overrides[a[0].val]
            return const_av('wb:' + a[0].val)
        inst = ev.new_obj('ExcelInPython', {
            'get_titles': AV('func', val=('native', lambda a: titles)),
            'get_sheets_size': AV('func', val=('native', lambda a: AV('list', items=tuple(self.size_boxes)))),
            'set_arguments': AV('func', val=('native', set_arguments)),
            'exec_function_in': AV('func', val=('native', exec_function_in)),
        })
        self.inst = inst
        self.me = ev.new_obj('Executor', {})
        ev.call_method('__init__', [], self.me)
        ev.call_method('set_executed_class', [], self.me, {'class_object': AV('func', val=('native', lambda a: inst))})

    def cell(self, t, c, r, value=None, has_value=False):
        args = [self.const_av(t), self.const_av(c), self.const_av(r)]
        if has_value:
            args.append(value if isinstance(value, self.AV) else self.const_av(value))
        return self.make_cell(args, {})

    def uid_of(self, t, c, r):
        cell = self.cell(t, c, r)
        self.ev.obj_attrs(cell)['_handled_identifiers'] = self.const_av(True)
        at = self.ev.obj_attrs(cell)
        v = self.ev.ev(ast.parse('cell.uid', mode='eval').body, {'cell': cell})
        return v.val

    def plain(self, v):
        """an abstract value as a plain Python value (None, numbers, texts, lists); cells as (title, column, row, value)"""
        v = self.ev.unbox(v)
        if v.kind == 'obj' and v.val[2] == 'Cell':
            at = self.ev.obj_attrs(v)
            return tuple(self.plain(at[k]) for k in ('title', 'column', 'row', 'value'))
        if v.kind == 'none':
            return None
        if v.kind == 'dict' and v.items is not None:
            return {self.plain(kv.items[0]): self.plain(kv.items[1]) for kv in v.items}
        if v.items is not None:
            return [self.plain(x) for x in v.items]
        if v.val is not None and not isinstance(v.val, tuple):
            return v.val
        return v


def _norm(addr):
    t, c, r = addr
    tt = dict(TITLES)[t] if isinstance(t, str) else t
    if isinstance(c, str):
        n = 0
        for ch in c:
            n = n * 26 + (ord(ch) - 64)
        c = n - 1
    if isinstance(r, str):
        r = int(r) - 1
    return tt, c, r


def _moment():
    from ..finite import AV
    return AV('datetime', origin='an override with a time of day')


def _day():
    from ..finite import AV
    return AV('date', origin='an override that is a date')


HISTORIES = [
    # the first query after an override is made with the very Cell object that was handed to set_cells
    ('query-with-the-override-object', [('set', [(0, 0, 0, 5), (0, 1, 0, 20)]), ('same', 0), ('cell', (0, 1, 0)), ('same', 1), ('cell', (0, 0, 0))]),
    ('query-with-the-override-object-after-another', [('set', [(0, 0, 0, 5)]), ('cell', (0, 1, 1)), ('same', 0), ('sheet', 0)]),
    ('empty-batch-after-a-batch', [('set', [(0, 0, 0, 5)]), ('set', []), ('cell', (0, 0, 0)), ('sheet', 0)]),
    ('empty-batch-first', [('set', []), ('cell', (0, 0, 0)), ('set', [(0, 1, 0, 6)]), ('set', []), ('cells', [(0, 1, 0)])]),
    ('equal-under-==-is-still-a-write', [('set', [(0, 0, 0, 1), (0, 1, 0, 0)]), ('cell', (0, 0, 0)), ('set', [(0, 0, 0, True), (0, 1, 0, False)]),
                                         ('cells', [(0, 0, 0), (0, 1, 0)]), ('set', [(0, 0, 0, 1.0)]), ('cell', (0, 0, 0))]),
    ('same-batch-twice', [('set', [(0, 0, 0, 4)]), ('cell', (0, 0, 0)), ('set', [(0, 0, 0, 4)]), ('cell', (0, 0, 0)), ('sheet', 0)]),
    ('values-are-stored-as-given', [('set', [(0, 0, 0, _moment()), (0, 1, 0, _day()), (0, 2, 0, 2.5), (0, 0, 1, 'text'), (0, 1, 1, '7')]),
                                    ('cells', [(0, 0, 0), (0, 1, 0), (0, 2, 0), (0, 0, 1), (0, 1, 1)])]),
    ('single', [('cell', (0, 1, 1))]),
    ('list-mixed-addressing', [('cells', [(0, 0, 0), ('S0', 'B', '1'), (1, 0, 0), (0, 0, 0), ('S1', 'A', '1')])]),
    ('sheets', [('sheet', 0), ('sheet', 'S1'), ('sheet', 2), ('sheet', 'S0')]),
    ('override-beyond-both-bounds', [('set', [(0, 5, 5, 3)]), ('sheet', 0), ('set', [(0, 5, 5, 3)]), ('sheet', 0)]),
    ('blanking-with-query-between', [('set', [(0, 0, 0, 5)]), ('cell', (0, 1, 0)), ('set', [(0, 0, 0, None)]), ('cell', (0, 0, 0)), ('sheet', 0)]),
    ('blanking-without-query', [('set', [(0, 0, 0, 5)]), ('set', [(0, 0, 0, None)]), ('cell', (0, 0, 0)), ('sheet', 0)]),
    ('rewrite-across-batches', [('set', [(0, 0, 0, 1)]), ('set', [(0, 0, 0, 2)]), ('cell', (0, 0, 0)), ('set', [(0, 0, 0, 1)]), ('cell', (0, 0, 0))]),
    ('rewrite-in-one-batch', [('set', [(0, 0, 0, 1), (0, 1, 0, 7), (0, 0, 0, 2)]), ('cells', [(0, 0, 0), (0, 1, 0)])]),
    ('rewrite-after-query', [('set', [(0, 0, 0, 1)]), ('cell', (0, 0, 0)), ('set', [(0, 0, 0, 2)]), ('cell', (0, 0, 0)), ('cells', [(0, 0, 0)]),
                             ('sheet', 0)]),
    ('falsy-and-a1-overrides', [('set', [('S1', 'C', '4', 0), (0, 0, 0, ''), ('S0', 'B', '1', False)]), ('cell', (1, 2, 3)), ('cell', (0, 0, 0)),
                                ('cell', (0, 1, 0)), ('sheet', 1), ('sheet', 0), ('cells', [('S1', 'C', '4')])]),
    ('growth-in-two-steps', [('set', [(0, 0, 5, 1)]), ('set', [(0, 4, 0, 2)]), ('sheet', 0), ('sheet', 1)]),
    ('growth-row-only', [('set', [(1, 0, 3, 1)]), ('sheet', 1), ('sheet', 0)]),
    ('growth-column-only', [('set', [(1, 3, 0, 1)]), ('sheet', 1)]),
    ('all-three-apis', [('set', [(0, 1, 1, 'x')]), ('cell', (0, 1, 1)), ('cells', [(0, 1, 1)]), ('sheet', 0), ('cell', ('S0', 'B', '2')),
                        ('cell', (0, 1, 1))]),
    ('repeated-queries', [('cell', (0, 1, 1)), ('sheet', 0), ('cell', (0, 1, 1)), ('cells', [(0, 1, 1), (0, 1, 1)]), ('sheet', 0), ('sheet', 0)]),
    ('override-inside-range-keeps-size', [('set', [(0, 0, 0, 9)]), ('sheet', 0), ('sheet', 1)]),
    ('override-on-empty-sheet', [('set', [(2, 1, 0, 'z')]), ('sheet', 2), ('sheet', 'S2'), ('cell', (2, 1, 0)), ('cell', (2, 0, 0))]),
]


def evaluate_histories(run: Run, rule: str, src, label='Executor'):
    """every history above, evaluated on the Executor as written; one obligation per query"""
    from ..finite import Unknown, AbsRaise
    ex = src.cls('Executor')
    rule_of = rule if callable(rule) else (lambda h: rule)
    for hname, ops in HISTORIES:
        rule = rule_of(hname)
        try:
            m = Model(src)
        except Unknown as u:
            raise AnalysisError(rule, f'{label}: the abstraction cannot follow the construction of the executor ({u})')
        except AbsRaise as e:
            raise AnalysisError(rule, f'{label}: the construction of the executor raises {e.exc} in the abstraction')
        overrides: dict = {}
        sizes = [list(x) for x in SIZES]

        def want_value(t, c, r):
            if (t, c, r) in overrides:
                return overrides[(t, c, r)]
            return 'wb:' + m.uid_of(t, c, r)
        for k, op in enumerate(ops):
            construct = f'{label}/{hname}/{k}:{op[0]}'
            meth = {'set': 'set_cells', 'cell': 'get_cell', 'cells': 'get_cells', 'sheet': 'get_sheet', 'same': 'get_cell'}[op[0]]
            loc = loc_of(ex.module.path, ex.methods[meth].node)
            try:
                if op[0] == 'set':
                    cells = [m.cell(t, c, r, v, True) for t, c, r, v in op[1]]
                    last_set = (cells, op[1])
                    m.ev.call_method('set_cells', [m.AV('list', items=tuple(cells))], m.me)
                    for t, c, r, v in op[1]:
                        tt, cc, rr = _norm((t, c, r))
                        overrides[(tt, cc, rr)] = v
                        sizes[tt][0] = max(sizes[tt][0], rr + 1)
                        sizes[tt][1] = max(sizes[tt][1], cc + 1)
                    continue
                if op[0] == 'same':
                    res = m.ev.call_method('get_cell', [last_set[0][op[1]]], m.me)
                    got = m.plain(res)
                    t, c, r = _norm(last_set[1][op[1]][:3])
                    want = (t, c, r, want_value(t, c, r))
                elif op[0] == 'cell':
                    res = m.ev.call_method('get_cell', [m.cell(*op[1])], m.me)
                    got = m.plain(res)
                    t, c, r = _norm(op[1])
                    want = (t, c, r, want_value(t, c, r))
                elif op[0] == 'cells':
                    res = m.ev.call_method('get_cells', [m.AV('list', items=tuple(m.cell(*a) for a in op[1]))], m.me)
                    got = m.plain(res)
                    want = [_norm(a) + (want_value(*_norm(a)),) for a in op[1]]
                else:
                    res = m.ev.call_method('get_sheet', [m.const_av(op[1])], m.me)
                    got = m.plain(res)
                    s = dict(TITLES)[op[1]] if isinstance(op[1], str) else op[1]
                    want = [[(s, c, r, want_value(s, c, r)) for c in range(sizes[s][1])] for r in range(sizes[s][0])]
            except Unknown as u:
                raise AnalysisError(rule, f'{construct}: the abstraction cannot follow the executor ({u})')
            except AbsRaise as e:
                run.bad(rule, construct, f'raises:{e.exc}', f'in the history `{hname}` ({_show(ops)}), step {k} ({_show([op])}) raises {e.exc}', loc=loc)
                break
            ok = _same(got, want)
            run.check(ok, rule, construct, 'history',
                      f'in the history `{hname}` ({_show(ops)}), step {k} ({_show([op])}) reports {_brief(got)}; overrides mean the most '
                      f'recently supplied constant, every query re-evaluates, the grid is the used range extended by the overrides: '
                      f'{_brief(want)}', fact=f'-> {_brief(got)}', loc=loc)
            if not ok:
                break
            # querying never changes the reported sheet sizes
            now = [m.plain(b) for b in m.size_boxes]
            mine = m.plain(m.ev.obj_attrs(m.me).get('_sheets_size', m.AV('none'))) if '_sheets_size' in m.ev.obj_attrs(m.me) else None
            okz = all(n.get('last_row') == s_[0] and n.get('last_column') == s_[1] for n, s_ in zip(now, sizes))
            run.check(okz, rule, construct + '/sizes', 'sizes-after-query',
                      f'after step {k} of the history `{hname}` the size records are {now}; they must be the used range extended by '
                      f'the overrides {sizes}', fact=f'sizes {now}', loc=loc)


def _same(got, want):
    from ..finite import AV
    if isinstance(want, AV) or isinstance(got, AV):
        return isinstance(want, AV) and isinstance(got, AV) and got == want
    if isinstance(want, (list, tuple)) and isinstance(got, (list, tuple)):
        return len(got) == len(want) and all(_same(g, w) for g, w in zip(got, want))
    return type(got) is type(want) and got == want


def _brief(x):
    s = repr(x)
    return s if len(s) < 300 else s[:300] + '...'


def _show(ops):
    out = []
    for op in ops:
        if op[0] == 'set':
            out.append('set_cells(' + ', '.join(f'{t!r},{c!r},{r!r}<-{v!r}' for t, c, r, v in op[1]) + ')')
        elif op[0] == 'same':
            out.append(f'get_cell(<the Cell object #{op[1]} of the last set_cells>)')
        elif op[0] == 'cell':
            out.append(f'get_cell{op[1]}')
        elif op[0] == 'cells':
            out.append(f'get_cells{op[1]}')
        else:
            out.append(f'get_sheet({op[1]!r})')
    return '; '.join(out)
