"""C05 -- a formula is translated whole or rejected (DESIGN 3/C05)."""
from __future__ import annotations

import ast
import re

from ..core import Run, AnalysisError, loc_of
from ..source import get_source
from ..grammar import get_grammar, ENTRY, UNDEFINED
from ..emission import get_emission
from ..regexmodel import Regex, sre_c, MAXREPEAT
from ..symeval import explore, Interp, Tok, ClsV, TupleV, ListV, Const, Opaque, NONE, Code, Part, GroupStr
from ..paths import parent_map, path_conditions
from .common import (library_exceptions, dropped_arguments, reachable_function_emissions, iter_parts, excel_name,
                     PUNCTUATION)

INFO = {
    'explanation': (
        'Decides the structural necessary conditions of "whole or rejected": R1 the entry call site turns both a failed parse '
        '(None) and a non-empty unconsumed remainder into a library exception (abstract evaluation of AstBuilder.parse over '
        '{None, token} x {empty, non-empty}); R2 the production matcher only returns a node when every symbol of the production '
        'matched, consumes exactly the tokens it appends, and every function production ends with the closing bracket; R3 the '
        'lexer hands back the complete tail of every terminal (wrapped pattern anchored at both ends, no MULTILINE, last group '
        'spans the tail), strips whitespace before every token and feeds the remainder back; R4 separators are one token class '
        'whose text nothing reads; R5 quote-delimited terminals cannot run over their closing quote; R6 every argument of '
        'every function production reaches the emitted code (symbolic evaluation of all 40 translators per production). '
        'Not decided: agreement of the accepted language with an independent Excel grammar.'),
    'rule': 'one obligation per (rule, construct): call site, terminal, production or (translator, production, world)',
    'trusted': [],
}


def _entry_call(src, run):
    if not src.has_cls('AstBuilder'):
        raise AnalysisError('C05.R1', 'AstBuilder not found')
    ab = src.cls('AstBuilder')
    fi = src.find_method(ab, 'parse')
    if fi is None:
        raise AnalysisError('C05.R1', 'AstBuilder.parse not found')
    return fi


def r1(run: Run, src, g):
    """the remainder decides"""
    fi = _entry_call(src, run)
    lib = library_exceptions(src)
    ab = src.cls('AstBuilder')
    get_fi = src.find_method(src.cls(ENTRY), 'get')
    if get_fi is None:
        raise AnalysisError('C05.R1', f'{ENTRY}.get not found')
    # the entry point must be parsed through the entry token class
    calls = [n for n in ast.walk(fi.node) if isinstance(n, ast.Call) and isinstance(n.func, ast.Attribute) and n.func.attr == 'get']
    entry_calls = []
    for c in calls:
        if isinstance(c.func.value, ast.Name):
            ci = src.resolve_class(c.func.value.id, fi.module, fi)
            if ci is not None and ci.name == ENTRY:
                entry_calls.append(c)
    if len(entry_calls) != 1:
        raise AnalysisError('C05.R1', f'expected exactly one {ENTRY}.get call in AstBuilder.parse, found {len(entry_calls)}')
    combos = [('token', 'empty'), ('token', 'rest'), ('none', 'empty'), ('none', 'rest')]
    for tk, rs in combos:
        tokv = Tok(ENTRY) if tk == 'token' else NONE
        restv = ListV(()) if rs == 'empty' else ListV((Tok('LiteralToken', (99,)),))

        def stub(it, args, kwargs, node, tokv=tokv, restv=restv):
            return TupleV((tokv, restv))

        def go(it: Interp):
            return it.call_repo(fi, [ClsV(ab), ListV((Tok('EqOperatorToken', (98,)),)), Opaque('in_cell')], {}, None)
        outs = explore(src, g, go, stubs={get_fi.qualname: stub})
        for o in outs:
            construct = f'AstBuilder.parse[result={tk},remainder={rs}]'
            if (tk, rs) == ('token', 'empty'):
                ok = o.kind == 'return' and o.value == tokv
                run.check(ok, 'C05.R1', construct, 'complete-parse-not-returned',
                          f'a complete parse must be returned unchanged, got {o.kind} {o.exc or o.value!r}',
                          fact='complete parse is returned', loc=loc_of(fi.module.path, fi.node))
            else:
                if o.kind == 'raise' and o.exc in lib:
                    run.ok('C05.R1', construct, f'raises {o.exc}', loc=loc_of(fi.module.path, o.node or fi.node))
                elif o.kind == 'raise':
                    run.bad('C05.R1', construct, 'foreign-exception',
                            f'a {"failed parse" if tk == "none" else "formula with an unconsumed tail"} ends in {o.exc} '
                            f'({o.msg}) instead of a library exception', loc=loc_of(fi.module.path, o.node or fi.node))
                else:
                    what = 'the unconsumed remainder of the formula is discarded (the prefix is translated)' if tk == 'token' \
                        else 'a failed parse (None) is returned to the translator'
                    run.bad('C05.R1', construct, 'accepted', what, loc=loc_of(fi.module.path, fi.node))


def r2(run: Run, src, g):
    """inner productions cannot drop tokens: the matcher CompositeBaseToken.get"""
    base = src.cls('CompositeBaseToken')
    fi = base.methods.get('get')
    if fi is None:
        raise AnalysisError('C05.R2', 'CompositeBaseToken.get not found')
    from ..inline import inline_methods, class_resolver, split_tuple_assign, coalesce_copies
    # helpers of the matcher are read in place: what a helper hands back in a tuple is the caller's variable
    fn = coalesce_copies(split_tuple_assign(inline_methods(fi.node, class_resolver(src, base, fi), depth=2, exclude={'get', 'get_token_sets', 'subclasses', '__init__'})))
    loc = loc_of(fi.module.path, fn)
    params = fi.params
    if len(params) < 2:
        raise AnalysisError('C05.R2', 'unexpected signature of CompositeBaseToken.get')
    expr_param = params[1]
    parents = parent_map(fn)
    # success returns: return <node ctor>, <remainder var>
    succ, fail = [], []
    for r in [n for n in ast.walk(fn) if isinstance(n, ast.Return)]:
        v = r.value
        if isinstance(v, ast.Tuple) and len(v.elts) == 2:
            first = v.elts[0]
            if isinstance(first, ast.Constant) and first.value is None:
                fail.append(r)
            else:
                succ.append(r)
        else:
            raise AnalysisError('C05.R2', 'CompositeBaseToken.get has a return that is not a (token, remainder) pair')
    if len(succ) != 1 or not fail:
        raise AnalysisError('C05.R2', f'expected one success return and at least one failure return, found {len(succ)}/{len(fail)}')
    sret = succ[0]
    ctor, rem = sret.value.elts
    if not (isinstance(ctor, ast.Call) and isinstance(ctor.func, ast.Name) and ctor.func.id == 'cls' and ctor.args and
            isinstance(ctor.args[0], ast.Name) and isinstance(rem, ast.Name)):
        raise AnalysisError('C05.R2', 'success return of CompositeBaseToken.get has an unexpected shape')
    parts_var, rem_var = ctor.args[0].id, rem.id
    # loop variables: for <prod> in cls.get_token_sets(): ... for <sym> in <prod>:
    prod_var = None
    for n in ast.walk(fn):
        if isinstance(n, ast.For) and isinstance(n.iter, ast.Call) and isinstance(n.iter.func, ast.Attribute) and \
                n.iter.func.attr == 'get_token_sets' and isinstance(n.target, ast.Name):
            prod_var = n.target.id
    if prod_var is None:
        raise AnalysisError('C05.R2', 'loop over get_token_sets() not found')
    # (a) the success return is guarded by len(parts) == len(production)
    conds = path_conditions(fn, sret, parents)
    guard_ok = False
    for test, pol in conds:
        for cmp_ in [n for n in ast.walk(test) if isinstance(n, ast.Compare)]:
            if len(cmp_.ops) == 1 and isinstance(cmp_.ops[0], ast.Eq) and pol:
                sides = [cmp_.left, cmp_.comparators[0]]
                names = set()
                for s_ in sides:
                    if isinstance(s_, ast.Call) and isinstance(s_.func, ast.Name) and s_.func.id == 'len' and s_.args and \
                            isinstance(s_.args[0], ast.Name):
                        names.add(s_.args[0].id)
                if names == {parts_var, prod_var}:
                    # the comparison must be a conjunct of the test (not under `or` / `not`)
                    p = parents.get(cmp_)
                    conj = True
                    while p is not None and p is not test and not isinstance(p, ast.stmt):
                        if isinstance(p, ast.BoolOp) and isinstance(p.op, ast.Or) or isinstance(p, ast.UnaryOp):
                            conj = False
                        p = parents.get(p)
                    if isinstance(test, ast.BoolOp) and isinstance(test.op, ast.Or):
                        conj = False
                    guard_ok = guard_ok or conj
    run.check(guard_ok, 'C05.R2', 'CompositeBaseToken.get/success-guard', 'partial-production-accepted',
              'the node is returned without requiring that every symbol of the production matched '
              f'(no conjunct len({parts_var}) == len({prod_var}) guards the success return)',
              fact=f'success return requires len({parts_var}) == len({prod_var})', loc=loc_of(fi.module.path, sret))
    # (b) consumption discipline of the remainder variable
    ok_forms, bad_forms = 0, []
    for st in ast.walk(fn):
        targets = []
        if isinstance(st, ast.Assign):
            for t in st.targets:
                if isinstance(t, ast.Name) and t.id == rem_var:
                    targets.append(('whole', st.value))
                elif isinstance(t, ast.Tuple):
                    for i, e in enumerate(t.elts):
                        if isinstance(e, ast.Name) and e.id == rem_var:
                            targets.append((f'elt{i}', st.value))
        elif isinstance(st, ast.AugAssign) and isinstance(st.target, ast.Name) and st.target.id == rem_var:
            targets.append(('aug', st.value))
        for how, v in targets:
            text = ast.unparse(v)
            if how == 'whole' and isinstance(v, ast.Call) and isinstance(v.func, ast.Attribute) and v.func.attr == 'copy' and \
                    isinstance(v.func.value, ast.Name) and v.func.value.id == expr_param and not v.args:
                ok_forms += 1       # fresh copy of the input for each alternative
            elif how == 'whole' and isinstance(v, ast.Call) and isinstance(v.func, ast.Name) and v.func.id == 'list' and \
                    len(v.args) == 1 and isinstance(v.args[0], ast.Name) and v.args[0].id == expr_param:
                ok_forms += 1
            elif how == 'whole' and isinstance(v, ast.Subscript) and isinstance(v.value, ast.Name) and \
                    v.value.id == expr_param and isinstance(v.slice, ast.Slice) and v.slice.lower is None and \
                    v.slice.upper is None:
                ok_forms += 1
            elif how == 'whole' and isinstance(v, ast.Subscript) and isinstance(v.value, ast.Name) and v.value.id == rem_var \
                    and isinstance(v.slice, ast.Slice) and isinstance(v.slice.lower, ast.Constant) and \
                    v.slice.lower.value == 1 and v.slice.upper is None and v.slice.step is None:
                # one token consumed: the same block must append <rem>[0] to the node's parts
                blk = parents.get(st)
                body = getattr(blk, 'body', []) if st in getattr(blk, 'body', []) else getattr(blk, 'orelse', [])
                appended = any(isinstance(c, ast.Call) and isinstance(c.func, ast.Attribute) and c.func.attr == 'append' and
                               isinstance(c.func.value, ast.Name) and c.func.value.id == parts_var and c.args and
                               ast.unparse(c.args[0]) == f'{rem_var}[0]'
                               for s2 in body[:body.index(st)] for c in ast.walk(s2))
                if appended:
                    ok_forms += 1
                else:
                    bad_forms.append((st, f'`{rem_var} = {text}` consumes a token that is not appended to the node'))
            elif how == 'elt1' and isinstance(v, ast.Call) and isinstance(v.func, ast.Attribute) and v.func.attr == 'get' and \
                    v.args and isinstance(v.args[0], ast.Name) and v.args[0].id == rem_var:
                ok_forms += 1       # sub-parse: the child hands back what it did not consume
            else:
                bad_forms.append((st, f'`{rem_var}` is reassigned as `{text}`, which is not one of: fresh copy of the input, '
                                      f'{rem_var}[1:] after appending {rem_var}[0], remainder of a sub-parse'))
    for st, msg in bad_forms:
        run.bad('C05.R2', f'CompositeBaseToken.get/remainder:{ast.unparse(st)[:60]}', 'consumption', msg,
                loc=loc_of(fi.module.path, st))
    if not bad_forms:
        if ok_forms < 3:
            raise AnalysisError('C05.R2', 'the remainder variable is not updated in the three expected ways')
        run.ok('C05.R2', 'CompositeBaseToken.get/remainder', f'{ok_forms} update(s) of `{rem_var}` all consume exactly what is '
                                                            f'appended', loc=loc)
    # the failure return hands back the input untouched
    for r in fail:
        second = r.value.elts[1]
        run.check(isinstance(second, ast.Name) and second.id == expr_param, 'C05.R2', 'CompositeBaseToken.get/failure-return',
                  'failure-consumes', 'a failed match does not hand back the untouched input',
                  fact='failed match returns the input', loc=loc_of(fi.module.path, r))
    # a terminal symbol matches only the first pending token's class
    term_test = False
    for n in ast.walk(fn):
        if isinstance(n, ast.Compare) and len(n.ops) == 1 and isinstance(n.ops[0], (ast.Eq, ast.Is)):
            txt = {ast.unparse(n.left), ast.unparse(n.comparators[0])}
            if any(t.endswith('.__class__') and t.startswith(f'{rem_var}[0]') for t in txt):
                term_test = True
    run.check(term_test, 'C05.R2', 'CompositeBaseToken.get/terminal-test', 'terminal-test-missing',
              'no comparison of the production symbol with the class of the first pending token was found',
              fact=f'symbol is compared with {rem_var}[0].__class__', loc=loc)
    # (c) every function production is bracketed
    for c in g.functions():
        for i, p in enumerate(c.productions):
            ok = len(p) >= 3 and p[0] in g.terminals and g.terminals[p[0]].keyword and p[1] == 'BracketStartToken' and \
                p[-1] == 'BracketFinishToken'
            run.check(ok, 'C05.R2', f'{c.name}/production[{i}]', 'unbracketed-function',
                      f'function production does not have the shape KEYWORD ( ... ): {p}',
                      fact='KEYWORD ( ... )', loc=loc_of(c.ci.module.path, c.ci.node))
    # the control-construction flag raises a library exception
    lib = library_exceptions(src)
    from ..callgraph import raises_of
    rs = raises_of(fn)
    run.check(bool(rs) and all(e in lib for e, _ in rs), 'C05.R2', 'CompositeBaseToken.get/malformed-function',
              'no-library-raise', 'a function keyword followed by an argument list that no production defines does not end in a '
                                  'library exception', fact=f'raises {sorted({e for e, _ in rs})}', loc=loc)


def r2_any(run: Run, src, g):
    """the production matcher decided by evaluation of AstBuilder.parse / <composite>.get on the token lists of probe formulas
    against the meaning of ordered choice over the productions of engine G; the structural reading of the matcher loop counts in
    addition where the loop can be read, and alone when the abstraction cannot follow the parser"""
    from . import lexer_eval
    sub = Run('tmp', run.tier, run.seed, quiet=True)
    evaluated = False
    try:
        probes = None if run.tier == 'thorough' else lexer_eval.PARSE_PROBES[:6] + lexer_eval.PARSE_PROBES[9:14] + lexer_eval.PARSE_PROBES[20:]
        lexer_eval.parser_obligations(sub, 'C05.R2', src, g, probes=probes)
        evaluated = True
    except AnalysisError as e:
        run.note(f'C05.R2: the parser by structure only ({e.reason[:120]})')
    if not evaluated:
        return r2(run, src, g)
    for o in sub.obligations:
        if o['verdict'] == 'holds':
            run.ok(o['rule'], o['construct'], o['fact'], loc=o['loc'])
    for f_ in sub.findings:
        run.bad(f_['rule'], f_['construct'], f_['sub'], f_['message'], loc=f_['loc'])
    sub2 = Run('tmp', run.tier, run.seed, quiet=True)
    try:
        r2(sub2, src, g)
    except AnalysisError as e:
        run.note(f'C05.R2: the structural reading gave up ({e.reason[:120]}); the evaluated probes decide')
    for o in sub2.obligations:
        if o['verdict'] == 'holds':
            run.ok(o['rule'], o['construct'], o['fact'], loc=o['loc'])
    for f_ in sub2.findings:
        run.bad(f_['rule'], f_['construct'], f_['sub'], f_['message'], loc=f_['loc'])


def r3(run: Run, src, g):
    """the lexer cannot drop characters: decided by evaluation of the lexer on probe formulas against the meaning of the lexer
    loop over the terminals of the grammar model; the structural reading of RegexpBaseToken.get / Lexer.parse is the fallback"""
    from . import lexer_eval
    try:
        lexer_eval.lexer_obligations(run, 'C05.R3', src, g)
        run.extra['lexer_by_evaluation'] = True
        lexer_eval.number_literal_obligations(run, 'C05.R3', src, g)
        return
    except AnalysisError as e:
        run.note(f'C05.R3: the lexer by structure ({e.reason[:120]})')
    _r3_structural(run, src, g)


def _r3_structural(run: Run, src, g):
    rb = src.cls('RegexpBaseToken')
    fi = rb.methods.get('get')
    if fi is None:
        raise AnalysisError('C05.R3', 'RegexpBaseToken.get not found')
    fn = fi.node
    loc = loc_of(fi.module.path, fn)
    # (1) where the lexer pattern is built: an f-string ^({regexp})({last_match_regexp})$ handed to re.findall / re.compile /
    #     re.match, in `get` itself, in another method of the class or in a function of the module (e.g. a cached compile step)
    scopes = [(m.node, m) for m in rb.methods.values()] + \
             [(st, None) for st in fi.module.tree.body if isinstance(st, ast.FunctionDef)]
    builders = []
    for node, owner in scopes:
        for n in ast.walk(node):
            if isinstance(n, ast.Call) and isinstance(n.func, ast.Attribute) and isinstance(n.func.value, ast.Name) and \
                    n.func.value.id == 're' and n.args and isinstance(n.args[0], ast.JoinedStr):
                builders.append((n, node))
    if len(builders) != 1:
        raise AnalysisError('C05.R3', f'expected one re.* call that builds the lexer pattern from an f-string, found {len(builders)}')
    call, bfn = builders[0]
    pat = call.args[0]
    segs, holes = [], []
    for v in pat.values:
        if isinstance(v, ast.Constant):
            segs.append(v.value)
        else:
            segs.append('{}')
            holes.append(v.value)

    def hole_attr(e):
        """which class attribute a hole of the f-string stands for"""
        if isinstance(e, ast.Attribute):
            return e.attr
        if isinstance(e, ast.Name) and isinstance(bfn, ast.FunctionDef):
            params = [a.arg for a in bfn.args.args]
            if e.id in params:
                k = params.index(e.id)
                # the argument passed at that position by the callers inside the class
                for m in rb.methods.values():
                    for c in ast.walk(m.node):
                        if isinstance(c, ast.Call) and ((isinstance(c.func, ast.Name) and c.func.id == bfn.name) or
                                                        (isinstance(c.func, ast.Attribute) and c.func.attr == bfn.name)):
                            is_static = any(isinstance(d, ast.Name) and d.id == 'staticmethod' for d in bfn.decorator_list)
                            off = 0 if isinstance(c.func, ast.Name) or bfn not in [x.node for x in rb.methods.values()] or is_static else 1
                            args = list(c.args)
                            idx = k - off
                            if 0 <= idx < len(args) and isinstance(args[idx], ast.Attribute):
                                return args[idx].attr
                            for kw in c.keywords:
                                if kw.arg == e.id and isinstance(kw.value, ast.Attribute):
                                    return kw.value.attr
        return '?'
    shape = ''.join(segs)
    names_ = [hole_attr(h) for h in holes]
    shape_ok = shape == '^({})({})$' and names_ == ['regexp', 'last_match_regexp']
    shown = shape
    for nme in names_:
        shown = shown.replace('{}', '{' + nme + '}', 1)
    run.check(shape_ok, 'C05.R3', 'RegexpBaseToken.get/pattern', 'wrapping',
              f'the lexer pattern is `{shown}`, not `^({{regexp}})({{last_match_regexp}})$`: token text or tail can escape '
              f'the anchors or the two capture groups', fact=shown, loc=loc)
    fpos = 1 if call.func.attr == 'compile' else 2
    flags = call.args[fpos] if len(call.args) > fpos else next((k.value for k in call.keywords if k.arg == 'flags'), None)
    # a flags value kept in a class attribute (cls._FLAGS = re.M | re.S)
    if isinstance(flags, ast.Attribute) and isinstance(flags.value, ast.Name) and flags.value.id in ('cls', 'self', rb.name):
        attr_expr, _owner = src.find_attr(rb, flags.attr)
        if attr_expr is None:
            raise AnalysisError('C05.R3', f'regex flags `{ast.unparse(flags)}` cannot be resolved')
        flags = attr_expr
    if flags is not None:
        names = {n.attr for n in ast.walk(flags) if isinstance(n, ast.Attribute)} | \
                {n.id for n in ast.walk(flags) if isinstance(n, ast.Name)}
        bad = names & {'MULTILINE', 'M'}
        run.check(not bad, 'C05.R3', 'RegexpBaseToken.get/flags', 'multiline',
                  'with re.MULTILINE the closing `$` matches at the first line break: everything after it is silently dropped',
                  fact=f'flags {sorted(names)}', loc=loc)
        if names - {'re', 'MULTILINE', 'M', 'DOTALL', 'S', 'IGNORECASE', 'I', 'ASCII', 'A', 'UNICODE', 'U'}:
            raise AnalysisError('C05.R3', f'regex flags {sorted(names)} are not modelled')
    else:
        run.ok('C05.R3', 'RegexpBaseToken.get/flags', 'no flags: `$` only matches at the end of the text', loc=loc)
    # (2) the row of groups `get` works with: re.findall(..)[0]  or  <match object>.groups(..) of a match at the beginning
    matcher = call.func.attr if bfn is fn else None
    if matcher is None:
        ms = [n for n in ast.walk(fn) if isinstance(n, ast.Call) and isinstance(n.func, ast.Attribute) and
              n.func.attr in ('match', 'fullmatch', 'search', 'findall') and n.args and isinstance(n.args[0], ast.Name) and
              n.args[0].id == fi.params[1]]
        if len(ms) != 1:
            raise AnalysisError('C05.R3', 'the call that applies the compiled lexer pattern to the text was not found in RegexpBaseToken.get')
        matcher = ms[0].func.attr
    run.check(matcher in ('findall', 'match', 'fullmatch', 'search'), 'C05.R3', 'RegexpBaseToken.get/matcher', 'matcher',
              f're.{matcher} is used to apply the lexer pattern', fact=f'{matcher} of an anchored pattern', loc=loc)
    local = {}
    for st in ast.walk(fn):
        if isinstance(st, ast.Assign) and len(st.targets) == 1 and isinstance(st.targets[0], ast.Name):
            local.setdefault(st.targets[0].id, []).append(st.value)
        if isinstance(st, ast.Assign) and len(st.targets) == 1 and isinstance(st.targets[0], ast.Tuple) and \
                ast.unparse(st.value).endswith('.value_range'):
            for k_, e_ in enumerate(st.targets[0].elts):
                if isinstance(e_, ast.Name):
                    local.setdefault(e_.id, []).append(ast.parse(f'cls.value_range[{k_}]', mode='eval').body)

    def is_group_row(e, depth=0):
        """the tuple of all groups of the (first) match"""
        if isinstance(e, ast.Name) and depth < 3 and len(local.get(e.id, [])) == 1:
            return is_group_row(local[e.id][0], depth + 1)
        if matcher == 'findall':
            return isinstance(e, ast.Subscript) and isinstance(e.slice, ast.Constant) and e.slice.value == 0
        return isinstance(e, ast.Call) and isinstance(e.func, ast.Attribute) and e.func.attr == 'groups'

    def resolve(e, depth=0):
        if isinstance(e, ast.Name) and depth < 3 and len(local.get(e.id, [])) == 1:
            return resolve(local[e.id][0], depth + 1)
        return e
    rets = [n for n in ast.walk(fn) if isinstance(n, ast.Return) and isinstance(n.value, ast.Tuple) and len(n.value.elts) == 2]
    good = [r for r in rets if not (isinstance(r.value.elts[0], ast.Constant) and r.value.elts[0].value is None)]
    if len(good) != 1:
        raise AnalysisError('C05.R3', 'expected one success return in RegexpBaseToken.get')
    rem = good[0].value.elts[1]
    rem_ok = isinstance(rem, ast.Subscript) and isinstance(rem.slice, ast.UnaryOp) and isinstance(rem.slice.op, ast.USub) and \
        isinstance(rem.slice.operand, ast.Constant) and rem.slice.operand.value == 1 and is_group_row(rem.value)
    run.check(rem_ok, 'C05.R3', 'RegexpBaseToken.get/remainder', 'remainder-group',
              f'the text handed back to the lexer is `{ast.unparse(rem)}`, not the last group of the first match',
              fact='remainder = last group of the match', loc=loc)
    # the value of the token: the slice [value_range[0]:value_range[1]] of the same row
    tok = good[0].value.elts[0]
    val_ok = False
    arg0 = resolve(tok.args[0]) if isinstance(tok, ast.Call) and tok.args else None
    if isinstance(arg0, ast.Subscript) and isinstance(arg0.slice, ast.Slice):
        sl = arg0.slice
        lo, hi = (ast.unparse(resolve(sl.lower)) if sl.lower is not None else ''), (ast.unparse(resolve(sl.upper)) if sl.upper is not None else '')
        val_ok = is_group_row(arg0.value) and lo.endswith('value_range[0]') and hi.endswith('value_range[1]')
    run.check(val_ok, 'C05.R3', 'RegexpBaseToken.get/value', 'value-slice',
              f'the token is built as `{ast.unparse(tok)[:80]}`, not from the groups [value_range[0]:value_range[1]] of the match',
              fact='groups[value_range[0]:value_range[1]]', loc=loc)
    for r in rets:
        if r not in good:
            second = r.value.elts[1]
            run.check(isinstance(second, ast.Name) and second.id == fi.params[1], 'C05.R3', 'RegexpBaseToken.get/no-match',
                      'no-match-consumes', 'a terminal that does not match does not hand back the untouched text',
                      fact='no match returns the input', loc=loc)
    # per terminal: the last capture group of the wrapped pattern spans the entire tail
    for t in g.terminals.values():
        rx = t.rx
        n_own = t.rx_own.ngroups
        tail_outer = n_own + 2
        last = rx.ngroups
        construct = f'{t.name}/tail'
        loc_t = loc_of(t.ci.module.path, t.ci.node)
        if last == tail_outer:
            run.ok('C05.R3', construct, 'tail has no inner group: the remainder is the whole tail', loc=loc_t)
            continue
        # the tail contains groups of its own: the last one must be the only item of the tail (optionally ?-repeated)
        body = list(rx.group_nodes[tail_outer])
        ok = False
        if len(body) == 1:
            op, av = body[0]
            if op in (sre_c.MAX_REPEAT, sre_c.MIN_REPEAT) and av[0] == 0 and av[1] == 1:
                inner = list(av[2])
                if len(inner) == 1 and inner[0][0] is sre_c.SUBPATTERN and inner[0][1][0] == tail_outer + 1:
                    ok = (last == tail_outer + 1)
            elif op is sre_c.SUBPATTERN and av[0] == tail_outer + 1:
                ok = (last == tail_outer + 1)
        run.check(ok, 'C05.R3', construct, 'tail-group',
                  f'last_match_regexp {t.tail!r} has capture groups and the last one does not span the whole tail: the text '
                  f'before it is dropped from the remainder', fact='single optional group spans the tail', loc=loc_t)
    # Lexer.parse: lstrip before every token, remainder fed back, loop until empty
    lx = src.cls('Lexer')
    lf = lx.methods.get('parse')
    if lf is None:
        raise AnalysisError('C05.R3', 'Lexer.parse not found')
    lfn = lf.node
    lloc = loc_of(lf.module.path, lfn)
    expr = lf.params[1]
    whiles = [n for n in ast.walk(lfn) if isinstance(n, ast.While)]
    if len(whiles) != 1 or not (isinstance(whiles[0].test, ast.Name) and whiles[0].test.id == expr):
        raise AnalysisError('C05.R3', 'Lexer.parse is not a `while <text>` loop')
    gets = [n for n in ast.walk(lfn) if isinstance(n, ast.Call) and isinstance(n.func, ast.Attribute) and n.func.attr == 'get']
    if len(gets) != 1:
        raise AnalysisError('C05.R3', 'expected one token_class.get call in Lexer.parse')
    arg0 = gets[0].args[0] if gets[0].args else None
    stripped = isinstance(arg0, ast.Call) and isinstance(arg0.func, ast.Attribute) and arg0.func.attr in ('lstrip', 'strip') \
        and isinstance(arg0.func.value, ast.Name) and arg0.func.value.id == expr and not arg0.args
    run.check(stripped, 'C05.R3', 'Lexer.parse/whitespace', 'not-stripped',
              f'the text handed to each terminal is `{ast.unparse(arg0) if arg0 else "?"}`; leading whitespace is not removed '
              f'before matching', fact=f'{expr}.lstrip() before every token', loc=lloc)
    # the assignment  token, sub = get(...)  and  expr = sub  on the success branch
    parents = parent_map(lfn)
    asg = parents.get(gets[0])
    fed = False
    sub_var = None
    if isinstance(asg, ast.Assign) and isinstance(asg.targets[0], ast.Tuple) and len(asg.targets[0].elts) == 2:
        sub_var = asg.targets[0].elts[1].id if isinstance(asg.targets[0].elts[1], ast.Name) else None
        tok_var = asg.targets[0].elts[0].id if isinstance(asg.targets[0].elts[0], ast.Name) else None
        for st in ast.walk(lfn):
            if isinstance(st, ast.Assign) and isinstance(st.targets[0], ast.Name) and st.targets[0].id == expr and \
                    isinstance(st.value, ast.Name) and st.value.id == sub_var:
                fed = True
        appended = [c for c in ast.walk(lfn) if isinstance(c, ast.Call) and isinstance(c.func, ast.Attribute) and
                    c.func.attr == 'append' and c.args and isinstance(c.args[0], ast.Name) and c.args[0].id == tok_var]
        run.check(bool(appended), 'C05.R3', 'Lexer.parse/append', 'token-not-kept',
                  'a matched token is not appended to the token list', fact='matched tokens are appended', loc=lloc)
    run.check(fed, 'C05.R3', 'Lexer.parse/remainder', 'remainder-not-fed-back',
              'the remainder returned by the terminal is not what the next iteration lexes',
              fact=f'{expr} = {sub_var}', loc=lloc)
    # whitespace token only contains whitespace
    ws = g.terminals.get('WhitespaceToken')
    if ws is not None:
        l = ws.rx_own.lang()
        run.check(all(c.isspace() for c in l.chars), 'C05.R3', 'WhitespaceToken', 'eats-non-whitespace',
                  'the whitespace terminal can match non-whitespace characters', fact='matches whitespace only',
                  loc=loc_of(ws.ci.module.path, ws.ci.node))
    # the fallback terminal comes last and raises a library exception
    run.check(src.has_cls(UNDEFINED), 'C05.R3', 'UndefinedToken', 'missing', 'no fallback terminal', fact='present')
    if src.has_cls(UNDEFINED):
        uf = src.cls(UNDEFINED).methods.get('get')
        from ..callgraph import raises_of
        from ..runtime import may_complete_normally
        lib = library_exceptions(src)
        ok = uf is not None and not may_complete_normally(uf.node.body) and \
            all(e in lib for e, _ in raises_of(uf.node)) and not [n for n in ast.walk(uf.node) if isinstance(n, ast.Return)]
        run.check(ok, 'C05.R3', 'UndefinedToken.get', 'fallback-does-not-raise',
                  'text that no terminal matches is not rejected with a library exception', fact='always raises a library exception',
                  loc=loc_of(src.cls(UNDEFINED).module.path, src.cls(UNDEFINED).node))


def r4(run: Run, src, g, em):
    """separators are interchangeable"""
    sep = g.terminals.get('SeparatorToken')
    if sep is None:
        raise AnalysisError('C05.R4', 'SeparatorToken not found')
    lang = sep.rx_own.lang()
    ok = lang.finite is not None and {';', ','} <= set(lang.finite)
    run.check(ok, 'C05.R4', 'SeparatorToken/language', 'separator-set',
              f'the separator terminal does not accept both "," and ";" (language {sorted(lang.finite) if lang.finite else "infinite"})',
              fact=f'language {sorted(lang.finite) if lang.finite else "?"}', loc=loc_of(sep.ci.module.path, sep.ci.node))
    # no other terminal spells a separator
    for t in g.terminals.values():
        if t.name == 'SeparatorToken':
            continue
        l = t.rx_own.lang()
        if l.finite is not None and set(l.finite) & {';', ','}:
            run.bad('C05.R4', f'{t.name}/language', 'second-separator-class',
                    f'{t.name} also matches a separator character, so "," and ";" lex to different classes',
                    loc=loc_of(t.ci.module.path, t.ci.node))
    # nothing reads a separator's text or passes a separator to a translator
    n = 0
    for ems in em.pairs.values():
        for e in ems:
            o = e.outcome
            if o.kind != 'return' or not isinstance(o.value, Code):
                continue
            n += 1
            for p in iter_parts(o.value):
                tok = None
                if p.kind == 'slot' and isinstance(p.b, Tok):
                    tok = p.b.cls
                elif p.kind in ('raw', 'repr') and isinstance(p.a, GroupStr):
                    tok = p.a.owner
                if tok == 'SeparatorToken':
                    run.bad('C05.R4', e.construct, 'separator-text-read',
                            'the emitted code depends on which separator character was written',
                            loc=loc_of(src.cls(e.translator).module.path, p.node))
    # accessors comparing a separator's text would have produced a group choice for SeparatorToken in some world
    reads = 0
    for ems in em.pairs.values():
        for e in ems:
            for k in e.outcome.world:
                if k[0] in ('grp', 'grp-val', 'grp-eq') and k[1] == 'SeparatorToken':
                    reads += 1
                    run.bad('C05.R4', e.construct, 'separator-text-inspected',
                            'an accessor or translator branches on the text of a separator token')
    if not reads:
        run.ok('C05.R4', 'all translators', f'no emission ({n} analysed) reads or branches on a separator token')


def r5(run: Run, src, g):
    """quote-delimited terminals stop at their quote"""
    n = 0
    for t in g.terminals.values():
        rx = t.rx_own
        for alt in _top_alternatives(rx.tree):
            items = list(alt)
            if len(items) >= 3 and items[0][0] is sre_c.LITERAL and items[-1][0] is sre_c.LITERAL and \
                    items[0][1] == items[-1][1] and chr(items[0][1]) in '"\'':
                q = chr(items[0][1])
                n += 1
                body = items[1:-1]
                bad = []
                for greedy, lo, hi, sub in rx.repeats(body):
                    l = rx.lang(sub)
                    if hi == MAXREPEAT and q in l.chars and greedy:
                        bad.append(f'greedy repeat of a class that contains {q}')

                # a lazy repeat that admits the quote stops at the first quote only when nothing else of the body has to be
                # matched after it; in front of further required elements it crosses quotes to reach them
                def lazy_not_last(seq, is_tail):
                    seq = list(seq)
                    for k_, (op_, av_) in enumerate(seq):
                        last_ = is_tail and all(o2 in (sre_c.AT,) for o2, _ in seq[k_ + 1:])
                        if op_ is sre_c.MIN_REPEAT:
                            if av_[1] == MAXREPEAT and q in rx.lang(av_[2]).chars and not last_:
                                bad.append(f'lazy repeat of a class that contains {q} in front of further required parts of the body')
                        elif op_ is sre_c.SUBPATTERN:
                            lazy_not_last(av_[3], last_)
                        elif op_ is sre_c.BRANCH:
                            for alt_ in av_[1]:
                                lazy_not_last(alt_, last_)
                lazy_not_last(body, True)
                construct = f'{t.name}/quoted-alternative'
                run.check(not bad, 'C05.R5', construct, 'runs-over-quote',
                          f'the body of the {q}-delimited token can match {q} greedily ({"; ".join(bad)}): one token can span '
                          f'several literals and what lies between them', fact=f'body cannot run over {q}',
                          loc=loc_of(t.ci.module.path, t.ci.node))
    if n < 2:
        raise AnalysisError('C05.R5', f'expected at least two quote-delimited terminal alternatives, found {n}')


def _top_alternatives(tree):
    items = list(tree)
    if len(items) == 1 and items[0][0] is sre_c.BRANCH:
        return items[0][1][1]
    return [tree]


def r9_tails_admit_blanks(run: Run, src, g):
    """blanks between two tokens belong to the tail a token hands back (the lexer strips them before the next token): the tail
    pattern of every terminal must accept a tail that starts with blanks, otherwise `SUM (A1)` is lexed differently from
    `SUM(A1)`.  The pattern constants are matched with the standard re module; nothing of the repository runs."""
    import re
    probes = [' (A1)', '\t(A1;2)', '  +1', ' ', ' "x"', ' ;1)', ' )', ' A1']
    n = 0
    for name, t in sorted(g.terminals.items()):
        try:
            rx = re.compile(t.tail)
        except re.error as e:
            raise AnalysisError('C05.R9', f'{name}: the tail pattern {t.tail!r} does not compile ({e})')
        n += 1
        rejected = [q for q in probes if rx.fullmatch(q) is None]
        run.check(not rejected, 'C05.R9', f'{name}/tail', 'tail-rejects-blanks',
                  f'the tail pattern {t.tail!r} of {name} rejects the tails {rejected[:4]}: the token is then not recognised when '
                  f'blanks follow it, so whitespace between two tokens changes the result (or the formula is rejected)',
                  fact=f'tail {t.tail!r} accepts blanks first', loc=loc_of(t.ci.module.path, t.ci.node))
    if n < 20:
        raise AnalysisError('C05.R9', f'only {n} terminals analysed')


def r10_formula_text_untouched(run: Run, src):
    """the characters the token classes see are the characters of the formula: between two tokens the lexer may strip blanks at
    the ends of the remaining text, nothing else -- a rewrite of the whole text (split/join, replace, re.sub, case change)
    also rewrites the inside of string literals"""
    from . import lexer_eval
    from ..grammar import get_grammar
    try:
        lexer_eval.lexer_obligations(run, 'C05.R10', src, get_grammar(src), probes=lexer_eval.TEXT_PROBES)
        return
    except AnalysisError as e:
        run.note(f'C05.R10: the lexer by structure ({e.reason[:120]})')
    from .common import normalized_method
    fi, fn = normalized_method(src, 'Lexer', 'parse')
    ps = [p for p in fi.params if p not in ('cls', 'self')]
    text = ps[0]
    loc = loc_of(fi.module.path, fi.node)
    n = 0

    def harmless(e, names, depth=0):
        """e is the text itself, or the text with blanks stripped at its ends"""
        if isinstance(e, ast.Name) and e.id in names:
            return True
        if isinstance(e, ast.Call) and isinstance(e.func, ast.Attribute) and e.func.attr in ('strip', 'lstrip', 'rstrip') and \
                not e.keywords and all(isinstance(a_, ast.Constant) and isinstance(a_.value, str) and a_.value.strip() == '' for a_ in e.args):
            return harmless(e.func.value, names, depth + 1)
        return False
    names = {text}
    # names that receive the tail handed back by a token class: `token, rest = token_class.get(...)`
    for st in ast.walk(fn):
        if isinstance(st, ast.Assign) and isinstance(st.value, ast.Call) and isinstance(st.value.func, ast.Attribute) and \
                st.value.func.attr == 'get' and isinstance(st.targets[0], ast.Tuple) and len(st.targets[0].elts) == 2 and \
                isinstance(st.targets[0].elts[1], ast.Name):
            names.add(st.targets[0].elts[1].id)
    for st in ast.walk(fn):
        if isinstance(st, (ast.Assign, ast.AugAssign, ast.AnnAssign)):
            tg = st.targets if isinstance(st, ast.Assign) else [st.target]
            for t in tg:
                if isinstance(t, ast.Name) and t.id in names and not (isinstance(st, ast.Assign) and isinstance(st.value, ast.Call) and
                                                                        isinstance(st.value.func, ast.Attribute) and st.value.func.attr == 'get'):
                    n += 1
                    val = st.value
                    run.check(val is not None and harmless(val, names), 'C05.R10', f'Lexer.parse/{ast.unparse(st)[:50]}', 'formula-text-rewritten',
                              f'`{ast.unparse(st)[:80]}` replaces the text that is being lexed by something other than the remaining '
                              f'text with blanks stripped at its ends: what the token classes see is no longer the formula (the inside '
                              f'of string literals included)', fact='remaining text, blanks stripped', loc=loc_of(fi.module.path, st))
    gets = [c for c in ast.walk(fn) if isinstance(c, ast.Call) and isinstance(c.func, ast.Attribute) and c.func.attr == 'get' and c.args]
    if not gets:
        raise AnalysisError('C05.R10', 'no call of <token class>.get(<text>, ...) found in Lexer.parse')
    for c in gets:
        n += 1
        run.check(harmless(c.args[0], names), 'C05.R10', f'Lexer.parse/{ast.unparse(c)[:50]}', 'formula-text-rewritten',
                  f'the token classes are tried on `{ast.unparse(c.args[0])[:60]}`, not on the remaining formula text (blanks stripped)',
                  fact='get(<remaining text>.lstrip())', loc=loc_of(fi.module.path, c))


def r6(run: Run, src, g, em):
    """every argument of every function production reaches the output"""
    seen = set()
    for e, unreach in reachable_function_emissions(em):
        if unreach or e.outcome.kind != 'return':
            continue
        miss = dropped_arguments(em, e)
        fn_name = excel_name(g, e.token_cls)
        construct = f'{fn_name}/{e.token_cls}/production[{e.production}]'
        if miss:
            for path, sym in miss:
                sub = f'dropped:{sym}'
                run.bad('C05.R6', construct, sub,
                        f'{fn_name}: the {sym} at position {"/".join(map(str, path))} of production[{e.production}] is parsed but '
                        f'never reaches the generated code (world: {e.world[:160]})',
                        loc=loc_of(src.cls(e.translator).module.path, src.cls(e.translator).node))
        else:
            if construct not in seen:
                seen.add(construct)
                run.ok('C05.R6', construct, 'every argument leaf is consumed by the emitted code')


def run(run: Run):
    from .common import cached_guard as _cached_guard
    src = get_source()
    g = get_grammar(src)
    em = get_emission(src)
    run.rule('C05.R1', 'failed parse and unconsumed remainder both reach a library raise at the entry call site')
    run.rule('C05.R2', 'the production matcher consumes exactly what it appends and only accepts complete productions')
    run.rule('C05.R3', 'the lexer hands back the whole tail, strips whitespace, feeds the remainder back')
    run.rule('C05.R4', 'separators are one class whose text nothing reads')
    run.rule('C05.R5', 'quote-delimited terminals cannot run over their closing quote')
    run.rule('C05.R6', 'every argument of every function production reaches the emitted code')
    _cached_guard(run, 'C05.R1', r1, src, g)
    _cached_guard(run, 'C05.R2', r2_any, src, g)
    _cached_guard(run, 'C05.R3', r3, src, g)
    _cached_guard(run, 'C05.R4', r4, src, g, em)
    _cached_guard(run, 'C05.R5', r5, src, g)
    _cached_guard(run, 'C05.R6', r6, src, g, em)
    # the lexer and the matcher keep no state between two parses: a memo or a table that survives a parse (in particular one
    # that is not cleared when a parse is rejected) splices parts of an earlier formula into a later one
    run.rule('C05.R7', 'lexer and matcher keep no state between parses (shared with C09.R4)')

    def r7(run):
        from ..callgraph import get_callgraph
        from . import c09
        sub = Run('tmp', run.tier, run.seed, quiet=True)
        c09.r3_r4(sub, src, get_callgraph(src))
        n = 0
        for o in sub.obligations:
            if o['rule'] == 'C09.R4' and o['verdict'] == 'holds' and ('tokens' in o['loc'] or 'lexer' in o['loc'] or 'ast_builder' in o['loc']):
                n += 1
                run.ok('C05.R7', o['construct'], o['fact'], loc=o['loc'])
        for f in sub.findings:
            if f['rule'] == 'C09.R4' and ('tokens' in f['loc'] or 'lexer' in f['loc'] or 'ast_builder' in f['loc']):
                n += 1
                run.bad('C05.R7', f['construct'], f['sub'], f['message'], loc=f['loc'], facts=f['facts'])
        for e in sub.errors:
            run.errors.append(f'C05.R7 <- {e}')
        if n == 0:
            raise AnalysisError('C05.R7', 'no global-state site of the token classes was analysed')
    run.guard('C05.R7', r7, run)
    from .common import borrow
    from . import c09
    run.rule('C05.R8', 'a workbook set again is read, lexed and parsed again (setter raises the dirty flag unconditionally; shared with C09.R1)')
    borrow(run, 'C05.R8', c09.r1_any, src)
    run.rule('C05.R9', 'the tail pattern of every terminal accepts a tail that starts with blanks')
    _cached_guard(run, 'C05.R9', r9_tails_admit_blanks, src, g)
    run.rule('C05.R10', 'the lexer tries the token classes on the formula text itself (only blanks at the ends are stripped)')
    _cached_guard(run, 'C05.R10', r10_formula_text_untouched, src)
    from .common import check_rejections_propagate
    from ..callgraph import get_callgraph as _gcg
    run.rule('C05.R11', 'the rejection of a formula reaches the caller: no handler on the translation path turns it into a value')
    _cached_guard(run, 'C05.R11', check_rejections_propagate, 'C05.R11', src, _gcg(src),
              ['AstBuilder.parse', 'CompositeBaseToken.get', 'UndefinedToken.get'], 'a formula that does not fit the grammar')
    run.floor('C05.R11', 50)
    from .common import check_plumbing
    from ..runtime import get_runtime
    from . import c11 as _c11, c12 as _c12, c13 as _c13, c14 as _c14, c15 as _c15, c16 as _c16, c17 as _c17
    run.rule('C05.R12', 'the argument lists each supported function accepts are the ones Excel defines (the confirmed reference of every '
                        'function: arity, optional arguments, what each argument is printed as)')
    _cached_guard(run, 'C05.R12', check_plumbing, 'C05.R12', src, em, get_runtime(src),
              _c11.FUNCS + _c12.FUNCS + _c13.FUNCS + _c14.FUNCS + _c15.FUNCS + _c16.FUNCS + _c17.FUNCS)
    run.floor('C05.R12', 40)
    run.floor('C05.R10', 2)
    run.floor('C05.R9', 20)
    run.floor('C05.R8', 8)
    run.floor('C05.R7', 3)
    run.floor('C05.R1', 4)
    run.floor('C05.R2', 60)
    run.floor('C05.R3', 60)
    run.floor('C05.R4', 2)
    run.floor('C05.R5', 2)
    run.floor('C05.R6', 40)
    return INFO
