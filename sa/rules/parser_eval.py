"""The Parser facade decided by abstract evaluation (engine F).

Parser is evaluated as written against modelled collaborators: `Excel.parse(path)` hands out one of a few workbooks (safe, another
safe one, one with Python-like cells, one with a dependency cycle), `is_safe` raises the safety exception for the unsafe one,
`CellTranslator` raises the parser exception for the cyclic one, `Context().build_class()` prints a text that names the workbook
read and the entry point translated, `open` records what is written.  A history is a sequence of setter calls and translation
requests; the oracle is a function of the *current* settings only: whatever was asked before -- and however it ended -- a request
gives the text of the current workbook and entry point or raises what the current workbook deserves.
"""
from __future__ import annotations

import ast

from ..core import AnalysisError, Run, loc_of

WORKBOOKS = {'good.xlsx': ('good', None), 'other.xlsx': ('other', None), 'unsafe.xlsx': ('unsafe', 'unsafe'), 'cyclic.xlsx': ('cyclic', 'cyclic'),
             # Python-like text in a formula cell: it is reported by the gate when the check is on, it cannot be translated anyway
             'both.xlsx': ('both', 'unsafe+cyclic')}

HISTORIES = [
    ('repeat', [('path', 'good.xlsx'), ('get',), ('get',), ('write',), ('get',)]),
    ('another-workbook', [('path', 'good.xlsx'), ('get',), ('path', 'other.xlsx'), ('get',), ('write',), ('path', 'good.xlsx'), ('get',)]),
    ('same-path-set-again', [('path', 'good.xlsx'), ('get',), ('path', 'good.xlsx'), ('get',)]),
    ('unsafe-rejected-every-time', [('path', 'unsafe.xlsx'), ('get',), ('get',), ('write',), ('get',)]),
    ('unsafe-after-good', [('path', 'good.xlsx'), ('get',), ('path', 'unsafe.xlsx'), ('get',), ('get',), ('write',)]),
    ('good-after-unsafe', [('path', 'unsafe.xlsx'), ('get',), ('path', 'good.xlsx'), ('get',), ('get',)]),
    ('check-switched', [('safety', False), ('path', 'unsafe.xlsx'), ('get',), ('safety', True), ('get',), ('get',), ('safety', False), ('get',),
                        ('safety', True), ('get',)]),
    ('check-switched-without-request-between', [('path', 'unsafe.xlsx'), ('safety', False), ('safety', True), ('get',), ('safety', False), ('get',)]),
    ('cycle-rejected-every-time', [('path', 'cyclic.xlsx'), ('get',), ('get',), ('write',), ('path', 'good.xlsx'), ('get',)]),
    ('cycle-after-good', [('path', 'good.xlsx'), ('get',), ('path', 'cyclic.xlsx'), ('get',), ('get',)]),
    ('entry-point', [('path', 'good.xlsx'), ('entry', 'E1'), ('get',), ('entry', 'E2'), ('get',), ('entry', None), ('get',), ('entry', 'E1'), ('get',)]),
    ('entry-point-then-another-workbook', [('path', 'good.xlsx'), ('entry', 'E1'), ('get',), ('path', 'other.xlsx'), ('get',)]),
    ('no-path', [('get',), ('get',), ('path', 'good.xlsx'), ('get',)]),
    ('written-equals-returned', [('path', 'good.xlsx'), ('write',), ('get',), ('path', 'other.xlsx'), ('entry', 'E2'), ('write',), ('get',)]),
    ('python-like-formula-cell', [('path', 'both.xlsx'), ('get',), ('safety', False), ('get',), ('safety', True), ('get',), ('write',)]),
    ('unsafe-with-check-off-then-entry', [('safety', False), ('path', 'unsafe.xlsx'), ('entry', 'E1'), ('get',), ('safety', True), ('get',)]),
]


class Model:
    def __init__(self, src):
        from ..finite import evaluator_for_class, AV, const_av, AbsRaise
        self.AV, self.const_av = AV, const_av
        p = src.cls('Parser')
        self.ci = p
        ev = evaluator_for_class(p, max_depth=12)
        from .common import exception_bases
        ev.exception_bases = exception_bases(src)
        self.ev = ev
        self.reads: list = []
        self.written: list = []

        def bound(cname, mname, args, kwargs, fallback):
            """the arguments of a collaborator in the order of its parameters, whether they were passed by position or by name"""
            try:
                fn = src.cls(cname).methods[mname].node
                names = [a.arg for a in fn.args.posonlyargs + fn.args.args]
                if names and names[0] in ('cls', 'self'):
                    names = names[1:]
            except Exception:
                names = list(fallback)
            out = list(args)
            for n in names[len(out):]:
                if n in kwargs:
                    out.append(kwargs[n])
                else:
                    break
            extra = [k for k in kwargs if k not in names]
            if extra:
                raise AbsRaise('TypeError', f'{cname}.{mname}() got an unexpected keyword argument {extra[0]!r}')
            return out

        def excel_parse(args, kwargs):
            args = bound('Excel', 'parse', args, kwargs, ['path'])
            path = args[0] if args else AV('none')
            if path.kind == 'none' or not isinstance(path.val, str):
                raise AbsRaise('TypeError', 'expected str, bytes or os.PathLike object')
            wb, flaw = WORKBOOKS[path.val]
            self.reads.append(wb)

            def is_safe(a):
                if flaw and 'unsafe' in flaw:
                    raise AbsRaise('E2PyclSafetyException', 'python-like cells')
                return AV('none')
            return ev.new_obj('Excel', {'wb': const_av(wb), 'flaw': const_av(flaw), 'is_safe': AV('func', val=('native', is_safe)),
                                        'get_titles': AV('func', val=('native', lambda a: const_av('titles of ' + wb))),
                                        'get_sheets_size': AV('func', val=('native', lambda a: const_av('sizes of ' + wb)))})

        def new_context(args, kwargs):
            ctx = ev.new_obj('Context', {'translated': const_av(None)})

            def build(a, ctx=ctx):
                at = ev.obj_attrs(ctx)
                t = at.get('_titles', AV('none'))
                z = at.get('_sheets_size', AV('none'))
                return const_av(f'<{at["translated"].val}|{t.val}|{z.val}>')
            ev.obj_attrs(ctx)['build_class'] = AV('func', val=('native', build))
            return ctx

        def translate(entry):
            def f(args, kwargs):
                args = bound('CellTranslator', 'translate' if entry else 'translate_file', args, kwargs,
                             ['cell', 'excel', 'context'] if entry else ['excel', 'context'])
                if len(args) < (3 if entry else 2):
                    raise AbsRaise('TypeError', 'missing arguments of the translator')
                cell = args[0] if entry else None
                excel = args[1] if entry else args[0]
                ctx = args[2] if entry else args[1]
                if 'cyclic' in (ev.obj_attrs(excel)['flaw'].val or ''):
                    raise AbsRaise('E2PyclParserException', 'circular reference')
                name = ev.obj_attrs(cell)['name'].val if entry else 'file'
                ev.obj_attrs(ctx)['translated'] = const_av(f'{ev.obj_attrs(excel)["wb"].val} from {name}')
                return const_av('code')
            return f

        def opener(args, kwargs):
            mode = args[1] if len(args) > 1 else kwargs.get('mode', const_av('r'))
            if not (isinstance(mode.val, str) and 'w' in mode.val):
                raise AbsRaise('FileNotFoundError', 'the translation file is opened for reading')
            fobj = ev.new_obj('file', {})
            at = ev.obj_attrs(fobj)
            at['write'] = AV('func', val=('native', lambda a: (self.written.append(a[0]), AV('none'))[1]))
            at['__enter__'] = AV('func', val=('native', lambda a: fobj))
            at['__exit__'] = AV('func', val=('native', lambda a: AV('none')))
            at['close'] = AV('func', val=('native', lambda a: AV('none')))
            return fobj
        ev.externals = {'Excel.parse': excel_parse, 'Context': new_context, 'CellTranslator.translate': translate(True),
                        'CellTranslator.translate_file': translate(False), 'open': opener}
        self.me = ev.new_obj('Parser', {})
        ev.call_method('__init__', [], self.me)

    def entry(self, name):
        if name is None:
            return self.AV('none')
        return self.ev.new_obj('Cell', {'name': self.const_av(name)})


def expected(settings):
    path, entry, safety = settings
    if path is None:
        return 'rejects'
    wb, flaw = WORKBOOKS[path]
    if flaw and 'unsafe' in flaw and safety:
        return 'rejects:safety'
    if flaw and 'cyclic' in flaw:
        return 'rejects'
    return f'<{wb} from {entry or "file"}|titles of {wb}|sizes of {wb}>'


def evaluate_histories(run: Run, rule, src):
    from ..finite import Unknown, AbsRaise
    from .common import library_exceptions
    lib = library_exceptions(src)
    p = src.cls('Parser')
    rule_of = rule if callable(rule) else (lambda h: rule)
    for hname, ops in HISTORIES:
        try:
            m = Model(src)
        except (Unknown, AbsRaise) as u:
            raise AnalysisError(rule_of(hname), f'Parser: the abstraction cannot follow the construction of the parser ({u})')
        path, entry, safety = None, None, True
        dirty = True
        for k, op in enumerate(ops):
            construct = f'Parser/{hname}/{k}:{op[0]}'
            try:
                if op[0] == 'path':
                    m.ev.call_method('set_excel_file_path', [m.const_av(op[1])], m.me)
                    path, dirty = op[1], True
                    continue
                if op[0] == 'entry':
                    m.ev.call_method('set_entrypoint_cell', [m.entry(op[1])], m.me)
                    entry, dirty = op[1], True
                    continue
                if op[0] == 'safety':
                    m.ev.call_method('enable_safety_check' if op[1] else 'disable_safety_check', [], m.me)
                    safety, dirty = op[1], True
                    continue
                reads_before = len(m.reads)
                if op[0] == 'get':
                    res = m.ev.call_method('get_translation', [], m.me)
                    got = res.val if isinstance(res.val, str) else ('None' if res.kind == 'none' else repr(res))
                else:
                    n_w = len(m.written)
                    m.ev.call_method('write_translation', [m.const_av('out.py')], m.me)
                    w = m.written[n_w:]
                    got = w[0].val if len(w) == 1 and isinstance(w[0].val, str) else f'{len(w)} write(s) of {[repr(x) for x in w]}'
            except Unknown as u:
                raise AnalysisError(rule_of(hname), f'{construct}: the abstraction cannot follow the parser ({u})')
            except AbsRaise as e:
                got = 'rejects:safety' if e.exc == 'E2PyclSafetyException' else 'rejects' if e.exc in lib else f'raises {e.exc}'
                reads_before = None
            want = expected((path, entry, safety))
            meth = 'get_translation' if op[0] == 'get' else 'write_translation'
            loc = loc_of(p.module.path, p.methods['_translate'].node if '_translate' in p.methods else p.methods[meth].node)
            ok = got == want or (want == 'rejects' and path is None and got.startswith('rejects'))
            shown = '; '.join(_show(o) for o in ops[:k + 1])
            run.check(ok, rule_of(hname), construct, 'history',
                      f'after `{shown}` the request gives {got!r}; whatever was asked before, a request answers for the current settings '
                      f'(workbook {path!r}, entry point {entry!r}, check {"on" if safety else "off"}): {want!r}', fact=f'-> {got[:60]!r}', loc=loc)
            if not ok:
                break
            if dirty and reads_before is not None:
                # a setting was changed since the last successful request: the workbook is read again
                run.check(len(m.reads) > reads_before, rule_of(hname), construct + '/read-again', 'stale-cache',
                          f'after `{shown}` a setting had been set since the last translation but the workbook was not read again',
                          fact='workbook read again', loc=loc)
            if not got.startswith('r'):
                dirty = False


def _show(op):
    if op[0] == 'path':
        return f'set_excel_file_path({op[1]!r})'
    if op[0] == 'entry':
        return f'set_entrypoint_cell({op[1]})'
    if op[0] == 'safety':
        return 'enable_safety_check()' if op[1] else 'disable_safety_check()'
    return 'get_translation()' if op[0] == 'get' else 'write_translation(f)'
