"""C03 -- entry-point translation is a closed, faithful slice; cycles are rejected (DESIGN 3/C03)."""
from __future__ import annotations

import ast

from ..core import Run, AnalysisError, loc_of
from ..source import get_source, ClassInfo
from ..grammar import get_grammar
from ..emission import get_emission
from ..callgraph import get_callgraph, stores_of, raises_of
from ..paths import parent_map, path_conditions, executed_before, enclosing_stmt
from ..symeval import Code, Part, CellV
from .common import library_exceptions, iter_parts, borrow

INFO = {
    'explanation': (
        'R1 only the context mints member references: the text of a reference is produced in exactly one function, whose callers '
        'return it only for a registered uid (Context.get_cell) or register first (Context.set_sub_cell); no translator literal '
        'spells a reference itself (expected count 0, positive fixture kept); every reference form is printed cell by cell '
        'through CellTranslator.translate (symbolic emission of the two area translators) -- so every reference in the output names '
        'a defined member (closure). R2 in-progress marker: on the formula branch of CellTranslator._set_cell_to_context a call '
        'that marks the cell (membership test -> parser exception on re-entry, then store keyed by the uid) is executed before the '
        'descent (Lexer/AstBuilder/EntryPointTokenTranslator), and the memo test guards the whole branch. R3 nobody else registers '
        'or moves cells: Context.set_cell is called only from CellTranslator and no function on the translation path other than '
        'handle_cell stores to a Cell\'s coordinates -- a cell\'s translation depends only on its own text and precedents, which is why '
        'slice and whole-file translations agree. R4 dispatch entry cell vs whole file. R5 (shared C09.R1) a changed entry cell '
        'invalidates the cached translation; R6 (shared C02.R2/R4) areas enumerate every cell including the last row/column. Not '
        'decided: value equality of slice and whole-file translation in general.'),
    'rule': 'one obligation per call site / store / emission / path',
    'trusted': ['call-graph resolver'],
}

FIXTURE_POSITIVE = "return f\"self._cell_preprocessor('{name}')\""


def _mints_reference(node) -> bool:
    """a string constant / f-string literal part that spells a member reference"""
    for n in ast.walk(node):
        if isinstance(n, ast.Constant) and isinstance(n.value, str) and '_cell_preprocessor(' in n.value:
            return True
    return False


def r1(run: Run, src, g, em, cg):
    # positive fixture: the detector must recognise the pattern
    if not _mints_reference(ast.parse('def f(name):\n    ' + FIXTURE_POSITIVE)):
        raise AnalysisError('C03.R1', 'the reference detector does not recognise its positive fixture')
    minters = []
    for f in src.functions.values():
        if f.module.name.endswith('abstract_excel_in_python_class'):
            continue
        # the class template constant contains the runtime's own calls: skip the template property itself
        if f.cls is not None and f.cls.name == 'Context' and f.name.strip('_').endswith('class_template'):
            continue
        if _mints_reference(f.node):
            minters.append(f)
    run.check(len(minters) == 1 and minters[0].cls is not None and minters[0].cls.name == 'Context', 'C03.R1', 'reference-minters',
              'reference-minted-outside-context',
              f'the text of a member reference is produced in {[m.qualname for m in minters]}; only the context may mint references '
              f'(it knows which members exist)', fact=f'only {minters[0].qualname if minters else "?"}',
              loc=loc_of(minters[-1].module.path, minters[-1].node) if minters else '')
    if not minters:
        raise AnalysisError('C03.R1', 'no function mints references')
    mint = [m for m in minters if m.cls is not None and m.cls.name == 'Context'][0]
    # how the context hands out references: decided by evaluation of the context on a history of registrations; the structural
    # reading below is the fallback
    from . import pipeline_eval
    try:
        pipeline_eval.context_obligations(run, 'C03.R1', src, g)
        return _r1_translators(run, src, g, em, cg)
    except AnalysisError as e_:
        run.note(f'C03.R1: the context by structure ({e_.reason[:120]})')
    callers = {s.caller.qualname: s for s in cg.callers_of(mint)}
    ctx = src.cls('Context')
    allowed = {'Context.get_cell', 'Context.set_sub_cell'}
    for q, s in sorted(callers.items()):
        run.check(q in allowed, 'C03.R1', f'{q} -> {mint.name}', 'unexpected-minter-caller',
                  f'{q} builds a member reference directly: it can name a member that is never defined', fact='allowed caller',
                  loc=loc_of(s.caller.module.path, s.node))
    # get_cell returns the reference only for a registered uid
    gc = ctx.methods.get('get_cell')
    rets = [n for n in ast.walk(gc.node) if isinstance(n, ast.Return)]
    ok = False
    if len(rets) == 1 and isinstance(rets[0].value, ast.IfExp):
        t = rets[0].value
        test = ast.unparse(t.test)
        ok = ' in self._cell_translations' in test and isinstance(t.orelse, ast.Constant) and t.orelse.value is None
    else:
        conds_ok = []
        for r in rets:
            if r.value is not None and not (isinstance(r.value, ast.Constant) and r.value.value is None):
                from .common import flat_conditions
                pc = flat_conditions(path_conditions(gc.node, r, parent_map(gc.node)))

                def registered(t, pol):
                    if not (isinstance(t, ast.Compare) and len(t.ops) == 1 and '_cell_translations' in ast.unparse(t.comparators[0])):
                        return False
                    return (isinstance(t.ops[0], ast.In) and pol) or (isinstance(t.ops[0], ast.NotIn) and not pol)
                conds_ok.append(any(registered(t, pol) for t, pol in pc))
        ok = bool(conds_ok) and all(conds_ok)
    run.check(ok, 'C03.R1', 'Context.get_cell/registered-only', 'reference-to-unregistered-cell',
              'Context.get_cell can return a reference for a cell that has no translation: the generated class would reference a '
              'member it does not define', fact='reference only if uid in _cell_translations', loc=loc_of(gc.module.path, gc.node))
    # set_cell stores under the name that get_cell tests
    sc = ctx.methods.get('set_cell')
    stores = [n for n in ast.walk(sc.node) if isinstance(n, ast.Assign) and isinstance(n.targets[0], ast.Subscript) and
              '_cell_translations' in ast.unparse(n.targets[0].value)]
    run.check(len(stores) == 1, 'C03.R1', 'Context.set_cell/registers', 'not-registered', 'set_cell does not register the code under '
              'the cell name', fact='_cell_translations[name] = code', loc=loc_of(sc.module.path, sc.node))
    # set_sub_cell registers (append) before it returns the reference
    ss = ctx.methods.get('set_sub_cell')
    parents = parent_map(ss.node)
    rets = [n for n in ast.walk(ss.node) if isinstance(n, ast.Return)]
    # locals that hold the per-cell list of sub-expressions (setdefault / get / subscript of the table)
    aliases = set()
    for st in ast.walk(ss.node):
        if isinstance(st, ast.Assign) and '_sub_cell_translations' in ast.unparse(st.value) and \
                not isinstance(st.value, (ast.List, ast.Dict)):
            aliases |= {t.id for t in st.targets if isinstance(t, ast.Name)}

    def is_list(e):
        return '_sub_cell_translations' in ast.unparse(e) or (isinstance(e, ast.Name) and e.id in aliases)
    apps = [n for n in ast.walk(ss.node) if isinstance(n, ast.Call) and isinstance(n.func, ast.Attribute) and n.func.attr == 'append'
            and is_list(n.func.value)]
    idx = [n for n in ast.walk(ss.node) if isinstance(n, ast.Call) and isinstance(n.func, ast.Attribute) and n.func.attr == 'index'
           and is_list(n.func.value)]
    run.check(len(apps) == 1 and len(rets) == 1 and apps[0].lineno < rets[0].lineno and len(idx) == 1, 'C03.R1',
              'Context.set_sub_cell/registers-first', 'sub-cell-not-registered',
              'set_sub_cell does not store the code (or find the identical stored code) before handing out its reference',
              fact='append or index, then reference', loc=loc_of(ss.module.path, ss.node))
    # the divided sub-cell names use the same naming function as the reference
    dv = ctx.methods.get('_get_divided_sub_cell_translations')
    run.check(dv is not None and '_get_sub_cell_function_name' in ast.unparse(dv.node) and
              '_get_sub_cell_function_name' in ast.unparse(ss.node), 'C03.R1', 'Context/sub-cell-naming', 'naming-mismatch',
              'sub-cell members are defined under names built differently from the names their references use',
              fact='one naming function for definition and reference', loc=loc_of(ctx.module.path, ctx.node))
    bc = ctx.methods.get('build_class')
    txt = ast.unparse(bc.node)
    run.check('_cell_translations' in txt and '_get_divided_sub_cell_translations' in txt, 'C03.R1', 'Context.build_class/members',
              'members-dropped', 'build_class does not emit both the cell members and the sub-cell members', fact='cells + sub-cells',
              loc=loc_of(bc.module.path, bc.node))
    _r1_translators(run, src, g, em, cg)


def _r1_translators(run: Run, src, g, em, cg):
    # areas are printed cell by cell through CellTranslator
    for tr, tk in (('CellIdentifierRangeTokenTranslator', 'CellIdentifierRangeToken'),
                   ('MatrixOfCellIdentifiersTokenTranslator', 'MatrixOfCellIdentifiersToken')):
        ems = em.pairs.get((tr, tk))
        if not ems:
            raise AnalysisError('C03.R1', f'{tr} is never applied to {tk}')
        for e in ems:
            if e.outcome.kind != 'return':
                continue
            slots = [p for p in iter_parts(e.outcome.value) if p.kind == 'slot'] if isinstance(e.outcome.value, Code) else []
            ok = bool(slots) and all(p.a == 'CellTranslator' and isinstance(p.b, CellV) and p.b.tag.startswith('area:') for p in slots)
            others = [p for p in iter_parts(e.outcome.value) if p.kind in ('raw', 'opaque', 'cellref')] if isinstance(e.outcome.value, Code) else []
            run.check(ok and not others, 'C03.R1', f'{tr}/elements', 'area-not-through-cell-translator',
                      f'{tr} does not print each cell of the area through CellTranslator.translate (which registers the cell and '
                      f'descends into its formula): cells of an area could be missing from the slice',
                      fact='every element = CellTranslator.translate(cell of the area)', loc=loc_of(src.cls(tr).module.path, src.cls(tr).node))
    # CellTranslator.translate = register then reference
    ct = src.cls('CellTranslator')
    t = ct.methods.get('translate')
    body = [s for s in t.node.body if not (isinstance(s, ast.Expr) and isinstance(s.value, ast.Constant))]
    ok = len(body) == 2 and '_set_cell_to_context' in ast.unparse(body[0]) and isinstance(body[1], ast.Return) and \
        'get_cell' in ast.unparse(body[1])
    run.check(ok, 'C03.R1', 'CellTranslator.translate/shape', 'translate-shape',
              'CellTranslator.translate is not "translate and register the cell, then return its reference"',
              fact='_set_cell_to_context; return context.get_cell(cell)', loc=loc_of(t.module.path, t.node))


def r2(run: Run, src, cg):
    from .common import normalized_method, flat_conditions
    lib = library_exceptions(src)
    ct = src.cls('CellTranslator')
    fi, fn = normalized_method(src, 'CellTranslator', '_set_cell_to_context')
    parents = parent_map(fn)
    descents = [n for n in ast.walk(fn) if isinstance(n, ast.Call) and isinstance(n.func, ast.Attribute) and
                ((n.func.attr == 'parse' and isinstance(n.func.value, ast.Name) and n.func.value.id in ('Lexer', 'AstBuilder')) or
                 (n.func.attr == 'translate' and isinstance(n.func.value, ast.Name) and 'Translator' in n.func.value.id))]
    if len(descents) < 3:
        raise AnalysisError('C03.R2', f'expected the descent calls Lexer.parse, AstBuilder.parse and a translator, found {len(descents)}')
    # candidate marker calls: <context>.<m>(cell) whose callee tests membership -> raises parser exception, then stores
    ctx_cls = src.cls('Context')
    markers = []
    for n in ast.walk(fn):
        if not (isinstance(n, ast.Call) and isinstance(n.func, ast.Attribute) and isinstance(n.func.value, ast.Name)):
            continue
        t = ctx_cls.methods.get(n.func.attr)
        if t is None or n.func.value.id in ('cls', 'self', ct.name):
            continue
        tests = [x for x in ast.walk(t.node) if isinstance(x, ast.If) and any(isinstance(c, ast.Compare) and
                 isinstance(c.ops[0], ast.In) for c in ast.walk(x.test)) and any(e in lib for e, _ in raises_of(ast.Module(body=x.body, type_ignores=[])))]
        stores = [st for st in stores_of(t.node) if st.kind in ('subscript', 'mutating-call') and st.base == 'self']
        if tests and stores:
            same = any(ast.unparse(c.comparators[0]) in st.target for x in tests for c in ast.walk(x.test)
                       if isinstance(c, ast.Compare) for st in stores)
            order = min(x.lineno for x in tests) < min(st.node.lineno for st in stores)
            if same and order:
                class _S:
                    pass
                s_ = _S()
                s_.node = n
                markers.append((s_, t))
    run.check(bool(markers), 'C03.R2', 'CellTranslator._set_cell_to_context/marker', 'no-in-progress-marker',
              'no call on the formula branch marks the cell as in progress (membership test that raises the parser exception on '
              're-entry, followed by a store keyed by the cell): cyclic references recurse until RecursionError',
              fact=f'marker: {markers[0][1].qualname if markers else "-"}', loc=loc_of(fi.module.path, fn))
    if not markers:
        return
    mcall = markers[0][0].node
    mstmt = mcall
    while mstmt is not None and not isinstance(mstmt, ast.stmt):
        mstmt = parents.get(mstmt)
    # every call that can re-enter this function (call graph) is a descent, whatever it is called
    for n in ast.walk(fn):
        if not (isinstance(n, ast.Call) and isinstance(n.func, ast.Attribute) and isinstance(n.func.value, ast.Name)) or n in descents \
                or n is mcall:
            continue
        owner = ct.name if n.func.value.id in ('cls', 'self') else n.func.value.id
        if not src.has_cls(owner) or owner == 'Context':
            continue
        t_ = src.find_method(src.cls(owner), n.func.attr)
        if t_ is None:
            continue
        try:
            back = fi.key in cg.reachable([t_])
        except Exception:
            back = False
        if back:
            descents.append(n)
    # the marker is keyed by the identity of the cell: sheet, column and row (the uid), not by a part of it
    callee0 = markers[0][1]
    cparam = [p_ for p_ in callee0.params if p_ not in ('self', 'cls')]
    keyed_ok = None
    if cparam:
        cp_ = cparam[0]
        tests_ = [c for n in ast.walk(callee0.node) if isinstance(n, ast.If) for c in ast.walk(n.test)
                  if isinstance(c, ast.Compare) and isinstance(c.ops[0], (ast.In, ast.NotIn))]
        if tests_:
            key_e = tests_[0].left

            def identity_of(e, depth=0):
                """True when the expression carries title, column and row of the cell parameter"""
                txt = ast.unparse(e)
                if f'{cp_}.uid' in txt:
                    return True
                if all(f'{cp_}.{a}' in txt for a in ('title', 'column', 'row')):
                    return True
                if isinstance(e, ast.Name) and depth < 3:
                    vals = [st.value for st in ast.walk(callee0.node) if isinstance(st, ast.Assign) and
                            any(isinstance(t, ast.Name) and t.id == e.id for t in st.targets)]
                    return bool(vals) and all(identity_of(v, depth + 1) for v in vals)
                if isinstance(e, ast.Call) and isinstance(e.func, ast.Attribute) and depth < 3 and callee0.cls is not None:
                    m = callee0.cls.methods.get(e.func.attr)
                    if m is not None and e.args and ast.unparse(e.args[0]) == cp_:
                        mp = [p_ for p_ in m.params if p_ not in ('self', 'cls')]
                        rets_ = [r.value for r in ast.walk(m.node) if isinstance(r, ast.Return) and r.value is not None]
                        if mp and rets_:
                            t2 = [ast.unparse(r) for r in rets_]
                            return all(f'{mp[0]}.uid' in x or all(f'{mp[0]}.{a}' in x for a in ('title', 'column', 'row')) for x in t2)
                return False
            keyed_ok = identity_of(key_e)
    if keyed_ok is None:
        raise AnalysisError('C03.R2', f'{callee0.qualname}: the key of the in-progress test could not be determined')
    run.check(keyed_ok, 'C03.R2', f'{callee0.qualname}/key', 'marker-key-not-cell-identity',
              f'{callee0.qualname} records cells in progress under a key that does not carry sheet, column and row of the cell (the '
              f'uid): two different cells with the same key are mistaken for one -- an acyclic reference between equal addresses on '
              f'two sheets is rejected as circular', fact='keyed by the cell uid (sheet, column, row)',
              loc=loc_of(callee0.module.path, callee0.node))
    for d in descents:
        before = executed_before(fn, d, parents)
        run.check(mstmt in before, 'C03.R2', f'_set_cell_to_context/{ast.unparse(d.func)}', 'descent-before-marker',
                  f'`{ast.unparse(d.func)}` can run before the cell is marked as in progress: a cycle through this cell is not '
                  f'detected', fact='marker executed before', loc=loc_of(fi.module.path, d))
    # the marker raises the *parser* exception
    callee = markers[0][1]
    rs = {e for e, _ in raises_of(callee.node)}
    run.check(rs <= {'E2PyclParserException'} and bool(rs), 'C03.R2', f'{callee.qualname}/exception', 'cycle-exception-class',
              f'a cycle is reported with {sorted(rs)}; the property names the library\'s parser exception', fact='E2PyclParserException',
              loc=loc_of(callee.module.path, callee.node))
    # the marker is keyed by the cell's uid / function name
    arg_ok = mcall.args and isinstance(mcall.args[0], ast.Name) and mcall.args[0].id.split('__i')[0] == fi.params[1]
    run.check(bool(arg_ok), 'C03.R2', '_set_cell_to_context/marker-argument', 'marker-argument',
              f'the marker is called with `{ast.unparse(mcall.args[0])[:30] if mcall.args else "?"}`, not with the cell being translated',
              fact='marker(cell)', loc=loc_of(fi.module.path, mcall))
    # memo test: every descent is reached only when the cell has no translation yet; the code is registered afterwards
    def under_memo(node):
        return any('get_cell' in ast.unparse(t) and pol is False for t, pol in flat_conditions(path_conditions(fn, node, parents)))
    ok = all(under_memo(d) for d in descents)
    run.check(ok, 'C03.R2', '_set_cell_to_context/memo', 'memo-test',
              'the descent is not guarded by "the cell has no translation yet": shared precedents are re-translated (exponential) '
              'or translated under a different state', fact='reached only if not context.get_cell(cell)', loc=loc_of(fi.module.path, fn))
    setc = [n for n in ast.walk(fn) if isinstance(n, ast.Call) and isinstance(n.func, ast.Attribute) and n.func.attr == 'set_cell']
    trans = [d for d in descents if d.func.attr == 'translate']
    def precedes(d, sc):
        before = executed_before(fn, sc, parents)
        a = enclosing_stmt(d, parents)
        while a is not None and a is not fn:
            if a in before:
                return True
            a = parents.get(a)
        return False
    ok = any(all(precedes(d, sc) for d in trans) and under_memo(sc) for sc in setc)
    run.check(ok, 'C03.R2', '_set_cell_to_context/set_cell', 'not-registered', 'the translated code is not registered with the context '
              'after the formula was translated', fact='context.set_cell(cell, code) after the descent', loc=loc_of(fi.module.path, fn))
    # every cell that has no translation yet gets one: no normal exit of the "not translated yet" region skips set_cell (a cell
    # that is silently left without a member can only be referenced by a literal, which overrides and the slice do not see)
    from ..paths import normal_exits_pass
    regions = [n for n in ast.walk(fn) if isinstance(n, ast.If) and 'get_cell' in ast.unparse(n.test) and
               any(sc is x for sc in setc for x in ast.walk(n))]

    def is_set(st_):
        return any(isinstance(x, ast.Call) and isinstance(x.func, ast.Attribute) and x.func.attr == 'set_cell' for x in ast.walk(st_))
    for reg in regions:
        # the branch in which the cell has no translation
        flat = flat_conditions([(reg.test, True)])
        branch = reg.body if any('get_cell' in ast.unparse(t) and pol is False for t, pol in flat) else reg.orelse
        run.check(normal_exits_pass(branch, is_set), 'C03.R2', '_set_cell_to_context/every-cell-registered', 'cell-left-unregistered',
                  'a path through the "cell has no translation yet" branch ends without context.set_cell: such a cell gets no '
                  'member in the generated class', fact='every normal exit passes set_cell', loc=loc_of(fi.module.path, reg))
    # CellTranslator.translate hands out what the context minted, nothing else
    tr_fi = src.func('CellTranslator.translate')
    for r_ in [n for n in ast.walk(tr_fi.node) if isinstance(n, ast.Return) and n.value is not None]:
        v_ = r_.value
        okr = isinstance(v_, ast.Call) and isinstance(v_.func, ast.Attribute) and v_.func.attr == 'get_cell'
        if isinstance(v_, ast.Name):
            ds = [a_.value for a_ in ast.walk(tr_fi.node) if isinstance(a_, ast.Assign) and any(isinstance(t_, ast.Name) and t_.id == v_.id
                                                                                                for t_ in a_.targets)]
            okr = bool(ds) and all(isinstance(d_, ast.Call) and isinstance(d_.func, ast.Attribute) and d_.func.attr == 'get_cell' for d_ in ds)
        run.check(okr, 'C03.R2', 'CellTranslator.translate/returns-context-reference', 'reference-not-from-context',
                  f'CellTranslator.translate returns `{ast.unparse(v_)[:70]}`: a reference (or a literal standing for the cell) that the '
                  f'context did not mint bypasses the member of the cell -- overrides and the entry slice do not reach it',
                  fact='return context.get_cell(cell)', loc=loc_of(tr_fi.module.path, r_))


def _ancestors(node, parents):
    p = parents.get(node)
    while p is not None:
        yield p
        p = parents.get(p)


def r3(run: Run, src, cg):
    entry = src.func('Parser._translate')
    reach = cg.reachable([entry])
    ctx = src.cls('Context')
    sc = ctx.methods.get('set_cell')
    for s in cg.callers_of(sc):
        if s.how == 'cha' and s.caller.cls is not None and s.caller.cls.name == 'Executor':
            continue
        q = s.caller.qualname
        owner = s.caller.cls.name if s.caller.cls is not None else q          # keyed by class: helper methods may be split off
        run.check(q.startswith('CellTranslator.'), 'C03.R3', f'{owner} -> Context.set_cell', 'foreign-registration',
                  f'{q} registers cell translations itself: what a cell means then depends on which other cells were translated '
                  f'before it (entry-point slice and whole-file translation can differ)', fact='only CellTranslator registers cells',
                  loc=loc_of(s.caller.module.path, s.node))
    n = 0
    for key, (f, parent) in sorted(reach.items()):
        if f.module.name.endswith('abstract_excel_in_python_class') or (f.cls is not None and f.cls.name == 'Executor'):
            continue
        n += 1
        moved = [st for st in stores_of(f.node) if st.kind == 'obj-attr' and st.attr in ('title', 'column', 'row') and
                 not (st.base in ('self',))]
        if f.qualname == 'handle_cell':
            continue
        if moved:
            for st in moved:
                owner = f.cls.name if f.cls is not None else f.qualname
                run.bad('C03.R3', f'{owner}/cell.{st.attr}', 'cell-moved',
                        f'{f.qualname} (reachable from _translate) rewrites the coordinate `{st.target}` of a Cell during translation: '
                        f'later references to that cell object point elsewhere', loc=loc_of(f.module.path, st.node))
        else:
            run.ok('C03.R3', f.qualname, 'does not move cells', nontrivial=False, loc=loc_of(f.module.path, f.node))
    if n < 100:
        raise AnalysisError('C03.R3', f'only {n} functions reachable from _translate')


def r4(run: Run, src):
    """the entry cell selects the slice, its absence the whole file: decided on the request histories of the Parser (rules/
    parser_eval.py: the collaborators record which of them was called with what); the reading of the text of _translate is the
    fallback when the evaluator cannot follow the facade.  translate_file translates every cell through the routine of the
    entry-point path: the workbook-level evaluation (R10) decides; the text is read when it is of the known shape."""
    from .common import inlined_function, evaluate_shared
    from . import parser_eval
    fi = inlined_function(src, 'Parser._translate')
    loc = loc_of(fi.module.path, fi.node)
    data = evaluate_shared(run, parser_eval.evaluate_histories, ('C03.R4', src))
    if data['error'] is None:
        seen = 0
        for o in data['obligations']:
            if '/entry-point' in o['construct'] and o['verdict'] == 'holds':
                seen += 1
                run.ok('C03.R4', o['construct'], o['fact'], loc=o['loc'])
        for f in data['findings']:
            if '/entry-point' in f['construct']:
                seen += 1
                run.bad('C03.R4', f['construct'], f['sub'], f['message'], loc=f['loc'])
        if not seen:
            raise AnalysisError('C03.R4', 'no request history with an entry point was evaluated')
    else:
        run.note(f'C03.R4: facade evaluation skipped ({data["error"]["reason"][:100]}); text of _translate read')
        ifs = [n for n in ast.walk(fi.node) if isinstance(n, ast.If) and ast.unparse(n.test) == 'self._entrypoint_cell']
        ok = False
        if len(ifs) == 1:
            a, b = ast.unparse(ifs[0].body[0]) if ifs[0].body else '', ast.unparse(ifs[0].orelse[0]) if ifs[0].orelse else ''
            ok = 'CellTranslator.translate(self._entrypoint_cell' in a and 'CellTranslator.translate_file(' in b
        if not ok:
            raise AnalysisError('C03.R4', 'neither the evaluator nor the reading of the text can follow the dispatch in Parser._translate')
        run.ok('C03.R4', 'Parser._translate/dispatch', 'entry cell -> translate(entry); none -> translate_file', loc=loc)
    ct = src.cls('CellTranslator')
    tf = ct.methods.get('translate_file')
    if tf is None:
        raise AnalysisError('C03.R4', 'CellTranslator.translate_file not found')
    ok = 'get_cells()' in ast.unparse(tf.node) and '_set_cell_to_context' in ast.unparse(tf.node)
    if ok:
        run.ok('C03.R4', 'CellTranslator.translate_file', 'for cell in excel.get_cells(): _set_cell_to_context', loc=loc_of(tf.module.path, tf.node))
    else:
        run.note('C03.R4: translate_file is not of the known shape; the workbook-level evaluation (R10) decides whether every cell is translated')


def run(run: Run):
    from .common import cached_guard as _cached_guard
    src = get_source()
    g = get_grammar(src)
    em = get_emission(src)
    cg = get_callgraph(src)
    run.rule('C03.R1', 'only the context mints references, and only for registered members; areas go cell by cell through CellTranslator')
    run.rule('C03.R2', 'in-progress marker before the descent; memo test; registration')
    run.rule('C03.R3', 'nobody else registers or moves cells during translation')
    run.rule('C03.R4', 'entry cell vs whole file dispatch')
    run.rule('C03.R5', 'a changed entry cell / path invalidates the cached translation (shared with C09.R1)')
    run.rule('C03.R6', 'areas enumerate every cell incl. last row/column, row-major (shared with C02.R2/R4)')
    _cached_guard(run, 'C03.R1', r1, src, g, em, cg)
    _cached_guard(run, 'C03.R2', r2, src, cg)
    _cached_guard(run, 'C03.R3', r3, src, cg)
    _cached_guard(run, 'C03.R4', r4, src)
    from . import c09, c02
    borrow(run, 'C03.R5', c09.r1_any, src)
    borrow(run, 'C03.R6', c02.r2, src)
    borrow(run, 'C03.R6', c02.r4_r5, src)
    # closure: a sub-expression that is parsed but never descended into / emitted takes the cells it references out of the slice
    run.rule('C03.R7', 'every argument of every function production is descended into in every world (shared with C05.R6)')
    from . import c05
    borrow(run, 'C03.R7', c05.r6, src, g, em)
    run.floor('C03.R7', 30)
    run.rule('C03.R8', 'the tree a cell is translated from is parsed for that very cell, so its references are those of the cell (shared with C02.R8)')
    borrow(run, 'C03.R8', c02.r8_fresh_parse, src)
    run.floor('C03.R8', 1)
    from .common import check_rejections_propagate
    run.rule('C03.R9', 'the rejection of a cycle reaches the caller: no handler on the translation path turns it into a value')
    _cached_guard(run, 'C03.R9', check_rejections_propagate, 'C03.R9', src, cg, ['Context.start_cell_translation'], 'a circular reference')
    run.floor('C03.R9', 50)
    run.floor('C03.R1', 10)
    run.floor('C03.R2', 6)
    run.floor('C03.R3', 100)
    run.floor('C03.R4', 5)
    run.floor('C03.R5', 8)
    run.floor('C03.R6', 14)
    from . import pipeline_eval as _pe
    from ..grammar import get_grammar as _gg_pe
    run.rule('C03.R10', 'a workbook of dependent formulas gives every cell the same value in the whole-file translation and in each entry-point slice, end to end by evaluation')
    _cached_guard(run, 'C03.R10', _pe.book_obligations, 'C03.R10', 'C03.R10', get_source(), _gg_pe(get_source()))
    run.floor('C03.R10', 25)
    run.rule('C03.R11', 'a workbook whose formulas depend on themselves is rejected, whole file and from an entry point inside the cycle, end '
                        'to end by evaluation')
    _cached_guard(run, 'C03.R11', _pe.cycle_obligations, 'C03.R11', get_source(), _gg_pe(get_source()))
    run.floor('C03.R11', 8)
    return INFO
