"""C10 -- comparisons are exact and lawful (DESIGN 3/C10)."""
from __future__ import annotations

import ast
import itertools

from ..core import Run, AnalysisError, loc_of
from ..source import get_source
from ..runtime import get_runtime
from ..finite import evaluator_for, Evaluator, AV, Unknown, AbsRaise, const_av, truth

INFO = {
    'explanation': (
        'Finite-domain abstract evaluation of the comparison helper of both runtime copies. R1: _compare is evaluated over all '
        'ordered pairs of operand kinds {int, fractional float, whole float, bool, blank, int-like text, decimal text, other text, '
        'empty text, date, datetime} following its try/except ladder with models of int()/float()/str(); whenever both operands are '
        'numbers the values that reach _by_operator must be un-truncated, come from the right operands in the right order, and '
        'every pair must reach _by_operator. R2: _by_operator maps each operator string the translator can emit to the Python '
        'comparison of the same meaning (operand order included) and the unknown-operator branch is dead. R3: the blank object\'s '
        'rich comparisons are evaluated (with Python\'s reflected-operand dispatch) over {empty text, other text, date, datetime, '
        'None, blank, empty/non-empty list} -- the classes that reach them un-coerced according to R1 -- and checked against '
        'trichotomy, <> = not =, <= = not >, >= = not <, a<b iff b>a and the stated facts. R4: on the date rung both operands are '
        'lifted to midnight date-times. Not decided: exactness for huge integers mixed with floats (Python\'s mixed comparison is '
        'exact: trusted), text collation.'),
    'rule': 'one obligation per (copy, operand-kind pair) / operator string / (law, operand class)',
    'trusted': ['models of int(), float(), str(), isinstance on the abstract kinds; Python reflected-operand dispatch rules'],
}

KINDS = {
    'int': AV('int', sign='pos'),
    'float-frac': AV('float', sign='pos', frac=True),
    'float-whole': AV('float', sign='pos', frac=False),
    'bool': AV('bool', sign='pos', val=True),
    'blank': AV('blank', sign='zero'),
    'text-int': AV('str', text='int'),
    'text-dec': AV('str', text='dec'),
    'text-other': AV('str', text='other'),
    'text-empty': AV('str', text='empty', val=''),
    'date': AV('date'),
    'datetime': AV('datetime'),
}
NUMBERS = ('int', 'float-frac', 'float-whole', 'bool', 'blank')
OPS = ['==', '!=', '<', '<=', '>', '>=']
PY_CMP = {'==': ast.Eq, '!=': ast.NotEq, '<': ast.Lt, '<=': ast.LtE, '>': ast.Gt, '>=': ast.GtE}


def _with_origin(av: AV, origin: str) -> AV:
    from dataclasses import replace
    return replace(av, origin=origin)


def r1_r4(run: Run, rt):
    reach = {}          # (left kind, right kind) -> kinds that reached _by_operator (template copy)
    for cp in rt.copies():
        fn = cp.members.get('_compare')
        if fn is None:
            run.bad('C10.R1', f'_compare[{cp.label}]', 'missing', 'the comparison helper does not exist', loc=cp.path)
            continue
        loc = cp.loc(fn)
        for (ka, a), (kb, b) in itertools.product(KINDS.items(), repeat=2):
            rec = []

            def hook(ev, args, rec=rec):
                rec.append(args)
                return AV('bool')
            ev = evaluator_for(cp, hooks={'_by_operator': hook, '_normalize_float_number': _normaliser_hook})
            construct = f'_compare[{cp.label}]({ka},{kb})'
            try:
                ev.call_method('_compare', [const_av('=='), _with_origin(a, 'L'), _with_origin(b, 'R')])
            except Unknown as u:
                raise AnalysisError('C10.R1', f'{construct}: the abstraction cannot follow the ladder ({u})')
            except AbsRaise as r:
                run.bad('C10.R1', construct, f'escapes:{r.exc}',
                        f'comparing {ka} with {kb} lets {r.exc} escape from the coercion ladder', loc=loc)
                continue
            # a failed rung must not leave one operand converted: int() / float() of the right operand followed by a failing
            # conversion of the left one hands (original left, converted right) to the later rungs
            for tr in ev.trace:
                if tr[0] == 'leak' and tr[2].origin in ('L', 'R') and tr[2].kind in ('blank', 'str', 'bool') and \
                        tr[3].kind in ('int', 'float'):
                    run.bad('C10.R1', construct, 'partial-coercion-leaks',
                            f'comparing {ka} with {kb}: the attempt that fails with {tr[4]} has already re-bound `{tr[1]}` from '
                            f'{tr[2]!r} to {tr[3]!r}; the later attempts compare the converted operand with the unconverted other '
                            f'one (a blank turned into the number 0 no longer equals the empty text)', loc=loc)
                    break
            if len(rec) != 1:
                # several calls are fine when earlier ones raised inside _by_operator; our hook never raises
                pass
            if not rec:
                run.bad('C10.R1', construct, 'no-comparison', f'comparing {ka} with {kb} never reaches _by_operator', loc=loc)
                continue
            op, l, r = rec[-1]
            # what the operator table itself does to the operands before it compares them
            bo = cp.members.get('_by_operator')
            if bo is not None:
                try:
                    by_operator_table(bo)
                except AnalysisError:
                    pass
                pre = PRELUDE.get(id(bo), [])
                if pre:
                    ps_ = [a_.arg for a_ in bo.args.args if a_.arg != 'self']
                    env_ = {'self': AV('other', origin='self'), ps_[0]: op, ps_[1]: l, ps_[2]: r}
                    try:
                        ev.exec_block(pre, env_)
                    except Unknown as u:
                        raise AnalysisError('C10.R1', f'{construct}: the abstraction cannot follow the prelude of _by_operator ({u})')
                    except AbsRaise as r_:
                        run.bad('C10.R1', construct, f'escapes:{r_.exc}', f'comparing {ka} with {kb} lets {r_.exc} escape from _by_operator',
                                loc=loc)
                        continue
                    op, l, r = env_[ps_[0]], env_[ps_[1]], env_[ps_[2]]
            if cp.label == 'template':
                reach[(ka, kb)] = (l, r)
            problems = []
            if l.origin != 'L' or r.origin != 'R':
                problems.append(('operands-swapped-or-replaced', f'_by_operator receives ({l.origin or "?"}, {r.origin or "?"}) '
                                                                 f'instead of (left, right)'))
            if op.val != '==':
                problems.append(('operator-changed', f'the operator reaches _by_operator as {op.val!r}'))
            if ka in NUMBERS and kb in NUMBERS:
                if l.prec != 'exact' or r.prec != 'exact':
                    which = 'left' if l.prec != 'exact' else 'right'
                    problems.append(('lossy-coercion', f'the {which} operand is {l.prec if l.prec != "exact" else r.prec} before '
                                                       f'the comparison: {ka} vs {kb} compares {l!r} with {r!r}'))
                if l.kind == 'str' or r.kind == 'str':
                    problems.append(('numbers-compared-as-text', f'{ka} vs {kb} is compared as text'))
            if ka in ('date', 'datetime') and kb in ('date', 'datetime'):
                for side, kk, v in (('left', ka, l), ('right', kb, r)):
                    if v.kind != 'datetime':
                        problems.append(('date-not-lifted', f'the {side} operand ({kk}) reaches the comparison as {v.kind}: a date '
                                                            f'must be compared as the date-time at its midnight'))
                    elif kk == 'date' and v.val != 'midnight' and not (isinstance(v.val, tuple) and v.val[:1] == ('ymd',)):
                        problems.append(('date-not-midnight', f'the {side} date is not lifted with datetime(y, m, d)'))
            if problems:
                for sub, msg in problems:
                    rule = 'C10.R4' if sub.startswith('date') else 'C10.R1'
                    run.bad(rule, construct, sub, msg, loc=loc)
            else:
                rule = 'C10.R4' if (ka in ('date', 'datetime') and kb in ('date', 'datetime')) else 'C10.R1'
                run.ok(rule, construct, f'compares {l!r} with {r!r}', loc=loc)
    return reach


IMAGES: dict = {}
PRELUDE: dict = {}


def _normaliser_hook(ev, args):
    """float(f'{x:.15g}'): a float is rounded to 15 significant digits (not exact any more), other numbers become exact floats"""
    from dataclasses import replace as _replace
    v = args[0]
    if v.kind == 'float':
        return _replace(v, prec='rounded to 15 digits')
    if v.kind in ('int', 'bool', 'blank'):
        return AV('float', sign='zero' if v.kind == 'blank' else v.sign, frac=False, prec=v.prec, origin=v.origin)
    raise Unknown('normaliser applied to a non-number')


def by_operator_table(fn: ast.FunctionDef):
    """operator string -> (python comparison op type, left name, right name) ; default behaviour"""
    params = [a.arg for a in fn.args.args if a.arg != 'self']
    if len(params) != 3:
        raise AnalysisError('C10.R2', '_by_operator has an unexpected signature')
    opn, ln, rn = params
    table = {}
    default = None

    def image(e):
        """(operand name, name of the transformation applied to it or None): x, f(x), self.f(x), x.m()"""
        if isinstance(e, ast.Name):
            return e.id, None
        if isinstance(e, ast.Call) and len(e.args) == 1 and not e.keywords and isinstance(e.args[0], ast.Name):
            return e.args[0].id, ast.unparse(e.func)
        if isinstance(e, ast.Call) and not e.args and isinstance(e.func, ast.Attribute) and isinstance(e.func.value, ast.Name):
            return e.func.value.id, '.' + e.func.attr
        return None, None

    def ret_cmp(stmts):
        if len(stmts) == 1 and isinstance(stmts[0], ast.Return) and isinstance(stmts[0].value, ast.Compare) and \
                len(stmts[0].value.ops) == 1:
            c = stmts[0].value
            if isinstance(c.left, ast.Name) and isinstance(c.comparators[0], ast.Name):
                return (type(c.ops[0]), c.left.id, c.comparators[0].id)
            (l, lt), (r, rt_) = image(c.left), image(c.comparators[0])
            if l is not None and r is not None and lt == rt_:
                IMAGES[len(IMAGES)] = (type(c.ops[0]), lt)
                return (type(c.ops[0]), l, r)
        if len(stmts) == 1 and isinstance(stmts[0], ast.Return) and isinstance(stmts[0].value, ast.UnaryOp) and \
                isinstance(stmts[0].value.op, ast.Not) and isinstance(stmts[0].value.operand, ast.Compare):
            c = stmts[0].value.operand
            neg = {ast.Eq: ast.NotEq, ast.NotEq: ast.Eq, ast.Lt: ast.GtE, ast.GtE: ast.Lt, ast.Gt: ast.LtE, ast.LtE: ast.Gt}
            if len(c.ops) == 1 and isinstance(c.left, ast.Name) and isinstance(c.comparators[0], ast.Name):
                return (neg[type(c.ops[0])], c.left.id, c.comparators[0].id)
        return None
    body = [s for s in fn.body if not (isinstance(s, ast.Expr) and isinstance(s.value, ast.Constant))]
    # statements in front of the dispatch on the operator (a prelude that may re-bind the operands) are evaluated by C10.R1
    def dispatches(st):
        if isinstance(st, ast.Match) and isinstance(st.subject, ast.Name) and st.subject.id == opn:
            return True
        return isinstance(st, ast.If) and isinstance(st.test, ast.Compare) and isinstance(st.test.left, ast.Name) and st.test.left.id == opn
    k = next((i for i, st in enumerate(body) if dispatches(st)), None)
    PRELUDE[id(fn)] = body[:k] if k else []
    if k:
        body = body[k:]
    if len(body) == 1 and isinstance(body[0], ast.Match) and isinstance(body[0].subject, ast.Name) and body[0].subject.id == opn:
        for case in body[0].cases:
            pats = case.pattern.patterns if isinstance(case.pattern, ast.MatchOr) else [case.pattern]
            for p in pats:
                if isinstance(p, ast.MatchValue) and isinstance(p.value, ast.Constant) and case.guard is None:
                    rc = ret_cmp(case.body)
                    if rc is None:
                        raise AnalysisError('C10.R2', f'case {p.value.value!r} of _by_operator is not a single comparison')
                    table[p.value.value] = rc
                elif isinstance(p, ast.MatchAs) and p.pattern is None:
                    default = case.body
                else:
                    raise AnalysisError('C10.R2', 'unmodelled case pattern in _by_operator')
        return table, default, (opn, ln, rn)
    # if / elif chain
    cur = body
    while cur:
        st = cur[0]
        if isinstance(st, ast.If) and isinstance(st.test, ast.Compare) and len(st.test.ops) == 1 and \
                isinstance(st.test.ops[0], ast.Eq) and isinstance(st.test.left, ast.Name) and st.test.left.id == opn and \
                isinstance(st.test.comparators[0], ast.Constant):
            rc = ret_cmp(st.body)
            if rc is None:
                raise AnalysisError('C10.R2', 'branch of _by_operator is not a single comparison')
            table[st.test.comparators[0].value] = rc
            cur = st.orelse if st.orelse else cur[1:]
        else:
            default = cur
            break
    if table:
        return table, default, (opn, ln, rn)
    # dict of operator functions: {'>=': operator.ge, ...}[operator](left, right)
    for n in ast.walk(fn):
        if isinstance(n, ast.Dict) and n.keys and all(isinstance(k, ast.Constant) for k in n.keys):
            opmap = {'eq': ast.Eq, 'ne': ast.NotEq, 'lt': ast.Lt, 'le': ast.LtE, 'gt': ast.Gt, 'ge': ast.GtE}
            ok = True
            for k, v in zip(n.keys, n.values):
                nm = v.attr if isinstance(v, ast.Attribute) else v.id if isinstance(v, ast.Name) else None
                if nm in opmap:
                    table[k.value] = (opmap[nm], ln, rn)
                else:
                    ok = False
            if ok and table:
                return table, None, (opn, ln, rn)
    raise AnalysisError('C10.R2', '_by_operator is neither a match on the operator, an if-chain, nor an operator table')


def module_consts_of(cp) -> dict:
    """module-level `NAME = <dict / tuple / constant display>` of the module a runtime copy lives in"""
    out = {}
    for st in cp.module_tree.body:
        if isinstance(st, ast.Assign) and len(st.targets) == 1 and isinstance(st.targets[0], ast.Name) and \
                isinstance(st.value, (ast.Dict, ast.Tuple, ast.List, ast.Constant)):
            out[st.targets[0].id] = st.value
    return out


def r2_eval(run: Run, rt, emitted: dict):
    """the operator table decided by abstract evaluation (engine F) of _by_operator on three ordered pairs of numbers"""
    import operator as _op
    want = {'=': _op.eq, '<>': _op.ne, '<': _op.lt, '<=': _op.le, '>': _op.gt, '>=': _op.ge}
    for cp in rt.copies():
        fn = cp.members.get('_by_operator')
        if fn is None:
            continue
        for excel_op, py in sorted(emitted.items()):
            got = []
            for x, y in ((1, 2), (2, 2), (3, 2)):
                ev = evaluator_for(cp, hooks={'_normalize_float_number': _normaliser_hook}, max_depth=6)
                try:
                    res = ev.call_method('_by_operator', [const_av(py), const_av(x), const_av(y)])
                except Unknown as u:
                    raise AnalysisError('C10.R2', f'_by_operator[{cp.label}]: the abstraction cannot follow the operator table ({u})')
                except AbsRaise as r_:
                    got.append(f'raises {r_.exc}')
                    continue
                got.append(res.val)
            exp = [want[excel_op](x, y) for x, y in ((1, 2), (2, 2), (3, 2))]
            run.check(got == exp, 'C10.R2', f'_by_operator[{cp.label}]/{excel_op}',
                      'unhandled-operator' if any(isinstance(g_, str) for g_ in got) else 'wrong-comparison',
                      f'Excel {excel_op} (emitted as {py!r}) gives {got} for the pairs (1,2), (2,2), (3,2); it must give {exp}',
                      fact=f'{got}', loc=cp.loc(fn))


def r2(run: Run, src, rt):
    # operator strings the translator can emit: comparison classes of C01.R1
    from ..emission import get_emission
    from ..grammar import get_grammar
    from . import c01
    g = get_grammar(src)
    em = get_emission(src)
    forms = c01._forms(run, src, g, em)
    emitted = {}
    for (k, op), (sk, la, ra, e) in forms.items():
        if k == 'bin' and op in c01.LEVEL and c01.LEVEL[op] == 0 and sk.tree is not None:
            b = sk.tree.body
            if isinstance(b, ast.Call) and b.args and isinstance(b.args[0], ast.Constant):
                emitted[op] = b.args[0].value
    if len(emitted) < 6:
        raise AnalysisError('C10.R2', f'only {len(emitted)} comparison operators are emitted through _compare')
    want = {'=': ast.Eq, '<>': ast.NotEq, '<': ast.Lt, '<=': ast.LtE, '>': ast.Gt, '>=': ast.GtE}
    for cp in rt.copies():
        fn = cp.members.get('_by_operator')
        if fn is None:
            run.bad('C10.R2', f'_by_operator[{cp.label}]', 'missing', 'the operator table does not exist', loc=cp.path)
            continue
        IMAGES.clear()
        try:
            table, default, (opn, ln, rn) = by_operator_table(fn)
        except AnalysisError:
            # not written as a match / if-chain / dict of operator functions: decide the table by evaluation
            sub_rt = type('OneCopy', (), {'copies': staticmethod(lambda cp=cp: [cp])})
            r2_eval(run, sub_rt, emitted)
            continue
        # the six comparisons must look at the same image of their operands: if = and <> compare lower-cased texts while the
        # ordering operators compare the raw texts, "a" = "A" and "a" > "A" both hold and trichotomy is lost
        transformed = {t for _, t in IMAGES.values()}
        if transformed:
            n_plain = len(table) - len(IMAGES)
            if n_plain > 0 or len(transformed) > 1:
                ops = sorted(_sym(o) for o, _ in IMAGES.values())
                run.bad('C10.R2', '_by_operator/operand image', 'inconsistent-operand-image',
                        f'_by_operator compares {sorted(transformed)} of its operands for {ops} but the operands themselves (or another '
                        f'image) for the other operators: equality and ordering then disagree (two operands can be equal and one of them '
                        f'greater), so exactly-one-of <, =, > no longer holds', loc=cp.loc(fn))
            else:
                run.ok('C10.R2', f'_by_operator[{cp.label}]/operand image', f'all cases compare {sorted(transformed)} of both operands',
                       loc=cp.loc(fn))
        for excel_op, py in sorted(emitted.items()):
            construct = f'_by_operator[{cp.label}]/{excel_op}'
            if py not in table:
                run.bad('C10.R2', construct, 'unhandled-operator',
                        f'the translator emits {py!r} for Excel {excel_op} but _by_operator has no case for it', loc=cp.loc(fn))
                continue
            optype, l, r = table[py]
            ok = optype is want[excel_op] and (l, r) == (ln, rn)
            # a swapped operand order with the mirrored operator is the same comparison
            mirror = {ast.Lt: ast.Gt, ast.Gt: ast.Lt, ast.LtE: ast.GtE, ast.GtE: ast.LtE, ast.Eq: ast.Eq, ast.NotEq: ast.NotEq}
            if (l, r) == (rn, ln) and mirror[optype] is want[excel_op]:
                ok = True
            run.check(ok, 'C10.R2', construct, 'wrong-comparison',
                      f'Excel {excel_op} (emitted as {py!r}) is evaluated as `{l} {_sym(optype)} {r}`', fact=f'{l} {_sym(optype)} {r}',
                      loc=cp.loc(fn))


def _sym(t):
    return {ast.Eq: '==', ast.NotEq: '!=', ast.Lt: '<', ast.LtE: '<=', ast.Gt: '>', ast.GtE: '>='}[t]


OTHERS = {
    'empty text': AV('str', text='empty', val=''),
    'non-empty text': AV('str', text='other'),
    'date-time': AV('datetime'),
    'None': AV('none'),
    'blank': AV('blank', sign='zero'),
    'empty list': AV('list', items=()),
    'non-empty list': AV('list', items=(AV('int', sign='pos'),)),
}
DUNDER = {'==': '__eq__', '!=': '__ne__', '<': '__lt__', '<=': '__le__', '>': '__gt__', '>=': '__ge__'}
REFLECT = {'==': '==', '!=': '!=', '<': '>', '<=': '>=', '>': '<', '>=': '<='}


def _blank_cmp(ev: Evaluator, cp, op: str, a: AV, b: AV):
    """Python semantics of `a op b` where at least one operand is the blank object and the other is not a number"""
    members = cp.members

    def method(name):
        if ('EmptyCell.' + name) in members:
            return 'EmptyCell.' + name
        return None     # inherited from int

    def call(recv, name, other):
        m = method(name)
        if m is None:
            # int's rich comparison with a non-number: NotImplemented ; with another blank (an int 0): numeric
            if other.kind == 'blank':
                return {'__eq__': True, '__ne__': False, '__lt__': False, '__le__': True, '__gt__': False, '__ge__': True}[name]
            return NotImplemented
        return truth(ev.call_method(m, [other], recv))
    if a.kind == 'blank':
        r = call(a, DUNDER[op], b)
        if r is NotImplemented:
            if b.kind == 'blank':
                r = call(b, DUNDER[REFLECT[op]], a)
            if r is NotImplemented:
                if op in ('==', '!='):
                    return op == '!='          # identity fallback: different objects
                raise AbsRaise('TypeError', f'{op} not supported')
        return r
    # other op blank: str/date/None/list return NotImplemented for a foreign operand -> reflected method of the blank
    r = call(b, DUNDER[REFLECT[op]], a)
    if r is NotImplemented:
        if op in ('==', '!='):
            return op == '!='
        raise AbsRaise('TypeError', f'{op} not supported')
    return r


def r3(run: Run, rt, reach):
    for cp in rt.copies():
        ec = cp.nested.get('EmptyCell')
        if ec is None:
            run.bad('C10.R3', f'EmptyCell[{cp.label}]', 'missing', 'the blank-cell class does not exist', loc=cp.path)
            continue
        loc = cp.loc(ec)
        for name, other in OTHERS.items():
            ev = Evaluator(cp.members)
            res = {}
            try:
                for op in OPS:
                    res[('b', op)] = _blank_cmp(ev, cp, op, OTHERS['blank'], other)
                    res[('o', op)] = _blank_cmp(ev, cp, op, other, OTHERS['blank'])
            except Unknown as u:
                raise AnalysisError('C10.R3', f'EmptyCell[{cp.label}] vs {name}: the abstraction cannot decide ({u})')
            except AbsRaise as r:
                run.bad('C10.R3', f'EmptyCell[{cp.label}] vs {name}', f'raises:{r.exc}',
                        f'comparing a blank cell with {name} raises {r.exc}', loc=loc)
                continue
            b = {op: res[('b', op)] for op in OPS}
            o = {op: res[('o', op)] for op in OPS}
            laws = [
                ('trichotomy', [b['<'], b['=='], b['>']].count(True) == 1,
                 f'blank vs {name}: < is {b["<"]}, = is {b["=="]}, > is {b[">"]} (exactly one must hold)'),
                ('ne-is-not-eq', b['!='] == (not b['==']), f'blank vs {name}: = is {b["=="]} and <> is {b["!="]}'),
                ('le-is-not-gt', b['<='] == (not b['>']), f'blank vs {name}: <= is {b["<="]} and > is {b[">"]}'),
                ('ge-is-not-lt', b['>='] == (not b['<']), f'blank vs {name}: >= is {b[">="]} and < is {b["<"]}'),
                ('converse-lt', b['<'] == o['>'], f'blank < {name} is {b["<"]} but {name} > blank is {o[">"]}'),
                ('converse-gt', b['>'] == o['<'], f'blank > {name} is {b[">"]} but {name} < blank is {o["<"]}'),
                ('symmetric-eq', b['=='] == o['=='], f'blank = {name} is {b["=="]} but {name} = blank is {o["=="]}'),
                ('symmetric-ne', b['!='] == o['!='], f'blank <> {name} is {b["!="]} but {name} <> blank is {o["!="]}'),
            ]
            facts = {
                'empty text': ('blank-equals-empty-text', b['=='] is True, 'a blank cell must equal the empty text'),
                'non-empty text': ('blank-below-text', b['<'] is True, 'a blank cell must be smaller than every non-empty text'),
                'date-time': ('blank-below-date', b['<'] is True, 'a blank cell must be smaller than every date'),
                'blank': ('blank-equals-blank', b['=='] is True, 'two blank cells must be equal'),
            }
            if name in facts:
                laws.append(facts[name])
            scope = name in ('empty text', 'non-empty text', 'date-time', 'blank')
            for sub, ok, msg in laws:
                construct = f'EmptyCell[{cp.label}] vs {name}/{sub}'
                if ok:
                    run.ok('C10.R3', construct, 'holds', loc=loc)
                elif scope:
                    run.bad('C10.R3', f'EmptyCell[{cp.label}] vs {name}', sub, msg, loc=loc)
                else:
                    run.note(f'C10.R3 {construct}: fails ({msg}) but {name} is outside the operand kinds of the property')
        # numbers never reach these methods: stated from R1's rung analysis
        if cp.label == 'template':
            for kb in ('int', 'float-frac', 'float-whole', 'bool'):
                for pair in (('blank', kb), (kb, 'blank')):
                    got = reach.get(pair)
                    if got is None:
                        continue
                    l, r = got
                    ok = l.kind != 'blank' and r.kind != 'blank'
                    run.check(ok, 'C10.R3', f'rung({pair[0]},{pair[1]})', 'blank-reaches-number-comparison',
                              f'a blank operand reaches the comparison with a number un-coerced ({l!r} vs {r!r}): the blank '
                              f'object\'s ordering methods are not lawful against negative numbers',
                              fact=f'coerced to {l!r} vs {r!r}', loc=loc)


PROBE_PAIRS = [
    (1, 2), (2, 1), (2, 2), (1.5, 1.25), (2, 2.0), (-1, 0), (0, 0.0), (10 ** 16 + 1, 10 ** 16), (10 ** 16 + 1, 10 ** 16 + 1), (0.1, 0.25),
    (-2.5, -2), (3, 2.999), (7, -7),
    ('_id', 'name'), ('[x', 'a'), ('^', 'z'), ('`a', 'b'), ('abc', 'abd'), ('abc', 'abc'), ('a', 'b'), ('', 'a'), ('ab', 'abc'), ('b', 'ab'),
    ('name', '_id'), ('zeta', 'alpha'), ('x y', 'x z'), ('a-b', 'a_b'), ('mm', 'mm'), ('', ''),
]
OPS = {'==': lambda a, b: a == b, '!=': lambda a, b: a != b, '<': lambda a, b: a < b, '<=': lambda a, b: a <= b,
       '>': lambda a, b: a > b, '>=': lambda a, b: a >= b}


def r9_concrete_operands(run: Run, rt, rule='C10.R9'):
    """the comparison helper evaluated (engine F) on concrete operands whose lawful order is beyond doubt: numbers compare by
    value without loss (integers beyond 2**53 too), lower-case texts and texts that begin with a symbol compare character by
    character -- folding the case must not move a letter across the symbols [ \\ ] ^ _ ` --, equal operands are equal"""
    from ..finite import evaluator_for, AbsRaise
    for cp in rt.copies():
        fn = cp.members.get('_compare')
        if fn is None:
            run.bad(rule, f'_compare[{cp.label}]', 'missing', 'the comparison helper does not exist', loc=cp.path)
            continue
        for a, b in PROBE_PAIRS:
            wrong = []
            for op, f in OPS.items():
                ev = evaluator_for(cp, max_depth=6)
                try:
                    res = ev.call_method('_compare', [const_av(op), const_av(a), const_av(b)])
                    got = res.val if isinstance(res.val, bool) else repr(res)
                except Unknown as u:
                    raise AnalysisError(rule, f'_compare[{cp.label}]({a!r} {op} {b!r}): the abstraction cannot follow the helper ({u})')
                except AbsRaise as e:
                    got = f'raises {e.exc}'
                if got != f(a, b):
                    wrong.append((op, got, f(a, b)))
            run.check(not wrong, rule, f'_compare[{cp.label}]/{a!r} vs {b!r}', 'concrete-comparison',
                      'the comparison helper gives ' + '; '.join(f'{a!r} {op} {b!r} -> {g!r} (lawful: {w!r})' for op, g, w in wrong[:4]),
                      fact='all six operators lawful', loc=cp.loc(fn))


def run(run: Run):
    from .common import cached_guard as _cached_guard
    src = get_source()
    rt = get_runtime(src)
    run.rule('C10.R9', 'concrete operands: numbers by value without loss, texts character by character, equal is equal')
    _cached_guard(run, 'C10.R9', r9_concrete_operands, rt)
    run.floor('C10.R9', 40)
    from . import c04 as _c04
    from .common import borrow as _borrow
    run.rule('C10.R8', 'an operand supplied as an override reaches the comparison as supplied, falsy values included (shared with C04.R2)')
    _borrow(run, 'C10.R8', _c04.r2_eval, rt)
    run.floor('C10.R8', 10)
    from . import lexer_eval as _lx
    from ..grammar import get_grammar as _gg
    run.rule('C10.R7', 'a number literal operand reaches the comparison as the number it denotes (shared with C05.R3)')
    _cached_guard(run, 'C10.R7', _lx.number_literal_obligations, 'C10.R7', src, _gg(src))
    run.floor('C10.R7', 10)
    run.rule('C10.R1', 'no lossy coercion / operand mix-up before _by_operator over all operand-kind pairs')
    run.rule('C10.R2', '_by_operator maps every emitted operator string to the same-meaning comparison')
    run.rule('C10.R3', 'blank-cell comparison laws over the classes that reach them')
    run.rule('C10.R4', 'dates are compared as date-times at midnight')
    reach = run.guard('C10.R1', r1_r4, run, rt) or {}
    _cached_guard(run, 'C10.R2', r2, src, rt)
    _cached_guard(run, 'C10.R3', r3, rt, reach)
    run.floor('C10.R1', 200)
    run.floor('C10.R2', 12)
    run.floor('C10.R3', 60)
    run.floor('C10.R4', 8)
    from .common import shared_mechanisms as _shared
    _shared(run, 'C10', 10, ['stored-values', 'overrides'])
    from .common import shared_mechanisms as _shared_f
    _shared_f(run, 'C10', 12, ['formulas'])
    return INFO
