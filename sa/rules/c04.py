"""C04 -- overrides mean edit-the-cell-and-recalculate; the last write wins (DESIGN 3/C04)."""
from __future__ import annotations

import ast

from ..core import Run, AnalysisError, loc_of
from ..source import get_source
from ..runtime import get_runtime
from ..paths import parent_map, path_conditions, normal_exits_pass
from ..roles import RoleChecker, CellR, Sizes, cell_field_order

INFO = {
    'explanation': (
        'R1 the override store is keyed and ordered: from Executor.set_cells to set_arguments every container is either a dict keyed '
        'by uid in which later writes replace earlier ones (new last in every merge) or a sequence in arrival order -- no set '
        '(hash order) on the way; the merge and the dirty flag are reached on every path through set_cells (no batch is skipped); '
        'the flush hands over every stored override. R2 the formula runs only on an override miss: in _cell_preprocessor (both '
        'copies) the call of the generated member is control-dependent on the uid being absent from the override map (an eagerly '
        'evaluated dict.get default is the anti-pattern). R3 any address can be overridden: set_cells makes no membership test '
        'against translated cells or sizes before storing (sizes only grow, by max with the 1-based coordinate), and the lookup '
        'falls back to the blank object when no member exists. Not decided: equality with a fresh translation of the edited workbook.'),
    'rule': 'one obligation per container / merge / path / copy',
    'trusted': ['dict literal with ** unpacking keeps the last value for a repeated key'],
}


def _merge_order(value, old_text):
    """for {**a, **b}: ('old-then-new' | 'new-then-old' | None)"""
    if isinstance(value, ast.Dict) and len(value.keys) == 2 and value.keys[0] is None and value.keys[1] is None:
        a, b = ast.unparse(value.values[0]), ast.unparse(value.values[1])
        if a == old_text and b != old_text:
            return 'old-then-new', value.values[1]
        if b == old_text and a != old_text:
            return 'new-then-old', value.values[0]
    if isinstance(value, ast.BinOp) and isinstance(value.op, ast.BitOr):
        a, b = ast.unparse(value.left), ast.unparse(value.right)
        if a == old_text:
            return 'old-then-new', value.right
        if b == old_text:
            return 'new-then-old', value.left
    return None, None


def _r1_executor_structural(run: Run, src):
    ex = src.cls('Executor')
    init = ex.methods.get('__init__')
    sc = ex.methods.get('set_cells')
    if sc is not None:
        from .common import inlined_function
        sc = inlined_function(src, 'Executor.set_cells')       # helpers such as a size-bookkeeping method are analysed in place
    fl = ex.methods.get('_set_cells_to_executed_instance')
    if not (init and sc and fl):
        raise AnalysisError('C04.R1', 'Executor.__init__/set_cells/_set_cells_to_executed_instance not found')
    # which attribute holds the overrides: the one whose content is handed to set_arguments
    sa_calls = [n for n in ast.walk(fl.node) if isinstance(n, ast.Call) and isinstance(n.func, ast.Attribute) and n.func.attr == 'set_arguments']
    if len(sa_calls) != 1:
        raise AnalysisError('C04.R1', 'the flush does not call set_arguments exactly once')
    arg = sa_calls[0].args[0] if sa_calls[0].args else None
    attrs = {n.attr for n in ast.walk(arg) if isinstance(n, ast.Attribute) and isinstance(n.value, ast.Name) and n.value.id == 'self'} \
        if arg is not None else set()
    if len(attrs) != 1:
        raise AnalysisError('C04.R1', f'the flush builds its argument from {sorted(attrs)}')
    store = next(iter(attrs))
    # initial container
    inits = [s for s in ast.walk(init.node) if isinstance(s, (ast.Assign, ast.AnnAssign)) and any(
        isinstance(t, ast.Attribute) and t.attr == store for t in (s.targets if isinstance(s, ast.Assign) else [s.target]))]
    if len(inits) != 1:
        raise AnalysisError('C04.R1', f'self.{store} is not initialised exactly once')
    iv = inits[0].value
    kind = 'dict' if isinstance(iv, ast.Dict) or (isinstance(iv, ast.Call) and getattr(iv.func, 'id', '') in ('dict', 'OrderedDict')) else \
        'list' if isinstance(iv, ast.List) or (isinstance(iv, ast.Call) and getattr(iv.func, 'id', '') == 'list') else \
        'set' if isinstance(iv, ast.Set) or (isinstance(iv, ast.Call) and getattr(iv.func, 'id', '') in ('set', 'frozenset')) else 'other'
    run.check(kind in ('dict', 'list'), 'C04.R1', f'Executor.{store}/container', f'container:{kind}',
              f'overrides are kept in a {kind} (`{ast.unparse(iv)[:30]}`): with a set, two writes to one cell survive side by side and '
              f'the one that wins depends on hash order', fact=f'{kind}', loc=loc_of(init.module.path, inits[0]))
    # the update in set_cells
    cells_param = sc.params[1] if len(sc.params) > 1 else None
    updates = [s for s in ast.walk(sc.node) if isinstance(s, ast.Assign) and any(
        isinstance(t, ast.Attribute) and t.attr == store for t in s.targets)]
    mut = [n for n in ast.walk(sc.node) if isinstance(n, ast.Call) and isinstance(n.func, ast.Attribute) and
           n.func.attr in ('update', 'extend', 'append', 'add') and ast.unparse(n.func.value) == f'self.{store}']
    sub = [s for s in ast.walk(sc.node) if isinstance(s, ast.Assign) and isinstance(s.targets[0], ast.Subscript) and
           ast.unparse(s.targets[0].value) == f'self.{store}']
    loc = loc_of(sc.module.path, sc.node)
    if len(updates) + len(mut) + len(sub) != 1:
        raise AnalysisError('C04.R1', f'set_cells updates self.{store} in {len(updates) + len(mut) + len(sub)} places')
    if updates:
        u = updates[0]
        v = u.value
        if isinstance(v, (ast.Set, ast.SetComp)) or (isinstance(v, ast.Call) and getattr(v.func, 'id', '') in ('set', 'frozenset')):
            run.bad('C04.R1', f'Executor.set_cells/{store}', 'container:set',
                    f'`{ast.unparse(u)[:70]}` rebuilds the override store as a set', loc=loc_of(sc.module.path, u))
        else:
            order, new = _merge_order(v, f'self.{store}')
            run.check(order == 'old-then-new', 'C04.R1', f'Executor.set_cells/merge-order', f'merge:{order}',
                      f'`{ast.unparse(u)[:80]}`: the new batch must come last in the merge so that it replaces earlier writes to the '
                      f'same cell', fact='{**old, **new}', loc=loc_of(sc.module.path, u))
            if new is not None:
                keyed = isinstance(new, ast.DictComp) and ast.unparse(new.key).endswith('.uid') and \
                    ast.unparse(new.generators[0].iter) == cells_param and not new.generators[0].ifs
                run.check(keyed, 'C04.R1', 'Executor.set_cells/key', 'store-key',
                          f'the new batch is `{ast.unparse(new)[:70]}`; it must hold every cell of the batch keyed by its uid (in arrival '
                          f'order, unfiltered)', fact='{cell.uid: cell for cell in cells}', loc=loc_of(sc.module.path, u))
        upd_stmt = u
    elif mut:
        upd_stmt = mut[0]
        run.ok('C04.R1', 'Executor.set_cells/merge-order', f'in-place {mut[0].func.attr}: later writes replace / follow earlier ones',
               loc=loc_of(sc.module.path, mut[0]))
    else:
        upd_stmt = sub[0]
        run.check(ast.unparse(sub[0].targets[0].slice).endswith('.uid'), 'C04.R1', 'Executor.set_cells/key', 'store-key',
                  'the store is not keyed by the cell uid', fact='store[cell.uid] = cell', loc=loc_of(sc.module.path, sub[0]))
    # reached on every path; the flag too
    def is_update(st):
        return st is upd_stmt or any(n is upd_stmt for n in ast.walk(st))

    def is_flag(st):
        return isinstance(st, ast.Assign) and isinstance(st.value, ast.Constant) and st.value.value is True and \
            any(isinstance(t, ast.Attribute) and 'changed' in t.attr for t in st.targets)
    parents = parent_map(sc.node)
    conds_u = [ast.unparse(t) for t, pol in path_conditions(sc.node, upd_stmt if isinstance(upd_stmt, ast.AST) else sc.node, parents)]
    in_loop_ok = not conds_u
    # a store per cell inside `for cell in <batch>` (unconditional in the loop body) stores the whole batch, in arrival order
    per_cell_loop = False
    q = parents.get(upd_stmt) if isinstance(upd_stmt, ast.AST) else None
    while q is not None and not isinstance(q, ast.stmt):
        q = parents.get(q)
    if isinstance(q, ast.For) and ast.unparse(q.iter) == cells_param and q in sc.node.body and not q.orelse and \
            not any(isinstance(n, (ast.Break, ast.Continue, ast.Return)) for n in ast.walk(q)) and (upd_stmt in q.body or any(
                upd_stmt is getattr(st, 'value', None) for st in q.body)):
        per_cell_loop = True
    run.check((normal_exits_pass(sc.node.body, is_update) or per_cell_loop) and in_loop_ok, 'C04.R1', 'Executor.set_cells/unconditional-store',
              'store-skipped', f'the override store is not updated on every path through set_cells (conditions: {conds_u}): some '
              f'batches (e.g. a value equal to the stored one under ==, such as 1 and TRUE) are dropped',
              fact='every batch is merged', loc=loc)
    flags = [s for s in ast.walk(sc.node) if is_flag(s)]
    conds_f = [ast.unparse(t) for s in flags for t, pol in path_conditions(sc.node, s, parents)]
    run.check(normal_exits_pass(sc.node.body, is_flag) and not conds_f, 'C04.R1', 'Executor.set_cells/unconditional-flag',
              'flag-skipped', f'the dirty flag is not raised on every path through set_cells (conditions: {conds_f}): the instance '
              f'keeps evaluating with stale overrides', fact='flag raised for every batch', loc=loc)
    # the flush hands over everything in store order
    a = ast.unparse(arg)
    ok = isinstance(arg, ast.ListComp) and not arg.generators[0].ifs and 'to_dict()' in a and \
        (a.endswith(f'self.{store}.values()]') or a.endswith(f'self.{store}]'))
    run.check(ok, 'C04.R1', 'Executor._set_cells_to_executed_instance/argument', 'flush',
              f'the flush passes `{a[:80]}`; it must pass every stored override, in store order', fact='[cell.to_dict() for cell in store]',
              loc=loc_of(fl.module.path, fl.node))
    # get_cell flushes before evaluating
    gc = ex.methods.get('get_cell')
    body = [s for s in gc.node.body if not (isinstance(s, ast.Expr) and isinstance(s.value, ast.Constant))]
    ok = body and isinstance(body[0], ast.If) and 'changed' in ast.unparse(body[0].test) and \
        '_set_cells_to_executed_instance' in ast.unparse(body[0].body[0])
    run.check(bool(ok), 'C04.R1', 'Executor.get_cell/flush-first', 'no-flush', 'get_cell does not flush pending overrides before '
              'evaluating', fact='if changed: flush', loc=loc_of(gc.module.path, gc.node))
    # Cell.to_dict carries uid and value
    td = src.cls('Cell').methods.get('to_dict')
    t = ast.unparse(td.node) if td else ''
    run.check("'uid': self.uid" in t and "'value': self.value" in t, 'C04.R1', 'Cell.to_dict', 'to-dict', 'to_dict does not carry uid '
              'and value', fact='uid, value', loc=loc_of(td.module.path, td.node) if td else '')


def _r1_set_arguments_structural(run: Run, rt):
    # set_arguments merge in both runtime copies
    for cp in rt.copies():
        fn = cp.members.get('set_arguments')
        if fn is None:
            run.bad('C04.R1', f'set_arguments[{cp.label}]', 'missing', 'set_arguments missing', loc=cp.path)
            continue
        p = [a.arg for a in fn.args.args if a.arg != 'self'][0]
        layers = _argument_layers(fn, p)
        shown = ' then '.join(layers)
        run.check(layers == ['old', 'new'], 'C04.R1', f'set_arguments[{cp.label}]/merge-order', f'merge:{"-".join(layers)}',
                  f'after set_arguments the override map is built from [{shown}]: it must be the previous map with the new arguments '
                  f'(every one of them, keyed by its uid) laid over it, so that a new write replaces an older one', fact='old then new',
                  loc=cp.loc(fn))


def r1_set_arguments_eval(run: Run, rt):
    """the merge of a batch into the override map, decided by abstract evaluation (engine F) of set_arguments: the previous map
    with every new argument laid over it, keyed by uid, the last write to one uid winning, whatever the values are"""
    from ..finite import evaluator_for, AV, const_av, Unknown, AbsRaise

    def d(pairs):
        return AV('dict', items=tuple(AV('tuple', items=(const_av(k), v if isinstance(v, AV) else const_av(v))) for k, v in pairs))
    cases = [
        ('new-over-old', [('a', 1), ('b', 2)], [('b', 20), ('c', 3)], {'a': 1, 'b': 20, 'c': 3}),
        ('last-write-in-a-batch', [('a', 1)], [('c', 3), ('a', 5), ('c', 4)], {'a': 5, 'c': 4}),
        ('falsy-values', [('a', 1), ('b', 2), ('e', 9)], [('a', None), ('b', 0), ('c', ''), ('d', False)],
         {'a': None, 'b': 0, 'c': '', 'd': False, 'e': 9}),
        ('empty-batch', [('a', 1)], [], {'a': 1}),
        ('first-batch', [], [('a', 0)], {'a': 0}),
        ('equal-under-==', [('a', 1)], [('a', True)], {'a': True}),
    ]
    for cp in rt.copies():
        fn = cp.members.get('set_arguments')
        if fn is None:
            run.bad('C04.R1', f'set_arguments[{cp.label}]', 'missing', 'set_arguments missing', loc=cp.path)
            continue
        for name, old, batch, want in cases:
            ev = evaluator_for(cp, max_depth=6)
            me = ev.new_obj('ExcelInPython', {'_arguments': d(old)})
            arg = AV('list', items=tuple(d([('uid', u), ('title', 0), ('column', 0), ('row', 0), ('value', v)]) for u, v in batch))
            construct = f'set_arguments[{cp.label}]/{name}'
            try:
                ev.call_method('set_arguments', [arg], me)
            except Unknown as u:
                raise AnalysisError('C04.R1', f'{construct}: the abstraction cannot follow set_arguments ({u})')
            except AbsRaise as e:
                run.bad('C04.R1', construct, f'raises:{e.exc}', f'set_arguments raises {e.exc} for the batch {batch} over {old}', loc=cp.loc(fn))
                continue
            res = ev.unbox(ev.obj_attrs(me).get('_arguments', AV('none')))
            got = None
            if res.kind == 'dict' and res.items is not None:
                got = {kv.items[0].val: (None if kv.items[1].kind == 'none' else kv.items[1].val) for kv in res.items}
            same = got is not None and set(got) == set(want) and all(type(got[k]) is type(want[k]) and got[k] == want[k] for k in want)
            run.check(same, 'C04.R1', construct, 'merge',
                      f'after set_arguments with the batch {batch} over the map {dict(old)} the override map is {got}; it must be the '
                      f'previous map with the new arguments (every one of them, keyed by its uid) laid over it: {want}',
                      fact=f'-> {got}', loc=cp.loc(fn))


def r1(run: Run, src, rt):
    """decided by evaluation; the structural reading of the code is the fallback where the abstraction cannot follow"""
    from . import executor_eval
    try:
        executor_eval.evaluate_histories(run, 'C04.R1', src)
        run.extra['executor_by_evaluation'] = True
    except AnalysisError as e:
        run.notes.append(f'C04.R1: executor by structure ({e})')
        _r1_executor_structural(run, src)
    try:
        r1_set_arguments_eval(run, rt)
    except AnalysisError as e:
        run.notes.append(f'C04.R1: set_arguments by structure ({e})')
        _r1_set_arguments_structural(run, rt)


def _argument_layers(fn: ast.FunctionDef, param: str) -> list:
    """what self._arguments consists of after the call, as an ordered list of layers: 'old' = the previous map, 'new' = every
    item of the parameter keyed by item['uid'] with item['value'] (later layers win).  Straight-line code, dict displays with **,
    |, dict()/copy(), update(), comprehensions over the parameter and per-item stores in a loop over the parameter are followed;
    anything else is unmodelled (AnalysisError)."""
    env: dict = {}

    def is_new_comp(e):
        if not (isinstance(e, ast.DictComp) and len(e.generators) == 1 and not e.generators[0].ifs and
                ast.unparse(e.generators[0].iter) == param and isinstance(e.generators[0].target, ast.Name)):
            return False
        v = e.generators[0].target.id
        return ast.unparse(e.key) == f"{v}['uid']" and ast.unparse(e.value) == f"{v}['value']"

    def ev(e):
        txt = ast.unparse(e)
        if txt == 'self._arguments':
            return list(env.get('self._arguments', ['old']))
        if isinstance(e, ast.Name) and e.id in env:
            return list(env[e.id])
        if isinstance(e, ast.Dict):
            out = []
            for k, v in zip(e.keys, e.values):
                if k is not None:
                    raise AnalysisError('C04.R1', f'set_arguments: literal entries in `{txt[:50]}`')
                out += ev(v)
            return out
        if isinstance(e, ast.BinOp) and isinstance(e.op, ast.BitOr):
            return ev(e.left) + ev(e.right)
        if isinstance(e, ast.Call) and isinstance(e.func, ast.Name) and e.func.id == 'dict' and len(e.args) <= 1 and not e.keywords:
            return ev(e.args[0]) if e.args else []
        if isinstance(e, ast.Call) and isinstance(e.func, ast.Attribute) and e.func.attr == 'copy' and not e.args:
            return ev(e.func.value)
        if is_new_comp(e):
            return ['new']
        if isinstance(e, ast.DictComp):
            return ['filtered-or-rekeyed-new']
        raise AnalysisError('C04.R1', f'set_arguments: unmodelled expression `{txt[:60]}`')

    def store(target, layers):
        env[ast.unparse(target)] = layers

    # slice: only statements that (transitively) feed self._arguments matter here; what else set_arguments does (other state)
    # is judged by the purity / state rules
    def written(st):
        out = set()
        for n in ast.walk(st):
            if isinstance(n, (ast.Assign, ast.AnnAssign, ast.AugAssign)):
                for t in (n.targets if isinstance(n, ast.Assign) else [n.target]):
                    base = t
                    while isinstance(base, ast.Subscript):
                        base = base.value
                    out.add(ast.unparse(base))
            if isinstance(n, ast.Call) and isinstance(n.func, ast.Attribute) and n.func.attr in (
                    'update', 'pop', 'clear', 'setdefault', 'popitem', '__setitem__', '__delitem__'):
                out.add(ast.unparse(n.func.value))
            if isinstance(n, ast.Delete):
                for t in n.targets:
                    base = t
                    while isinstance(base, ast.Subscript):
                        base = base.value
                    out.add(ast.unparse(base))
        return out
    relevant = {'self._arguments'}
    for _ in range(4):
        for st in fn.body:
            if written(st) & relevant:
                for n in ast.walk(st):
                    if isinstance(n, ast.Name) and isinstance(n.ctx, ast.Load) and n.id not in ('self', param):
                        relevant.add(n.id)
    for st in fn.body:
        if isinstance(st, ast.Expr) and isinstance(st.value, ast.Constant):
            continue
        if not (written(st) & relevant):
            continue
        if isinstance(st, (ast.Assign, ast.AnnAssign)):
            if isinstance(st, ast.AnnAssign) and st.value is None:
                continue
            targets = st.targets if isinstance(st, ast.Assign) else [st.target]
            val = ev(st.value)
            for t in targets:
                store(t, val)
            continue
        if isinstance(st, ast.AugAssign) and isinstance(st.op, ast.BitOr):
            store(st.target, ev(st.target) + ev(st.value))
            continue
        if isinstance(st, ast.Expr) and isinstance(st.value, ast.Call) and isinstance(st.value.func, ast.Attribute) and \
                st.value.func.attr == 'update' and len(st.value.args) == 1:
            tgt = st.value.func.value
            store(tgt, ev(tgt) + ev(st.value.args[0]))
            continue
        if isinstance(st, ast.For) and ast.unparse(st.iter) == param and isinstance(st.target, ast.Name) and not st.orelse:
            v = st.target.id
            local = {}
            done = None
            for b in st.body:
                if isinstance(b, ast.Assign) and len(b.targets) == 1 and isinstance(b.targets[0], ast.Name):
                    local[b.targets[0].id] = ast.unparse(b.value)
                    continue
                if isinstance(b, ast.Assign) and len(b.targets) == 1 and isinstance(b.targets[0], ast.Subscript):
                    key = ast.unparse(b.targets[0].slice)
                    val = ast.unparse(b.value)
                    key = local.get(key, key)
                    val = local.get(val, val)
                    if key == f"{v}['uid']" and val == f"{v}['value']":
                        done = b.targets[0].value
                        continue
                raise AnalysisError('C04.R1', f'set_arguments: unmodelled loop body `{ast.unparse(b)[:60]}`')
            if done is None:
                raise AnalysisError('C04.R1', 'set_arguments: the loop over the arguments stores nothing')
            store(done, ev(done) + ['new'])
            continue
        if isinstance(st, (ast.Return, ast.Pass)):
            continue
        raise AnalysisError('C04.R1', f'set_arguments: unmodelled statement `{ast.unparse(st)[:60]}`')
    return env.get('self._arguments', ['old'])


def r7_no_value_specialisation(run: Run, src, em):
    """generated code may depend on a referenced cell only through the override-aware accessor: a translator that reads the
    stored value of a cell a reference denotes (to fold it, to choose an emission by it) bakes the workbook value in, and an
    override of that cell no longer reaches the formula"""
    seen = {}
    n = 0
    for e in em.emissions():
        if e.outcome.kind != 'return':
            continue
        n += 1
        for eff in e.outcome.effects:
            if eff.kind == 'cell-value-read':
                seen.setdefault((e.translator, eff.detail['where']), e)
    for (tr, where), e in sorted(seen.items()):
        ci = src.cls(tr)
        run.bad('C04.R7', f'{tr}/{where}', 'value-read-at-translation',
                f'{where} (reached from {tr}, world {e.world[:100]}) reads the stored value of a cell that a reference token denotes: '
                f'what is emitted then depends on the workbook value at translation time, and a later override of that cell does '
                f'not reach the formula', loc=loc_of(ci.module.path, ci.node))
    trs = sorted({e.translator for e in em.emissions()})
    for tr in trs:
        if not any(t == tr for (t, _) in seen):
            run.ok('C04.R7', tr, 'no stored value of a referenced cell is read', nontrivial=True)
    if n < 100:
        raise AnalysisError('C04.R7', f'only {n} emissions analysed')


def r2_eval(run: Run, rt):
    """C04.R2/R3 decided by abstract evaluation (engine F) of _cell_preprocessor: an override hit returns the stored value --
    whatever it is, 0 / FALSE / '' / None included -- and never runs the formula; a miss runs the generated member once; a cell
    with neither gives the blank.  Independent of how the lookup is written (in-test, try/except, get with a sentinel ...)."""
    from ..finite import evaluator_for, Evaluator, AV, const_av, Unknown, AbsRaise
    done = []
    for cp in rt.copies():
        fn = cp.members.get('_cell_preprocessor')
        if fn is None:
            continue
        U, W = AV('str', text='other', val='_0_0_0'), AV('str', text='other', val='_0_9_9')
        overrides = {'text': AV('str', text='other', val='OVR'), 'zero': const_av(0), 'FALSE': const_av(False), 'empty text': const_av(''),
                     'None': const_av(None), 'number': const_av(7.5)}
        scenarios = [('override hit: ' + k, v, True) for k, v in overrides.items()] + \
                    [('override of a cell without member: ' + k, v, False) for k, v in list(overrides.items())[:2]] + \
                    [('miss, formula cell', None, True), ('miss, no member', None, False)]
        for name, ov, has_member in scenarios:
            calls = []

            def member(args, calls=calls):
                calls.append(args)
                return AV('str', text='other', val='CALC')
            ev = evaluator_for(cp, hooks={'EmptyCell': lambda e, a: AV('blank', sign='zero')}, max_depth=6)
            args_map = AV('dict', items=((AV('tuple', items=(U, ov)),) if ov is not None else ()) +
                          (AV('tuple', items=(W, const_av(1))),))
            meth = AV('dict', items=(AV('tuple', items=(U, AV('func', val=('native', member)))),) if has_member else ())
            ev.text_attrs = {'self._arguments': args_map, 'self.__dict__': AV('dict', items=()), 'self.__class__.__dict__': meth,
                             'type(self).__dict__': meth}
            construct = f'_cell_preprocessor[{cp.label}]/{name}'
            try:
                res = ev.call_method('_cell_preprocessor', [U])
            except Unknown as u:
                raise AnalysisError('C04.R2', f'{construct}: the abstraction cannot follow the helper ({u})')
            except AbsRaise as r_:
                run.bad('C04.R2', construct, f'raises:{r_.exc}', f'_cell_preprocessor raises {r_.exc} ({name})', loc=cp.loc(fn))
                continue
            if ov is not None:
                same = res.kind == ov.kind and res.val == ov.val
                run.check(same and not calls, 'C04.R2', construct, 'override-not-returned' if not same else 'formula-not-guarded',
                          f'{name}: the overridden cell reports {res!r}' + (' and its original formula is still run' if calls else '') +
                          f'; it must report the stored override {ov!r} itself and must not run the formula', fact=f'-> {res!r}',
                          loc=cp.loc(fn))
            elif has_member:
                run.check(res.val == 'CALC' and len(calls) == 1, 'C04.R2', construct, 'formula-not-run',
                          f'{name}: the cell reports {res!r} after {len(calls)} call(s) of its member', fact='member called once',
                          loc=cp.loc(fn))
            else:
                run.check(res.kind == 'blank', 'C04.R3', construct, 'no-blank-fallback',
                          f'{name}: a cell without override and without member reports {res!r}, not the blank', fact='blank',
                          loc=cp.loc(fn))
        done.append(cp.label)
    return done


def r2(run: Run, rt):
    # decided by evaluation when the abstraction can follow the helper; the structural reading below is the fallback
    try:
        sub = Run('tmp', run.tier, run.seed, quiet=True)
        r2_eval(sub, rt)
        for o in sub.obligations:
            if o['verdict'] == 'holds':
                run.ok(o['rule'], o['construct'], o['fact'], loc=o['loc'])
        for f in sub.findings:
            run.bad(f['rule'], f['construct'], f['sub'], f['message'], loc=f['loc'])
        return
    except AnalysisError as e:
        run.note(f'C04.R2 evaluation skipped: {e.reason[:120]}')
    for cp in rt.copies():
        fn = cp.members.get('_cell_preprocessor')
        if fn is None:
            run.bad('C04.R2', f'_cell_preprocessor[{cp.label}]', 'missing', 'helper missing', loc=cp.path)
            continue
        uid = [a.arg for a in fn.args.args if a.arg != 'self'][0]
        # a local that merely names the override map (overrides = self._arguments) is read as the map itself
        import copy as _copy
        al = {}
        for st_ in ast.walk(fn):
            if isinstance(st_, ast.Assign) and len(st_.targets) == 1 and isinstance(st_.targets[0], ast.Name):
                al.setdefault(st_.targets[0].id, []).append(st_.value)
        al = {k: v[0] for k, v in al.items() if len(v) == 1 and ast.unparse(v[0]) == 'self._arguments'}
        if al:
            class _A(ast.NodeTransformer):
                def visit_Name(self, node):
                    if node.id in al and isinstance(node.ctx, ast.Load):
                        return ast.copy_location(_copy.deepcopy(al[node.id]), node)
                    return node
            fn = ast.fix_missing_locations(_A().visit(_copy.deepcopy(fn)))
        parents = parent_map(fn)
        # the call of the generated member: <something>(self) where <something> was looked up by the uid
        calls = [n for n in ast.walk(fn) if isinstance(n, ast.Call) and len(n.args) == 1 and isinstance(n.args[0], ast.Name) and
                 n.args[0].id == 'self' and isinstance(n.func, ast.Name)]
        if len(calls) != 1:
            raise AnalysisError('C04.R2', f'_cell_preprocessor[{cp.label}]: expected one call of the generated member, found {len(calls)}')
        call = calls[0]
        # anti-pattern: inside the arguments of dict.get
        p = parents.get(call)
        eager = False
        while p is not None and not isinstance(p, ast.stmt):
            if isinstance(p, ast.Call) and isinstance(p.func, ast.Attribute) and p.func.attr in ('get', 'setdefault', 'pop') and \
                    any(call is x or any(call is y for y in ast.walk(x)) for x in p.args[1:] + [k.value for k in p.keywords]):
                eager = True
            p = parents.get(p)
        conds = path_conditions(fn, call, parents)
        miss = any((f'{uid} in self._arguments' in ast.unparse(t) and pol is False) or
                   (f'{uid} not in self._arguments' in ast.unparse(t) and pol is True) for t, pol in conds)
        # try/except KeyError shape: the call sits in the handler
        in_handler = False
        q = parents.get(call)
        while q is not None:
            if isinstance(q, ast.ExceptHandler) and q.type is not None and 'KeyError' in ast.unparse(q.type):
                in_handler = True
            q = parents.get(q)
        # try: return self._arguments[uid] / except KeyError: pass  ...  <call>: the call is reached only through the handler
        from ..paths import executed_before
        from ..runtime import may_complete_normally
        for st in executed_before(fn, call, parents):
            if isinstance(st, ast.Try) and not may_complete_normally(st.body) and not st.orelse and \
                    f'self._arguments[{uid}]' in ast.unparse(ast.Module(body=st.body, type_ignores=[])) and st.handlers and \
                    all(h.type is not None and 'KeyError' in ast.unparse(h.type) for h in st.handlers):
                in_handler = True
        run.check((miss or in_handler) and not eager, 'C04.R2', f'_cell_preprocessor[{cp.label}]/formula-call',
                  'formula-evaluated-eagerly' if eager else 'formula-not-guarded',
                  f'the generated member is called {"as an eagerly evaluated default of dict.get" if eager else "on paths where the cell is overridden"}: '
                  f'an overridden formula cell still runs its original formula (its errors and cost included)',
                  fact='called only when the uid has no override', loc=cp.loc(call))
        # an override hit returns the stored value
        rets = [n for n in ast.walk(fn) if isinstance(n, ast.Return)]
        hit = [r for r in rets if ast.unparse(r.value) in (f'self._arguments[{uid}]', f'self._arguments.get({uid})')]
        if not eager:
            run.check(bool(hit), 'C04.R2', f'_cell_preprocessor[{cp.label}]/override-hit', 'override-not-returned',
                      'no path returns the stored override value', fact='returns self._arguments[uid]', loc=cp.loc(fn))
        # every value that is not the stored override is returned only on an override miss: a return that is reached without
        # the override map having been consulted ignores overrides for the cells that take that path
        def under_miss(node):
            cs = path_conditions(fn, node, parents)
            if any((f'{uid} in self._arguments' in ast.unparse(t) and pol is False) or
                   (f'{uid} not in self._arguments' in ast.unparse(t) and pol is True) for t, pol in cs):
                return True
            q = parents.get(node)
            while q is not None:
                if isinstance(q, ast.ExceptHandler) and q.type is not None and 'KeyError' in ast.unparse(q.type):
                    return True
                q = parents.get(q)
            for st in executed_before(fn, node, parents):
                if isinstance(st, ast.Try) and not may_complete_normally(st.body) and not st.orelse and \
                        f'self._arguments[{uid}]' in ast.unparse(ast.Module(body=st.body, type_ignores=[])) and st.handlers and \
                        all(h.type is not None and 'KeyError' in ast.unparse(h.type) for h in st.handlers):
                    return True
            return False
        if not eager:
            for r in rets:
                if r in hit or r.value is None:
                    continue
                run.check(under_miss(r), 'C04.R3', f'_cell_preprocessor[{cp.label}]/return `{ast.unparse(r.value)[:40]}`',
                          'override-not-consulted',
                          f'`return {ast.unparse(r.value)[:60]}` is reached without the override map having been consulted: an override '
                          f'for a cell that takes this path (e.g. an address without a translated member) is ignored',
                          fact='returned only when the uid has no override', loc=cp.loc(r))
        # no member -> blank
        txt = ast.unparse(fn)
        run.check('self.EmptyCell()' in txt, 'C04.R3', f'_cell_preprocessor[{cp.label}]/blank-fallback', 'no-blank-fallback',
                  'a cell without override and without generated member does not evaluate to the blank object', fact='EmptyCell()',
                  loc=cp.loc(fn))


def r3(run: Run, src):
    ex = src.cls('Executor')
    from .common import inlined_function
    sc = inlined_function(src, 'Executor.set_cells')
    fields = cell_field_order(src)
    # no membership / bounds test that rejects or skips cells
    bad = []
    for n in ast.walk(sc.node):
        if isinstance(n, (ast.Continue, ast.Raise, ast.Break)):
            bad.append(n)
        if isinstance(n, ast.If):
            bad.append(n)
        if isinstance(n, (ast.ListComp, ast.DictComp, ast.GeneratorExp)) and any(g.ifs for g in n.generators):
            bad.append(n)
    run.check(not bad, 'C04.R3', 'Executor.set_cells/no-filter', 'override-filtered',
              f'set_cells contains `{ast.unparse(bad[0])[:60] if bad else ""}`: overrides must be accepted for any address (blank cells, '
              f'cells beyond the used range, formula cells)', fact='no test before storing', loc=loc_of(sc.module.path, bad[0] if bad else sc.node))
    # every cell is normalised, sizes only grow with the 1-based coordinate
    p = sc.params[1]
    rc = RoleChecker(sc.node, {p: None}, fields, self_attrs={'self._sheets_size': Sizes(0)}, qual=sc.qualname)
    loops = [n for n in sc.node.body if isinstance(n, ast.For) and ast.unparse(n.iter) == p]
    # the loop that normalises the cells and grows the sizes (a further loop may store them)
    loops = [l for l in loops if 'handle_cell' in ast.unparse(l) or 'last_row' in ast.unparse(l)] or loops
    if len(loops) != 1:
        raise AnalysisError('C04.R3', 'set_cells does not loop once over its cells')
    lv = loops[0].target.id
    hc = [n for n in loops[0].body if isinstance(n, ast.Expr) and isinstance(n.value, ast.Call) and
          getattr(n.value.func, 'id', '') == 'handle_cell' and ast.unparse(n.value.args[0]) == lv and
          len(n.value.args) > 1 and ast.unparse(n.value.args[1]) == 'self._titles']
    run.check(len(hc) == 1 and loops[0].body[0] is hc[0], 'C04.R3', 'Executor.set_cells/normalise', 'not-normalised',
              'cells are not passed through handle_cell(cell, self._titles) first', fact='handle_cell first',
              loc=loc_of(sc.module.path, loops[0]))
    rc.env[lv] = CellR('0')
    rc.block(loops[0].body[1:] if hc else loops[0].body)
    for c in rc.clashes:
        run.bad('C04.R3', 'Executor.set_cells/sizes', c.kind, c.msg, loc=loc_of(sc.module.path, c.node))
    grows = [n for n in ast.walk(loops[0]) if isinstance(n, ast.Assign) and isinstance(n.targets[0], ast.Subscript) and
             isinstance(n.targets[0].slice, ast.Constant) and n.targets[0].slice.value in ('last_row', 'last_column')]
    ok = len(grows) == 2 and all(isinstance(gw.value, ast.Call) and getattr(gw.value.func, 'id', '') == 'max' for gw in grows)
    run.check(ok and not rc.clashes, 'C04.R3', 'Executor.set_cells/sizes-grow', 'sizes',
              'the sheet sizes are not grown with max(1-based coordinate, current size) for both axes', fact='max(row + 1, last_row), '
              'max(column + 1, last_column)', loc=loc_of(sc.module.path, loops[0]))


def run(run: Run):
    from .common import cached_guard as _cached_guard
    src = get_source()
    rt = get_runtime(src)
    run.rule('C04.R1', 'override store keyed by uid, order-preserving, new-over-old, every batch stored and flushed')
    run.rule('C04.R2', 'the formula is invoked only on an override miss')
    run.rule('C04.R3', 'any address can be overridden; sizes only grow; blank fallback')
    _cached_guard(run, 'C04.R1', r1, src, rt)
    _cached_guard(run, 'C04.R2', r2, rt)
    if not run.extra.get('executor_by_evaluation'):
        run.guard('C04.R3', r3, run, src)          # growth of the sizes: part of the evaluated histories otherwise
    # an override only reaches a reference that goes through the override-aware accessor: references are minted by the context
    from .common import borrow
    from . import c03
    from ..grammar import get_grammar
    from ..emission import get_emission
    from ..callgraph import get_callgraph
    run.rule('C04.R5', 'every cell reference in emitted code is minted by the context for a registered member (shared with C03.R1)')
    borrow(run, 'C04.R5', c03.r1, src, get_grammar(src), get_emission(src), get_callgraph(src))
    borrow(run, 'C04.R5', c03.r2, src, get_callgraph(src))
    run.floor('C04.R5', 10)
    run.rule('C04.R7', 'no translator specialises the emitted code on the stored value of a referenced cell')
    _cached_guard(run, 'C04.R7', r7_no_value_specialisation, src, get_emission(src))
    run.floor('C04.R7', 20)
    from . import c08
    run.rule('C04.R6', 'no runtime method keeps computed values or other state between queries (shared with C08.R1/R4): an override '
                       'always reaches every dependent cell')
    borrow(run, 'C04.R6', c08.r1, src, rt, get_callgraph(src))
    borrow(run, 'C04.R6', c08.r4, src, rt)
    run.floor('C04.R6', 50)
    from .common import check_per_instance_state
    run.rule('C04.R4', 'overrides are per instance: no class-level mutable state is changed in place or handed out')
    _cached_guard(run, 'C04.R4', check_per_instance_state, 'C04.R4', get_runtime(get_source()))
    run.floor('C04.R4', 6)
    run.floor('C04.R1', 8)
    run.floor('C04.R2', 4)
    run.floor('C04.R3', 2)
    from . import pipeline_eval as _pe
    from ..grammar import get_grammar as _gg_pe
    run.rule('C04.R8', 'overrides of constants, formula cells and zero change every dependent cell as an edit of the workbook would, end to end by evaluation')
    _cached_guard(run, 'C04.R8', _pe.book_obligations, 'C04.R8', 'C04.R8', get_source(), _gg_pe(get_source()))
    run.floor('C04.R8', 25)
    return INFO
