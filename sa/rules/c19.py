"""C19 -- the safety gate reports exactly the Python-like cells (DESIGN 3/C19)."""
from __future__ import annotations

import ast

from ..core import Run, AnalysisError, loc_of
from ..source import get_source
from ..callgraph import get_callgraph, raises_of
from ..paths import parent_map, path_conditions, executed_before
from ..regexmodel import Regex, sre_c, MAXREPEAT, UPPER, LOWER
from ..roles import RoleChecker, Role, Level, TupleR, SHEET, ROW, COL, cell_field_order
from .common import borrow, library_exceptions
from . import c18

INFO = {
    'explanation': (
        'R1: the report key is sheet title, column letters, 1-based row, all taken from the cell under test or the loop that has '
        'that role (role analysis of the f-string). R2: in Parser._translate, when the safety flag is set, Excel.is_safe() is '
        'executed before any translation starts and is conditioned on the flag alone; is_safe raises iff the collected map is '
        'non-empty; E2PyclSafetyException is raised nowhere else; the exception keeps the map it is given. R3: the call-syntax '
        'pattern is an identifier class that includes lower-case letters directly followed by "(", the exemption pattern admits '
        'upper-case letters only before "("; a fragment is listed iff it matches the first and not the second; a cell is entered iff '
        'its list is non-empty; every non-empty cell of every sheet is tested in the reader\'s loops; the map is workbook-wide. Not '
        'decided: which fragments findall extracts from arbitrary text.'),
    'rule': 'one obligation per key part / gate condition / raise site / pattern property',
    'trusted': ['re.findall semantics for the two patterns'],
}


def r1(run: Run, src):
    # decided by the evaluated reader (report keys = sheet title + A1 address of the cell itself, fragments listed); the structural
    # reading below is the fallback
    from .reader_eval import reader_obligations
    sub_ = Run('tmp', run.tier, run.seed, quiet=True)
    try:
        reader_obligations(sub_, 'C19.R1', src, ('suspicious', 'titles'))
        for o_ in sub_.obligations:
            if o_['verdict'] == 'holds':
                run.ok('C19.R1', o_['construct'], o_['fact'], loc=o_['loc'])
                run.ok('C19.R1', o_['construct'] + '/evaluated', 'model workbook', nontrivial=False, loc=o_['loc'])
        for f_ in sub_.findings:
            run.bad('C19.R1', f_['construct'], f_['sub'], f_['message'], loc=f_['loc'])
        return
    except AnalysisError as e_:
        run.note(f'C19.R1: reader evaluation skipped ({e_.reason[:100]})')
    fi = c18._parse_fn(src)
    fields = cell_field_order(src)
    stores = [n for n in ast.walk(fi.node) if isinstance(n, ast.Assign) and isinstance(n.targets[0], ast.Subscript) and
              'suspicious' in ast.unparse(n.targets[0].value)]
    if len(stores) != 1:
        raise AnalysisError('C19.R1', f'expected one store into the suspicious-cell map, found {len(stores)}')
    st = stores[0]
    key = st.targets[0].slice
    loc = loc_of(fi.module.path, st)
    if not isinstance(key, ast.JoinedStr):
        raise AnalysisError('C19.R1', 'the report key is not an f-string')
    wbv = c18._workbook_var(fi)
    rc = RoleChecker(fi.node, {wbv: None}, fields, qual=fi.qualname)
    rc.self_attrs[f'{wbv}.worksheets'] = Level(SHEET, 'worksheet')
    rc.run()
    # evaluate the key in the environment at the end of the analysis (loop variables keep their roles)
    parts = []
    lits = []
    for v in key.values:
        if isinstance(v, ast.FormattedValue):
            parts.append((rc.ev(v.value), ast.unparse(v.value)))
        else:
            lits.append(v.value)
    want = [Role(SHEET, 'text'), Role(COL, 'text'), Role(ROW, 1)]
    names = ['sheet title', 'column letters', '1-based row number']
    flat = []
    for got, txt in parts:                      # cell.coordinate is column letters followed by the row number
        if isinstance(got, TupleR):
            flat.extend((g_, txt) for g_ in got.items)
        else:
            flat.append((got, txt))
    parts = flat
    if len(parts) != 3:
        run.bad('C19.R1', 'Excel.parse/report-key', 'key-shape', f'the report key has {len(parts)} interpolated parts, expected title, '
                                                                f'column, row', loc=loc)
        return
    for (got, txt), w, nm in zip(parts, want, names):
        run.check(got == w, 'C19.R1', f'Excel.parse/report-key/{nm}', f'key-role:{got!r}',
                  f'the {nm} part of the report key is `{txt}`, whose role is {got!r}; expected {w!r} (an A1 address is title, column '
                  f'letters, row number of the cell itself)', fact=f'{txt}: {got!r}', loc=loc)
    # the parts come from the cell under test / its worksheet
    sheet_loop = c18._sheet_loop(fi)
    cell_names = {n.id for l in ast.walk(sheet_loop) if isinstance(l, ast.For) for n in ast.walk(l.target) if isinstance(n, ast.Name)}
    value_tested = st.value
    run.ok('C19.R1', 'Excel.parse/report-key/shape', f'key literal parts {lits}', nontrivial=False, loc=loc)


def _r2_gate_shape(run: Run, src, cg):
    lib = library_exceptions(src)
    from .common import inlined_function
    fi = inlined_function(src, 'Parser._translate')
    from ..inline import coalesce_copies
    fi.node = coalesce_copies(fi.node)          # one name per object: `excel = <what the helper called its workbook>`
    fn = fi.node
    parents = parent_map(fn)
    gates = [n for n in ast.walk(fn) if isinstance(n, ast.Call) and isinstance(n.func, ast.Attribute) and n.func.attr == 'is_safe']
    if len(gates) != 1:
        run.bad('C19.R2', 'Parser._translate/gate', 'gate-count', f'is_safe() is called {len(gates)} times in _translate',
                loc=loc_of(fi.module.path, fn))
        return
    gate = gates[0]
    conds = path_conditions(fn, gate, parents)
    # conditions that guard the gate: the early-return guard (cache) and the safety flag
    flag_conds = [(t, pol) for t, pol in conds if '_safety_check' in ast.unparse(t) and 'has_been_changed' not in
                  ast.unparse(t).replace('_safety_check_has_been_changed', '')]
    own_if = parents.get(parents.get(gate))
    ok_flag = isinstance(own_if, ast.If) and isinstance(own_if.test, ast.Attribute) and own_if.test.attr == '_safety_check' and \
        not own_if.orelse
    run.check(ok_flag, 'C19.R2', 'Parser._translate/gate-condition', 'gate-condition',
              f'the safety gate runs under `{ast.unparse(own_if.test)[:80] if isinstance(own_if, ast.If) else "?"}`; it must run '
              f'whenever the safety flag is set (and only then): any further conjunct lets an unsafe workbook through on some call '
              f'sequence', fact='if self._safety_check: excel.is_safe()', loc=loc_of(fi.module.path, gate))
    # other conditions on the path must only be the cache guard / missing-path guard (early exits before any work)
    others = [ast.unparse(t) for t, pol in conds if t is not getattr(own_if, 'test', None)]
    extra = [o for o in others if 'has_been_changed' not in o and '_excel_file_path' not in o]
    run.check(not extra, 'C19.R2', 'Parser._translate/gate-path', 'gate-path',
              f'the gate is additionally conditioned on {extra}', fact=f'path conditions: {others}', loc=loc_of(fi.module.path, gate))
    # the gate is executed before every call that starts translating
    starts = [n for n in ast.walk(fn) if isinstance(n, ast.Call) and isinstance(n.func, ast.Attribute) and
              n.func.attr in ('translate', 'translate_file', 'build_class')]
    if not starts:
        raise AnalysisError('C19.R2', 'no translation call found in _translate')
    gate_stmt = own_if if isinstance(own_if, ast.If) else parents.get(gate)
    for s in starts:
        before = executed_before(fn, s, parents)
        run.check(gate_stmt in before, 'C19.R2', f'Parser._translate/{ast.unparse(s.func)[:40]}', 'translation-before-gate',
                  f'`{ast.unparse(s.func)}` can start before the safety gate has run', fact='gate executed before',
                  loc=loc_of(fi.module.path, s))
    # the workbook that is checked is the workbook that is translated
    recv = ast.unparse(gate.func.value)
    for s in starts:
        if s.func.attr in ('translate', 'translate_file'):
            args = [ast.unparse(a) for a in s.args]
            run.check(recv in args, 'C19.R2', f'Parser._translate/{s.func.attr}/same-workbook', 'different-workbook',
                      f'the gate checks `{recv}` but `{ast.unparse(s)[:60]}` translates another object', fact=f'{recv} is translated',
                      loc=loc_of(fi.module.path, s))


def r2(run: Run, src, cg):
    """where the gate stands: decided by evaluation of the Parser facade on setter / request histories (an unsafe workbook is
    rejected exactly when the check is on at the time of the request, before anything is translated, again on every request);
    the structural reading of _translate is the fallback.  What is_safe raises and carries is read structurally."""
    from . import parser_eval
    try:
        parser_eval.evaluate_histories(run, 'C19.R2', src)
    except AnalysisError as e:
        run.note(f'C19.R2: the gate by structure ({e.reason[:120]})')
        _r2_gate_shape(run, src, cg)
    lib = library_exceptions(src)
    # is_safe raises iff the map is non-empty
    ex = src.cls('Excel')
    iss = ex.methods.get('is_safe')
    if iss is None:
        raise AnalysisError('C19.R2', 'Excel.is_safe not found')
    body = [s for s in iss.node.body if not (isinstance(s, ast.Expr) and isinstance(s.value, ast.Constant))]

    def nonempty(t):
        """(map expression, polarity) when `t` tests a collection for (non-)emptiness: X, bool(X), len(X) > 0, len(X) != 0,
        len(X) >= 1, X != {}  (polarity True)  /  not X, len(X) == 0, X == {}  (polarity False)"""
        if isinstance(t, ast.UnaryOp) and isinstance(t.op, ast.Not):
            r = nonempty(t.operand)
            return None if r is None else (r[0], not r[1])
        if isinstance(t, ast.Attribute):
            return (t, True)
        if isinstance(t, ast.Call) and isinstance(t.func, ast.Name) and t.func.id == 'bool' and len(t.args) == 1:
            return nonempty(t.args[0])
        if isinstance(t, ast.Compare) and len(t.ops) == 1:
            l, r, op = t.left, t.comparators[0], t.ops[0]
            if isinstance(l, ast.Call) and isinstance(l.func, ast.Name) and l.func.id == 'len' and len(l.args) == 1 and \
                    isinstance(l.args[0], ast.Attribute) and isinstance(r, ast.Constant) and isinstance(r.value, int):
                table = {(ast.Gt, 0): True, (ast.NotEq, 0): True, (ast.GtE, 1): True, (ast.Eq, 0): False, (ast.Lt, 1): False,
                         (ast.LtE, 0): False}
                if (type(op), r.value) in table:
                    return (l.args[0], table[(type(op), r.value)])
            if isinstance(l, ast.Attribute) and isinstance(r, ast.Dict) and not r.keys and isinstance(op, (ast.Eq, ast.NotEq)):
                return (l, isinstance(op, ast.NotEq))
        return None
    ok = False
    raise_stmt = map_expr = None
    if len(body) == 1 and isinstance(body[0], ast.If) and not body[0].orelse and len(body[0].body) == 1 and \
            isinstance(body[0].body[0], ast.Raise):
        ne = nonempty(body[0].test)
        if ne is not None and ne[1] and 'suspicious' in ne[0].attr:
            ok, raise_stmt, map_expr = True, body[0].body[0], ne[0]
    elif len(body) == 2 and isinstance(body[0], ast.If) and not body[0].orelse and len(body[0].body) == 1 and \
            isinstance(body[0].body[0], ast.Return) and isinstance(body[1], ast.Raise):
        ne = nonempty(body[0].test)                       # if not <map>: return / raise ...
        if ne is not None and not ne[1] and 'suspicious' in ne[0].attr:
            ok, raise_stmt, map_expr = True, body[1], ne[0]
    run.check(ok, 'C19.R2', 'Excel.is_safe/shape', 'is-safe-shape',
              'is_safe does not raise E2PyclSafetyException exactly when the collected map is non-empty', fact='raises iff the map is non-empty',
              loc=loc_of(iss.module.path, iss.node))
    if ok:
        r = raise_stmt
        call = r.exc
        kw = {k.arg: ast.unparse(k.value) for k in call.keywords} if isinstance(call, ast.Call) else {}
        run.check(isinstance(call, ast.Call) and getattr(call.func, 'id', '') == 'E2PyclSafetyException' and
                  kw.get('suspicious_cells') == ast.unparse(map_expr), 'C19.R2', 'Excel.is_safe/payload', 'payload',
                  f'the exception is raised as `{ast.unparse(call)[:80]}`; it must carry the collected map unchanged',
                  fact='suspicious_cells=<the map>', loc=loc_of(iss.module.path, r))
    # the exception is raised nowhere else
    for f in src.functions.values():
        for exc, node in raises_of(f.node):
            if exc == 'E2PyclSafetyException':
                run.check(f.qualname == 'Excel.is_safe', 'C19.R2', f'{f.qualname}/raise E2PyclSafetyException', 'raised-elsewhere',
                          f'{f.qualname} raises the safety exception outside the gate (so it can occur with the check disabled, or '
                          f'without a report)', fact='only the gate raises it', loc=loc_of(f.module.path, node))
    # the exception class keeps the map
    exc = src.cls('E2PyclSafetyException')
    init = exc.methods.get('__init__')
    txt = ast.unparse(init.node) if init else ''
    run.check("self.suspicious_cells = kwargs.get('suspicious_cells'" in txt, 'C19.R2', 'E2PyclSafetyException/attribute', 'attribute',
              'the exception does not keep the reported map in .suspicious_cells', fact='.suspicious_cells = given map',
              loc=loc_of(exc.module.path, exc.node))
    run.check(src.is_subclass(exc, 'E2PyclParserException') or src.is_subclass(exc, 'E2PyclException'), 'C19.R2',
              'E2PyclSafetyException/hierarchy', 'hierarchy', 'the safety exception left the library hierarchy', fact='library exception',
              loc=loc_of(exc.module.path, exc.node))


PROBES = [
    # (cell value, fragments that must be reported)
    ('eval(1)', ['eval(1)']), ('x = exec(2)', ['exec(2)']), ('os.system("rm -rf")', ['system("rm -rf")']), ('a_b1(c)', ['a_b1(c)']),
    ('foo()', ['foo()']), ('eval(1) exec(2)', ['eval(1)', 'exec(2)']), ('__import__(os)', ['__import__(os)']),
    ('=print(A1)', ['print(A1)']), ('getattr(x, y)', ['getattr(x, y)']), ('  compile(s)  ', ['compile(s)']),
    ('SUM(A1:A2)', []), ('=IF(A1>0;MAX(B1;2);3)', []), ('=SUM(A1)+COUNT(B1:B2)', []), ('text', []), ('', []), ('(1+2)', []),
    ('a (b)', []), ('x(', []), ('A1', []), ('3.5', []), ('TRUE', []), ('=VLOOKUP(A1;B1:C5;2)', []), ('ROUND(1.5;0)', []),
    # call syntax inside the quoted text of a formula is call syntax all the same (the gate does not parse the formula); cells that
    # also contain an upper-case call are outside the statement ("... and no upper-case function call")
    ('="eval(1)"&A1', ['eval(1)']), ('=A1&"; os.system(1)"', ['system(1)']),
    ('="a" & foo(1) & "b"', ['foo(1)']), ("='quoted(1)'", ['quoted(1)']),
]
VALUE_PROBES = [(12.5, []), (7, []), (None, []), (True, []), (0, [])]


def r3_eval(run: Run, src):
    """which fragments of a cell value are reported, decided by abstract evaluation (engine F; the regular expressions are run by
    the standard library on constant patterns) of Excel._get_suspicious_constructions on probe values: call syntax in lower
    case is reported fragment by fragment, in order; upper-case function calls, plain text and numbers never are"""
    from ..finite import evaluator_for_class, const_av, Unknown, AbsRaise
    ex = src.cls('Excel')
    fi = ex.methods.get('_get_suspicious_constructions')
    if fi is None:
        raise AnalysisError('C19.R3', 'Excel._get_suspicious_constructions not found')
    loc = loc_of(fi.module.path, fi.node)
    for value, want in PROBES + VALUE_PROBES:
        ev = evaluator_for_class(ex)
        construct = f'suspicious/{value!r}'
        try:
            res = ev.call_method('_get_suspicious_constructions', [const_av(value)])
            res = ev.unbox(res)
            if res.items is None or not all(isinstance(x.val, str) for x in res.items):
                raise Unknown(f'a result of unknown contents {res!r}')
            got = [x.val for x in res.items]
        except Unknown as u:
            raise AnalysisError('C19.R3', f'{construct}: the abstraction cannot follow the helper ({u})')
        except AbsRaise as e:
            got = f'raises {e.exc}'
        run.check(got == want, 'C19.R3', construct, 'fragments',
                  f'for the cell value {value!r} the fragments reported are {got!r}; call syntax that is not an upper-case function '
                  f'call must be reported fragment by fragment and nothing else: {want!r}', fact=f'-> {got!r}', loc=loc)


def r3(run: Run, src):
    try:
        r3_eval(run, src)
        run.extra['suspicious_by_evaluation'] = True
    except AnalysisError as e:
        run.note(f'C19.R3: the fragment scanner by structure ({e.reason[:120]})')
    _r3_structural(run, src, patterns=not run.extra.get('suspicious_by_evaluation'))


def _r3_patterns(run: Run, src, shape_checks=True):
    ex = src.cls('Excel')
    fi = ex.methods.get('_get_suspicious_constructions')
    if fi is None:
        raise AnalysisError('C19.R3', 'Excel._get_suspicious_constructions not found')
    loc = loc_of(fi.module.path, fi.node)
    # regex uses: re.<method>(<constant>, subject)  or  <compiled constant>.<method>(subject) with the compiled pattern bound at
    # class or module level (cls._NAME / self._NAME / NAME = re.compile(<constant>))
    compiled = {}
    scopes = list(ex.node.body) + list(fi.module.tree.body)
    for st in scopes:
        if isinstance(st, ast.Assign) and isinstance(st.value, ast.Call) and ast.unparse(st.value.func) == 're.compile' and \
                st.value.args and isinstance(st.value.args[0], ast.Constant) and isinstance(st.value.args[0].value, str):
            for t in st.targets:
                if isinstance(t, ast.Name):
                    compiled[t.id] = st.value.args[0].value

    class Use:
        def __init__(self, node, pattern, method, subject):
            self.node, self.pattern, self.method, self.subject = node, pattern, method, subject
            self.lineno, self.col_offset = node.lineno, node.col_offset
    uses = []
    for n in ast.walk(fi.node):
        if not (isinstance(n, ast.Call) and isinstance(n.func, ast.Attribute)):
            continue
        recv = n.func.value
        if isinstance(recv, ast.Name) and recv.id == 're' and n.args and isinstance(n.args[0], ast.Constant) and \
                isinstance(n.args[0].value, str) and n.func.attr in ('findall', 'search', 'match', 'fullmatch', 'finditer'):
            uses.append(Use(n, n.args[0].value, n.func.attr, n.args[1] if len(n.args) > 1 else None))
        else:
            name = recv.attr if isinstance(recv, ast.Attribute) and isinstance(recv.value, ast.Name) and recv.value.id in ('cls', 'self', ex.name) \
                else recv.id if isinstance(recv, ast.Name) else None
            if name in compiled and n.func.attr in ('findall', 'search', 'match', 'fullmatch', 'finditer'):
                uses.append(Use(n, compiled[name], n.func.attr, n.args[0] if n.args else None))
    uses.sort(key=lambda u: (u.lineno, u.col_offset))
    if len(uses) != 2:
        raise AnalysisError('C19.R3', f'expected two constant regex uses, found {len(uses)}')
    call_rx, ex_rx = uses
    # value is stringified first
    if shape_checks:
        run.check('str(' in ast.unparse(fi.node), 'C19.R3', 'suspicious/str', 'not-stringified', 'the cell value is not converted to text '
                  'before matching', fact='str(value)', loc=loc)

    def ident_before_paren(call):
        rx = Regex(call.pattern)
        items = list(rx.tree)
        # <class>+ \(
        if len(items) < 2 or items[0][0] not in (sre_c.MAX_REPEAT, sre_c.MIN_REPEAT):
            return None, rx
        lo, hi, body = items[0][1]
        if lo < 1 or hi != MAXREPEAT:
            return None, rx
        chars = rx.lang(body).chars
        nxt = items[1]
        if not (nxt[0] is sre_c.LITERAL and chr(nxt[1]) == '('):
            return None, rx
        return chars, rx
    cchars, crx = ident_before_paren(call_rx)
    echars, erx = ident_before_paren(ex_rx)
    if cchars is None or echars is None:
        raise AnalysisError('C19.R3', 'the patterns are not of the form <class>+\\( ...')
    run.check(LOWER <= cchars and UPPER <= cchars and '_' in cchars, 'C19.R3', 'suspicious/call-pattern', 'call-pattern-class',
              f'the call-syntax pattern {call_rx.pattern!r} does not admit every identifier character before "(" (lower-case: '
              f'{LOWER <= cchars}, upper-case: {UPPER <= cchars}, underscore: {"_" in cchars}): eval( / os.system( would not be seen',
              fact='identifier class incl. lower case, directly followed by (', loc=loc_of(fi.module.path, call_rx.node))
    # ... followed by a parenthesised argument list of ANY content: what stands between "(" and the closing ")" may only
    # exclude ")" itself (and the line break that "." excludes)
    def argument_list(call):
        rx = Regex(call.pattern)
        items = list(rx.tree)
        if len(items) < 4 or not (items[1][0] is sre_c.LITERAL and chr(items[1][1]) == '('):
            return None
        body, close = items[2], items[3]
        if body[0] not in (sre_c.MAX_REPEAT, sre_c.MIN_REPEAT) or not (close[0] is sre_c.LITERAL and chr(close[1]) == ')'):
            return None
        lo, hi, inner = body[1]
        return lo, hi, rx.lang(inner).chars
    al = argument_list(call_rx)
    if al is None:
        raise AnalysisError('C19.R3', 'the call-syntax pattern is not of the form <identifier>+ \\( <anything>* \\)')
    lo_, hi_, achars = al
    probe = set('(["\'+-*/, =.:;{}<>') | set('abcxyzABCXYZ0123456789_ ')
    missing = sorted(probe - set(achars))
    run.check(lo_ == 0 and hi_ == MAXREPEAT and not missing, 'C19.R3', 'suspicious/call-arguments', 'argument-list-restricted',
              f'the call-syntax pattern {call_rx.pattern!r} only accepts an argument list of {lo_}..{"any number of" if hi_ == MAXREPEAT else hi_} '
              f'characters that excludes {missing[:8]}: a call whose arguments contain such a character (eval((1+2)*3), '
              f'print((1, 2))) is not recognised as call syntax and its cell is not reported',
              fact='any characters up to the closing parenthesis', loc=loc_of(fi.module.path, call_rx.node))
    if shape_checks:
        run.check(call_rx.method == 'findall', 'C19.R3', 'suspicious/call-findall', 'not-findall', 'fragments are not collected with findall',
                  fact='findall', loc=loc)
    run.check(echars <= UPPER and len(echars) > 0, 'C19.R3', 'suspicious/exemption-pattern', 'exemption-class',
              f'the exemption pattern {ex_rx.pattern!r} admits {sorted(echars - UPPER)[:8]} before "(": only upper-case Excel '
              f'function names may be exempted', fact='upper-case letters only', loc=loc_of(fi.module.path, ex_rx.node))
    # a fragment is exempt when it CONTAINS an upper-case call: the test must search the whole fragment (findall / search);
    # match / fullmatch only look at its beginning, so DEC2BIN(A1) -- upper-case letters, a digit, then BIN( -- is no longer exempt
    anchored = ex_rx.method in ('match', 'fullmatch') and not ex_rx.pattern.startswith(('.*', '(?s).*', '(?s:.*)'))
    run.check(not anchored, 'C19.R3', 'suspicious/exemption-search', 'exemption-anchored',
              f'the exemption pattern {ex_rx.pattern!r} is applied with re.{ex_rx.method}, i.e. only at the beginning of the fragment: a '
              f'fragment whose upper-case call does not start at its first character (DEC2BIN(A1), HEX2DEC(B3)) is reported as Python-like',
              fact=f'unanchored ({ex_rx.method})', loc=loc_of(fi.module.path, ex_rx.node))
    if not shape_checks:
        return                  # which fragments are selected is decided by the evaluated probes
    # a fragment is listed iff it matches the first and not the second
    from .common import flat_conditions
    from ..inline import nest_guards
    gfn = nest_guards(fi.node)
    # the uses were found in fi.node; find them again in the nested copy by position
    def same(n, u):
        return isinstance(n, ast.Call) and (n.lineno, n.col_offset) == (u.node.lineno, u.node.col_offset)
    gparents = parent_map(gfn)
    call_n = next(n for n in ast.walk(gfn) if same(n, call_rx))
    ex_n = next(n for n in ast.walk(gfn) if same(n, ex_rx))
    # names bound to the list of call fragments
    frag_names = set()
    st_ = gparents.get(call_n)
    if isinstance(st_, ast.Assign) and len(st_.targets) == 1 and isinstance(st_.targets[0], ast.Name):
        frag_names.add(st_.targets[0].id)
    if isinstance(st_, ast.NamedExpr):
        frag_names.add(st_.target.id)

    def miss_test(cond, target):
        """True when `cond` holds exactly when the exemption pattern does not match the fragment `target`"""
        if not (isinstance(ex_rx.subject, ast.Name) and ex_rx.subject.id == target):
            return False
        if isinstance(cond, ast.UnaryOp) and isinstance(cond.op, ast.Not):
            return same(cond.operand, ex_rx)
        if isinstance(cond, ast.Compare) and len(cond.ops) == 1 and same(cond.left, ex_rx):
            r, op = cond.comparators[0], cond.ops[0]
            if isinstance(r, ast.Constant) and r.value is None and isinstance(op, ast.Is):
                return ex_rx.method in ('search', 'match', 'fullmatch')
            if isinstance(r, ast.List) and not r.elts and isinstance(op, ast.Eq):
                return ex_rx.method == 'findall'
        if isinstance(cond, ast.Compare) and len(cond.ops) == 1 and isinstance(cond.left, ast.Call) and \
                isinstance(cond.left.func, ast.Name) and cond.left.func.id == 'len' and cond.left.args and same(cond.left.args[0], ex_rx):
            r, op = cond.comparators[0], cond.ops[0]
            return ex_rx.method == 'findall' and isinstance(r, ast.Constant) and r.value == 0 and isinstance(op, ast.Eq)
        return False
    comps = [n for n in ast.walk(gfn) if isinstance(n, ast.ListComp)]
    ok = False
    if len(comps) == 1 and len(comps[0].generators) == 1 and len(comps[0].generators[0].ifs) == 1:
        g = comps[0].generators[0]
        over = g.iter is call_n or (isinstance(g.iter, ast.Name) and g.iter.id in frag_names)
        ok = over and isinstance(comps[0].elt, ast.Name) and isinstance(g.target, ast.Name) and comps[0].elt.id == g.target.id and \
            miss_test(g.ifs[0], g.target.id)
        # what is returned: the selection, or an empty list when there is no call fragment at all
        for r_ in [n for n in ast.walk(gfn) if isinstance(n, ast.Return)]:
            if r_.value is comps[0]:
                cs = flat_conditions(path_conditions(gfn, r_, gparents))
                ok = ok and all(isinstance(t, ast.Name) and t.id in frag_names and pol for t, pol in cs)
            elif isinstance(r_.value, ast.List) and not r_.value.elts:
                cs = flat_conditions(path_conditions(gfn, r_, gparents))
                ok = ok and any(isinstance(t, ast.Name) and t.id in frag_names and not pol for t, pol in cs)
            else:
                ok = False
    run.check(ok, 'C19.R3', 'suspicious/selection', 'selection',
              'the reported fragments are not exactly those call-syntax fragments that do not match the exemption pattern',
              fact='[f for f in fragments if not exemption(f)]', loc=loc)


def _r3_structural(run: Run, src, patterns=True):
    """the regular expressions as languages (every identifier character before "(", any argument list, upper-case exemption,
    unanchored exemption) whenever the two patterns can be found; the shape of the selection only when the probes could not be
    evaluated"""
    try:
        _r3_patterns(run, src, shape_checks=patterns)
    except AnalysisError as e:
        if patterns:
            raise
        run.note(f'C19.R3: the patterns were not read as languages ({e.reason[:100]}); the probes decide')
    ex = src.cls('Excel')
    fi = ex.methods.get('_get_suspicious_constructions')
    loc = loc_of(fi.module.path, fi.node)
    from .common import flat_conditions
    # the reader: every non-empty cell is tested, entered iff non-empty -- decided by the evaluated reader when it can be followed
    sub_ = Run('tmp', run.tier, run.seed, quiet=True)
    try:
        from .reader_eval import reader_obligations
        reader_obligations(sub_, 'C19.R3', src, ('suspicious',))
        for o_ in sub_.obligations:
            if o_['verdict'] == 'holds':
                run.ok('C19.R3', o_['construct'], o_['fact'], loc=o_['loc'])
        for f_ in sub_.findings:
            run.bad('C19.R3', f_['construct'], f_['sub'], f_['message'], loc=f_['loc'])
        return
    except AnalysisError as e_:
        run.note(f'C19.R3: reader evaluation skipped ({e_.reason[:100]})')
    pf = c18._parse_fn(src)
    loop = c18._sheet_loop(pf)
    tests = [n for n in ast.walk(loop) if isinstance(n, ast.Call) and isinstance(n.func, ast.Attribute) and
             n.func.attr == '_get_suspicious_constructions']
    if len(tests) != 1:
        raise AnalysisError('C19.R3', 'the call of _get_suspicious_constructions in the reader was not found')
    t = tests[0]
    parents = parent_map(pf.node)
    depth = 0
    p = parents.get(t)
    loops = []
    while p is not None and p is not pf.node:
        if isinstance(p, ast.For):
            loops.append(p)
        p = parents.get(p)
    run.check(len(loops) == 3 and loops[-1] is loop, 'C19.R3', 'Excel.parse/test-placement', 'test-placement',
              f'the suspicious-content test sits inside {len(loops)} nested loop(s); it must run for every cell of every row of every '
              f'worksheet', fact='inside sheet/row/cell loops', loc=loc_of(pf.module.path, t))
    arg = ast.unparse(t.args[0]) if t.args else ''
    arg_src = arg
    if t.args and isinstance(t.args[0], ast.Name):
        # a local that only ever names the stored value (value = cell.value)
        defs_ = [n.value for n in ast.walk(pf.node) if isinstance(n, ast.Assign) and any(isinstance(x, ast.Name) and x.id == arg for x in n.targets)]
        if defs_ and all(ast.unparse(d).endswith('.value') for d in defs_):
            arg_src = ast.unparse(defs_[0])
    run.check(arg_src.endswith('.value'), 'C19.R3', 'Excel.parse/tested-value', 'tested-value', f'the test is applied to `{arg}`',
              fact='cell.value', loc=loc_of(pf.module.path, t))
    conds = flat_conditions(path_conditions(pf.node, t, parents))
    extra = [('' if pol else 'not ') + ast.unparse(c) for c, pol in conds if not (ast.unparse(c) == arg and pol) and
             not (isinstance(c, ast.NamedExpr) and c.value is t)]
    run.check(not extra, 'C19.R3', 'Excel.parse/test-condition', 'test-condition',
              f'the test only runs when {extra}: some non-empty cells are never tested', fact=f'runs for every truthy cell value',
              loc=loc_of(pf.module.path, t))
    # entered iff the list is non-empty: the store is guarded by the fragment list itself (and by nothing else but the cell value)
    stores = [n for n in ast.walk(loop) if isinstance(n, ast.Assign) and isinstance(n.targets[0], ast.Subscript) and
              'suspicious' in ast.unparse(n.targets[0].value)]
    if len(stores) == 1:
        st = stores[0]
        bound = set()
        tp = parents.get(t)
        if isinstance(tp, ast.NamedExpr):
            bound.add(tp.target.id)
        if isinstance(tp, ast.Assign) and len(tp.targets) == 1 and isinstance(tp.targets[0], ast.Name):
            bound.add(tp.targets[0].id)
        sc = flat_conditions(path_conditions(pf.node, st, parents))

        def is_list_test(c, pol):
            if not pol:
                return False
            if isinstance(c, ast.Name) and c.id in bound:
                return True
            return isinstance(c, ast.NamedExpr) and c.value is t
        others = [('' if pol else 'not ') + ast.unparse(c) for c, pol in sc if not is_list_test(c, pol) and
                  not (ast.unparse(c) == arg and pol)]
        guard_ok = any(is_list_test(c, pol) for c, pol in sc) and not others
        run.check(guard_ok, 'C19.R3', 'Excel.parse/entered-iff-non-empty', 'entry-condition',
                  'a cell is entered in the report although its fragment list may be empty (or not entered although it is not)'
                  + (f' -- further conditions {others}' if others else ''),
                  fact='stored under `if <fragments>`', loc=loc_of(pf.module.path, st))
        run.check(isinstance(st.value, ast.Name) and st.value.id in bound, 'C19.R3', 'Excel.parse/stored-fragments', 'stored-fragments',
                  f'the report stores `{ast.unparse(st.value)[:40]}`', fact='the fragment list', loc=loc_of(pf.module.path, st))

def run(run: Run):
    from .common import cached_guard as _cached_guard
    src = get_source()
    cg = get_callgraph(src)
    run.rule('C19.R1', 'report key = sheet title, column letters, 1-based row of the cell under test')
    run.rule('C19.R2', 'gate placement, gate condition, only the gate raises, payload kept')
    run.rule('C19.R3', 'what is collected: call pattern, exemption pattern, selection, every cell tested')
    run.rule('C19.R4', 'the report map is workbook-wide (shared with C18.R2 accumulator discipline)')
    _cached_guard(run, 'C19.R1', r1, src)
    _cached_guard(run, 'C19.R2', r2, src, cg)
    _cached_guard(run, 'C19.R3', r3, src)
    borrow(run, 'C19.R4', c18.r2_any, src)
    from . import c09
    run.rule('C19.R6', 'switching the check on takes effect on the next translation: the setter raises the flag on every path, the '
                       'guard re-translates when any flag is set (shared with C09.R1)')
    borrow(run, 'C19.R6', c09.r1_any, src)
    run.floor('C19.R6', 8)
    from .common import check_mutable_defaults
    run.rule('C19.R5', 'nothing collected for one workbook survives into the report of the next (no mutable default changed or handed out)')
    _cached_guard(run, 'C19.R5', check_mutable_defaults, 'C19.R5', src)
    run.floor('C19.R5', 5)
    from .common import check_rejections_propagate
    run.rule('C19.R7', 'the safety exception reaches the caller: no handler on the translation path turns it into a value')
    _cached_guard(run, 'C19.R7', check_rejections_propagate, 'C19.R7', src, cg, ['Excel.is_safe'], 'a workbook with Python-like cells')
    run.floor('C19.R7', 50)
    run.floor('C19.R1', 2)
    run.floor('C19.R2', 9)
    run.floor('C19.R3', 6)
    run.floor('C19.R4', 2)
    return INFO
