"""C01 -- formula operators keep their Excel meaning (DESIGN 3/C01)."""
from __future__ import annotations

import ast
import itertools

from ..core import Run, AnalysisError, loc_of
from ..source import get_source
from ..grammar import get_grammar
from ..emission import get_emission, render
from ..runtime import get_runtime
from ..symeval import Code, Part, Tok, NumV, GroupStr, Const
from .common import skeleton_of, expanded_leaves, iter_parts

INFO = {
    'explanation': (
        'The parser builds one right-recursive chain for all precedence levels and the expression translator prints it, so the '
        'effective grouping is decided by how each operator is printed. Decided from the symbolic emission of '
        'ExpressionTokenTranslator per (production, operator class): R1 operator -> Python operator table (& also wraps both sides '
        'in str()), R2 brackets are re-emitted around exactly the bracketed child, R3 scope of unary sign, R4 for every ordered pair '
        'of adjacent operator classes (incl. unary and postfix %) the composed skeleton of `a o1 b o2 c` is parsed and its grouping '
        'compared with the six Excel levels of the statement (compositional: correct on all adjacent pairs + R2 implies correct on all '
        'chains; thorough also instantiates all chains of four operands), R5 a numeric literal is one correctly rounded conversion '
        'of its text, R6 % divides by the constant 100 through a 15-significant-digit normaliser and the blank object is int 0 with no '
        'arithmetic override. Not decided: the numeric value computed for every operand value.'),
    'rule': 'one obligation per operator class, per bracketed production, per ordered operator pair, per literal world',
    'trusted': ["Python's own precedence for + - * / and unary minus equals Excel's for these four operators"],
}

PY_OF = {'+': '+', '-': '-', '*': '*', '/': '/', '&': '+', '=': '==', '<>': '!=', '<': '<', '<=': '<=', '>': '>', '>=': '>='}
LEVEL = {'*': 3, '/': 3, '+': 2, '-': 2, '&': 1, '=': 0, '<>': 0, '<': 0, '<=': 0, '>': 0, '>=': 0}
CLASS_REP = {'mul': '*', 'add': '+', 'amp': '&', 'cmp': '='}
AST_OP = {ast.Add: '+', ast.Sub: '-', ast.Mult: '*', ast.Div: '/'}


def _operator_leaf(g, e, k):
    """terminal class of the operator at child position k of the root production in this world"""
    for path, sym in expanded_leaves(g, e.token_cls, e.outcome.world):
        if path[:1] == (k,) and sym in g.terminals:
            return sym
    return None


def _excel_op(g, term: str):
    lang = g.terminals[term].rx_own.lang()
    if lang.finite and len(lang.finite) == 1:
        return next(iter(lang.finite))
    return None


_POSTFIX_WORLDS: list = []


def _forms(run, src, g, em):
    """emission forms: {('bin', excel op): (Skeleton, left atom, right atom), ('unary', op): (...), ('postfix','%'): (...)}
    taken from ExpressionToken production 0 / production 1 / OneLeftOperandExpressionToken"""
    forms = {}
    _POSTFIX_WORLDS.clear()
    expr_prods = g.composites['ExpressionToken'].productions
    for e in em.emissions('ExpressionTokenTranslator', 'ExpressionToken'):
        o = e.outcome
        if o.kind != 'return' or e.production is None:
            continue
        prod = expr_prods[e.production]
        if prod == ['OperandToken', 'OperatorToken', 'ExpressionToken']:
            term = _operator_leaf(g, e, 1)
            op = _excel_op(g, term) if term else None
            if op is None:
                continue
            sk = skeleton_of(em, e)
            la = _atom_for(sk, (0,))
            ra = _atom_for(sk, (2,))
            forms[('bin', op)] = (sk, la, ra, e)
        elif len(prod) == 2 and prod[0] == 'OneOperandArithmeticOperatorToken':
            term = _operator_leaf(g, e, 0)
            op = _excel_op(g, term) if term else None
            sk = skeleton_of(em, e)
            forms[('unary', op)] = (sk, None, _atom_for(sk, (1,)), e)
    for e in em.emissions('ExpressionTokenTranslator', 'OneLeftOperandExpressionToken'):
        o = e.outcome
        if o.kind != 'return' or em.unreachable(e):
            continue
        sk = skeleton_of(em, e)
        forms[('postfix', '%')] = (sk, _atom_for(sk, (0,)), None, e)
        _POSTFIX_WORLDS.append((sk, _atom_for(sk, (0,)) if sk is not None else None, None, e))
    return forms


def _atom_for(sk, path):
    if sk is None:
        return None
    for name, p in sk.atoms.items():
        if p.kind == 'slot' and isinstance(p.b, Tok) and p.b.path == path:
            return name
    return None


def r1(run: Run, src, g, em, forms):
    loc = loc_of(src.cls('ExpressionTokenTranslator').module.path, src.cls('ExpressionTokenTranslator').node)
    want = set(PY_OF)
    have = {op for (k, op) in forms if k == 'bin'}
    for op in sorted(want - have):
        run.bad('C01.R1', f'operator {op}', 'no-emission-form',
                f'no emission form was found for the binary operator {op} (production [Operand, Operator, Expression])', loc=loc)
    for (k, op), (sk, la, ra, e) in sorted(forms.items()):
        if k != 'bin' or op not in PY_OF:
            continue
        construct = f'operator {op}'
        if sk is None or sk.tree is None or la is None or ra is None:
            if op == '%':
                continue
            run.bad('C01.R1', construct, 'unparseable-form', f'the emission for {op} is `{sk.text if sk else "?"}`', loc=loc)
            continue
        b = sk.tree.body
        py = PY_OF[op]
        if op in '+-*/':
            ok = isinstance(b, ast.BinOp) and AST_OP.get(type(b.op)) == py and _is_atom(b.left, la) and _is_atom(b.right, ra)
            run.check(ok, 'C01.R1', construct, 'wrong-python-operator',
                      f'Excel {op} is printed as `{_plain(sk.text)}`; expected the flat infix `L {py} R`', fact=f'L {py} R', loc=loc)
        elif op == '&':
            ok = isinstance(b, ast.BinOp) and isinstance(b.op, ast.Add) and _is_str_call(b.left, la) and _is_str_call(b.right, ra)
            run.check(ok, 'C01.R1', construct, 'concatenation-form',
                      f'Excel & is printed as `{_plain(sk.text)}`; expected `T(L) + T(R)` with T = str or a text-form helper of the '
                      f'runtime ({sorted(_TEXT_HELPERS)}): the text form of both operands, in order',
                      fact='text(L) + text(R)', loc=loc)
        else:
            ok = isinstance(b, ast.Call) and isinstance(b.func, ast.Attribute) and b.func.attr == '_compare' and len(b.args) == 3 \
                and isinstance(b.args[0], ast.Constant) and b.args[0].value == py and _is_atom(b.args[1], la) and \
                _is_atom(b.args[2], ra)
            got = b.args[0].value if isinstance(b, ast.Call) and b.args and isinstance(b.args[0], ast.Constant) else '?'
            run.check(ok, 'C01.R1', construct, 'wrong-comparison',
                      f'Excel {op} is printed as `{_plain(sk.text)}`; expected self._compare("{py}", L, R) (operator string {got!r})',
                      fact=f'_compare("{py}", L, R)', loc=loc)
    # unary forms
    for (k, op), (sk, la, ra, e) in forms.items():
        if k == 'unary':
            ok = sk is not None and sk.tree is not None and isinstance(sk.tree.body, ast.UnaryOp) and \
                isinstance(sk.tree.body.op, {'+': ast.UAdd, '-': ast.USub}.get(op, ast.Not)) and _is_atom(sk.tree.body.operand, ra)
            run.check(ok, 'C01.R1', f'unary {op}', 'wrong-unary', f'unary {op} is printed as `{_plain(sk.text) if sk else "?"}`',
                      fact=f'{op}(X)', loc=loc)


def _is_atom(node, name):
    return isinstance(node, ast.Name) and node.id == name


_TEXT_HELPERS: set = set()


def init_text_helpers(rt):
    """runtime helpers that are text-form functions: one argument, and every returned value is str(...) or a text constant
    (in both copies).  `self.<helper>(X)` is then a text form of X just as `str(X)` is."""
    out = None
    for cp in rt.copies():
        names = set()
        for name, fn in cp.members.items():
            if not isinstance(fn, ast.FunctionDef) or '.' in name:
                continue
            ps = [a.arg for a in fn.args.args if a.arg not in ('self', 'cls')]
            rets = [r for r in ast.walk(fn) if isinstance(r, ast.Return)]
            if len(ps) != 1 or not rets or fn.args.vararg or fn.args.kwarg:
                continue
            if all(r.value is not None and ((isinstance(r.value, ast.Call) and isinstance(r.value.func, ast.Name) and r.value.func.id == 'str')
                                            or (isinstance(r.value, ast.Constant) and isinstance(r.value.value, str))) for r in rets) and \
                    any(isinstance(r.value, ast.Call) and ps[0] in {n.id for n in ast.walk(r.value) if isinstance(n, ast.Name)} for r in rets):
                names.add(name)
        out = names if out is None else out & names
    _TEXT_HELPERS.clear()
    _TEXT_HELPERS.update(out or set())
    return set(_TEXT_HELPERS)


def _text_wrapper_of(node):
    """the single argument of str(X) / self.<text-form helper>(X), else None"""
    if isinstance(node, ast.Call) and len(node.args) == 1 and not node.keywords:
        f = node.func
        if isinstance(f, ast.Name) and f.id == 'str':
            return node.args[0]
        if isinstance(f, ast.Attribute) and isinstance(f.value, ast.Name) and f.value.id == 'self' and f.attr in _TEXT_HELPERS:
            return node.args[0]
    return None


def _is_str_call(node, name):
    a = _text_wrapper_of(node)
    return a is not None and _is_atom(a, name)


def _plain(text):
    import re
    return re.sub(r'__[A-Z][A-Za-z0-9]*__', 'X', text)


def r2(run: Run, src, g, em):
    """bracket re-emission"""
    expr_prods = g.composites['ExpressionToken'].productions
    loc = loc_of(src.cls('ExpressionTokenTranslator').module.path, src.cls('ExpressionTokenTranslator').node)
    done = set()
    for e in em.emissions('ExpressionTokenTranslator', 'ExpressionToken'):
        o = e.outcome
        if o.kind != 'return' or e.production is None:
            continue
        prod = expr_prods[e.production]
        if 'BracketStartToken' not in prod:
            continue
        sk = skeleton_of(em, e)
        if sk is None:
            continue
        i = prod.index('BracketStartToken')
        inner = _atom_for(sk, (i + 1,))
        key = (e.production, _plain(sk.text))
        if key in done:
            continue
        done.add(key)
        construct = f'ExpressionToken/production[{e.production}]:{_plain(sk.text)[:50]}'
        import re as _re

        def bracketed(atom):
            return atom is not None and _re.search(r'(?<![A-Za-z_0-9])\(' + _re.escape(atom) + r'\)', sk.text) is not None
        ok = bracketed(inner)
        others = [n for n, p in sk.atoms.items() if n != inner and p.kind == 'slot' and isinstance(p.b, Tok) and
                  p.b.cls in ('ExpressionToken',) and bracketed(n)]
        run.check(ok and not others, 'C01.R2', construct, 'brackets-lost' if not ok else 'brackets-on-wrong-child',
                  f'production {prod} is printed as `{_plain(sk.text)}`: the bracketed child is not (or not the only one) printed '
                  f'inside parentheses', fact='bracketed child printed inside ( )', loc=loc)


def _compose(form, L=None, R=None):
    sk, la, ra, e = form
    text = sk.text
    if la is not None and L is not None:
        text = text.replace(la, L)
    if ra is not None and R is not None:
        text = text.replace(ra, R)
    return text


def _tree(node):
    """abstract operator tree of a parsed composed skeleton"""
    if isinstance(node, ast.Expression):
        return _tree(node.body)
    if isinstance(node, ast.Name):
        return node.id
    if isinstance(node, ast.Constant):
        return repr(node.value)
    if isinstance(node, ast.UnaryOp) and isinstance(node.op, (ast.USub, ast.UAdd)):
        return ('neg' if isinstance(node.op, ast.USub) else 'pos', _tree(node.operand))
    if isinstance(node, ast.BinOp) and type(node.op) in AST_OP:
        l, r = _tree(node.left), _tree(node.right)
        if isinstance(node.op, ast.Add) and _is_wrap(l, 'str') and _is_wrap(r, 'str'):
            return ('&', l[1], r[1])
        if isinstance(node.op, ast.Div) and r == '100':
            return ('%', l)
        return (AST_OP[type(node.op)], l, r)
    if isinstance(node, ast.Call):
        f = node.func
        if _text_wrapper_of(node) is not None:
            return ('str', _tree(node.args[0]))
        if isinstance(f, ast.Attribute) and f.attr == '_compare' and len(node.args) == 3:
            return ('cmp', _tree(node.args[1]), _tree(node.args[2]))
        if isinstance(f, ast.Attribute) and f.attr == '_normalize_float_number' and len(node.args) == 1:
            return ('n', _tree(node.args[0]))
        return ('call', ast.unparse(node)[:40])
    return ('?', ast.unparse(node)[:40])


def _is_wrap(t, name):
    return isinstance(t, tuple) and t[0] == name


def _strip(t):
    """drop the value-transparent normaliser and stray str() wrappers for the comparison of groupings"""
    if isinstance(t, tuple):
        if t[0] == 'n':
            return _strip(t[1])
        return (t[0],) + tuple(_strip(x) for x in t[1:])
    return t


def _expected(ops, names):
    """Excel grouping of names[0] ops[0] names[1] ops[1] ... (left-associative, LEVEL precedence)"""
    out = [names[0]]
    stack_ops = []

    def norm(op):
        return 'cmp' if LEVEL[op] == 0 else op

    def reduce_():
        op = stack_ops.pop()
        r = out.pop()
        l = out.pop()
        out.append((norm(op), l, r))
    for op, n in zip(ops, names[1:]):
        while stack_ops and LEVEL[stack_ops[-1]] >= LEVEL[op]:
            reduce_()
        stack_ops.append(op)
        out.append(n)
    while stack_ops:
        reduce_()
    return out[0]


def _chain_text(forms, ops, names):
    """text the right-recursive translator prints for names[0] ops[0] names[1] ..."""
    if not ops:
        return names[0]
    rest = _chain_text(forms, ops[1:], names[1:])
    return _compose(forms[('bin', ops[0])], names[0], rest)


def r3_r4(run: Run, src, g, em, forms, tier):
    loc = loc_of(src.cls('ExpressionTokenTranslator').module.path, src.cls('ExpressionTokenTranslator').node)
    classes = {}
    for cname, rep in CLASS_REP.items():
        if ('bin', rep) in forms and forms[('bin', rep)][0].tree is not None:
            classes[cname] = rep
    if len(classes) < 4:
        raise AnalysisError('C01.R4', f'emission forms found only for operator classes {sorted(classes)}')
    # all operators of one class share one emission shape (so one representative per class suffices)
    shapes = {}
    for (k, op), (sk, la, ra, e) in forms.items():
        if k == 'bin' and op in LEVEL and sk.tree is not None:
            shape = _plain(sk.text).replace(PY_OF[op], '@', 1)
            cls = 'cmp' if LEVEL[op] == 0 else {'*': 'mul', '/': 'mul', '+': 'add', '-': 'add', '&': 'amp'}[op]
            shapes.setdefault(cls, set()).add(shape)
    for cls, ss in shapes.items():
        run.check(len(ss) == 1, 'C01.R4', f'class {cls}/uniform-shape', 'non-uniform',
                  f'operators of precedence class {cls} are printed in different shapes {sorted(ss)}', fact=f'shape {sorted(ss)[0]}',
                  loc=loc, )
    # adjacent pairs
    for c1, c2 in itertools.product(classes, repeat=2):
        o1, o2 = classes[c1], classes[c2]
        text = _chain_text(forms, [o1, o2], ['a', 'b', 'c'])
        construct = f'pair({c1},{c2})'
        try:
            got = _strip(_tree(ast.parse(text, mode='eval')))
        except SyntaxError:
            run.bad('C01.R4', construct, 'unparseable', f'`a {o1} b {o2} c` is printed as `{text}`', loc=loc)
            continue
        want = _expected([o1, o2], ['a', 'b', 'c'])
        if got == want or (c1 == c2 == 'amp' and _flat_amp(got) == _flat_amp(want)):
            run.ok('C01.R4', construct, f'a {o1} b {o2} c -> {text} groups as {_show(got)}', loc=loc)
        else:
            run.bad('C01.R4', construct, 'grouping',
                    f'`a {o1} b {o2} c` is printed as `{text}`, which groups as {_show(got)}; Excel groups it as {_show(want)}',
                    loc=loc)
    # unary sign in front of a chain (R3) and as the right operand
    for (k, op), form in forms.items():
        if k != 'unary' or op is None:
            continue
        for cname, o2 in classes.items():
            inner = _compose(forms[('bin', o2)], 'a', 'b')
            text = _compose(form, None, inner)
            construct = f'unary({op}) before {cname}'
            try:
                got = _strip(_tree(ast.parse(text, mode='eval')))
            except SyntaxError:
                run.bad('C01.R3', construct, 'unparseable', f'`{op}a {o2} b` is printed as `{text}`', loc=loc)
                continue
            sign = 'neg' if op == '-' else 'pos'
            want = (('cmp' if LEVEL[o2] == 0 else o2), (sign, 'a'), 'b')
            # value-preserving regroupings: a sign commutes with * and /, unary plus is the identity on numbers under + - * /
            harmless = (cname == 'mul') or (op == '+' and cname == 'add')
            if got != want and harmless and got == (sign, (o2, 'a', 'b')):
                run.ok('C01.R3', construct, f'{text}: sign over the whole product/sum, same value as {_show(want)}', loc=loc)
                continue
            run.check(got == want, 'C01.R3', construct, 'unary-scope',
                      f'`{op}a {o2} b` is printed as `{text}`, which groups as {_show(got)}; Excel applies the sign to `a` only: '
                      f'{_show(want)}', fact=f'{text} groups as {_show(got)}', loc=loc)
    # postfix % as right operand of every binary class, and followed by every class
    pf = forms.get(('postfix', '%'))
    if pf is None:
        raise AnalysisError('C01.R4', 'no emission form for the postfix % operand')
    for cname, o1 in classes.items():
        text = _compose(forms[('bin', o1)], 'a', _compose(pf, 'b'))
        construct = f'pair({cname},%)'
        try:
            got = _strip(_tree(ast.parse(text, mode='eval')))
        except SyntaxError:
            run.bad('C01.R4', construct, 'unparseable', f'`a {o1} b%` is printed as `{text}`', loc=loc)
            continue
        want = (('cmp' if LEVEL[o1] == 0 else o1), 'a', ('%', 'b'))
        run.check(got == want, 'C01.R4', construct, 'grouping',
                  f'`a {o1} b%` is printed as `{text}`, which groups as {_show(got)}; % binds tightest: {_show(want)}',
                  fact=f'{text} groups as {_show(got)}', loc=loc)
    # % operand followed by an operator: ExpressionToken production [OneLeftOperandExpressionToken, Operator, Expression]
    expr_prods = g.composites['ExpressionToken'].productions
    seen = set()
    for e in em.emissions('ExpressionTokenTranslator', 'ExpressionToken'):
        o = e.outcome
        if o.kind != 'return' or e.production is None or em.unreachable(e):
            continue
        prod = expr_prods[e.production]
        if prod[:2] != ['OneLeftOperandExpressionToken', 'OperatorToken']:
            continue
        term = _operator_leaf(g, e, 1)
        op = _excel_op(g, term) if term else None
        if op not in LEVEL:
            continue
        cls = 'cmp' if LEVEL[op] == 0 else {'*': 'mul', '/': 'mul', '+': 'add', '-': 'add', '&': 'amp'}[op]
        if cls in seen:
            continue
        seen.add(cls)
        sk = skeleton_of(em, e)
        la, ra = _atom_for(sk, (0,)), _atom_for(sk, (2,))
        construct = f'pair(%,{cls})'
        if sk.tree is None or la is None or ra is None:
            run.bad('C01.R4', construct, 'unparseable', f'`a% {op} b` is printed as `{_plain(sk.text)}`', loc=loc)
            continue
        raw = _tree(sk.tree)
        # text results must not be passed to the numeric normaliser
        if cls == 'amp' and _is_wrap(raw, 'n'):
            run.bad('C01.R4', construct, 'text-through-normaliser',
                    f'`a% & b` is printed as `{_plain(sk.text)}`: the concatenated text is passed to the 15-digit float normaliser '
                    f'(ValueError at evaluation)', loc=loc)
            continue
        # grouping inside: a% op (b o2 c) -- the wrapper n() around the whole remainder changes nothing for the grouping, but
        # Python's own precedence must see the flat text: check with a remainder that contains a looser operator
        ok = True
        for c2, o2 in classes.items():
            rest = _compose(forms[('bin', o2)], 'b', 'c')
            text = sk.text.replace(la, _compose(pf, 'a')).replace(ra, rest)
            try:
                got = _strip(_tree(ast.parse(text, mode='eval')))
            except SyntaxError:
                ok = False
                run.bad('C01.R4', f'{construct} then {c2}', 'unparseable', f'`a% {op} b {o2} c` is printed as `{text}`', loc=loc)
                continue
            want = _expected([op, o2], [('%', 'a'), 'b', 'c'])
            pair_known_bad = _pair_bad(classes, forms, cls, c2)
            if got != want and not pair_known_bad and not (cls == c2 == 'amp'):
                ok = False
                run.bad('C01.R4', f'{construct} then {c2}', 'grouping',
                        f'`a% {op} b {o2} c` is printed as `{text}`, which groups as {_show(got)}; Excel: {_show(want)}', loc=loc)
        if ok:
            run.ok('C01.R4', construct, f'a% {op} b -> {_plain(sk.text)}', loc=loc)
    # thorough: all chains of four operands
    if tier == 'thorough':
        names = ['a', 'b', 'c', 'd']
        bad_pairs = {(c1, c2) for c1, c2 in itertools.product(classes, repeat=2) if _pair_bad(classes, forms, c1, c2)}
        n = 0
        for cs in itertools.product(classes, repeat=3):
            ops = [classes[c] for c in cs]
            text = _chain_text(forms, ops, names)
            try:
                got = _strip(_tree(ast.parse(text, mode='eval')))
            except SyntaxError:
                continue
            want = _expected(ops, names)
            contains_bad = any((cs[i], cs[i + 1]) in bad_pairs for i in range(2)) or any(
                (cs[i], cs[j]) in bad_pairs for i in range(3) for j in range(i + 1, 3))
            n += 1
            if _flatten_amp(got) != _flatten_amp(want) and not contains_bad:
                run.bad('C01.R4', f'chain({",".join(cs)})', 'grouping-not-implied-by-pairs',
                        f'`a {ops[0]} b {ops[1]} c {ops[2]} d` groups as {_show(got)} (Excel {_show(want)}) although every adjacent '
                        f'pair is grouped correctly: the compositional argument does not hold', loc=loc)
            else:
                run.ok('C01.R4', f'chain({",".join(cs)})', 'consistent with the pair verdicts', nontrivial=False)


def _flat_amp(t):
    """operands of an &-chain in order (concatenation is associative)"""
    if isinstance(t, tuple) and t[0] == '&':
        return _flat_amp(t[1]) + _flat_amp(t[2])
    return [t]


def _flatten_amp(t):
    if isinstance(t, tuple) and t[0] == '&':
        return ('&*',) + tuple(_flatten_amp(x) for x in _flat_amp(t))
    if isinstance(t, tuple):
        return (t[0],) + tuple(_flatten_amp(x) for x in t[1:])
    return t


def _pair_bad(classes, forms, c1, c2):
    o1, o2 = classes[c1], classes[c2]
    text = _chain_text(forms, [o1, o2], ['a', 'b', 'c'])
    try:
        got = _strip(_tree(ast.parse(text, mode='eval')))
    except SyntaxError:
        return True
    want = _expected([o1, o2], ['a', 'b', 'c'])
    return got != want and not (c1 == c2 == 'amp' and _flat_amp(got) == _flat_amp(want))


def _show(t):
    if isinstance(t, tuple):
        if len(t) == 3:
            op = {'cmp': '=cmp='}.get(t[0], t[0])
            return f'({_show(t[1])} {op} {_show(t[2])})'
        if len(t) == 2:
            return {'neg': '-', 'pos': '+', '%': '%', 'n': 'n', 'str': 'str'}.get(t[0], t[0]) + f'({_show(t[1])})'
        return str(t)
    return str(t)


def r5(run: Run, src, g, em):
    """a numeric literal is rounded once"""
    lt = g.terminals.get('LiteralToken')
    if lt is None:
        raise AnalysisError('C01.R5', 'LiteralToken not found')
    loc = loc_of(lt.ci.module.path, lt.ci.node)
    n = 0
    seen = set()
    for e in em.emissions('OperandTokenTranslator', 'OperandToken'):
        o = e.outcome
        if o.kind != 'return' or not isinstance(o.value, Code):
            continue
        for p in o.value.parts:
            if isinstance(p, Part) and p.kind == 'num' and isinstance(p.a, NumV):
                v: NumV = p.a
                convs, arith = v.convs()
                world_groups = {k[3]: val for k, val in o.world.items() if k[0] == 'grp' and k[1] == 'LiteralToken'}
                key = (repr(v)[:200])
                if key in seen:
                    continue
                seen.add(key)
                n += 1
                desc = _num_desc(v)
                construct = f'LiteralToken/number:{desc[:60]}'
                ok = arith == 0 and convs == 1 and v.op in ('int', 'float') and isinstance(v.args[0], GroupStr) and not v.args[0].derived
                why = ''
                if ok:
                    gid = v.args[0].gid
                    lang = lt.rx.group_lang(gid)
                    if v.op == 'float':
                        ok = gid == 1       # the whole matched token
                        why = 'float() is applied to a part of the number text, not the whole match'
                    else:
                        # int() of the digits group: only when no fraction / exponent group matched in this world
                        others = [gg for gg, present in world_groups.items() if present and gg != gid and gg > gid]
                        ok = not others
                        why = f'int() of the integer digits although groups {others} (fraction/exponent) matched'
                else:
                    why = f'{convs} text->number conversion(s) combined by {arith} arithmetic operation(s): each step rounds'
                run.check(ok, 'C01.R5', construct, 'rounded-more-than-once',
                          f'a numeric literal is computed as {desc}: {why}; the value must be one correctly rounded conversion of '
                          f'the whole decimal text', fact=f'{desc}', loc=loc)
    if n < 2:
        raise AnalysisError('C01.R5', f'expected at least two numeric-literal worlds (integer and decimal), found {n}')


def _num_desc(v):
    if isinstance(v, NumV):
        if v.op in ('int', 'float'):
            return f'{v.op}({_num_desc(v.args[0])})'
        if v.op == 'bin':
            return '(' + f' {v.args[0]} '.join(_num_desc(a) for a in v.args[1:]) + ')'
        if v.op == 'const':
            return repr(v.args[0])
        return f'{v.op}(...)'
    if isinstance(v, GroupStr):
        return f'group{v.gid - 1}' + (f'.{v.derived}' if v.derived else '')
    if isinstance(v, Code):
        return 'text(' + ''.join(x if isinstance(x, str) else _num_desc(x.a) for x in v.parts) + ')'
    return type(v).__name__


NORMALISER_PROBES = [0.07 * 100, 1 / 3, 0.1 + 0.2, 123456789.12345679, 1e-20, -2.675, 5.0, 0.0, 1e22 / 3, 29 / 100, 0.57 * 100, -1e-7 / 3,
                     1234567890123456.0, 0.1 * 3]


def normaliser_eval(cp):
    """(ok, what) from the helper evaluated as written on doubles whose 15-digit rendering differs from the double itself and on
    doubles it must leave alone; None when the evaluator cannot follow the helper"""
    from ..finite import evaluator_for, const_av, Unknown, AbsRaise
    ev = evaluator_for(cp, max_depth=6)
    inst = ev.new_obj('ExcelInPython', {})
    for x in NORMALISER_PROBES:
        want = float(f'{x:.15g}')
        try:
            got = ev.call_method('_normalize_float_number', [const_av(x)], inst)
        except Unknown:
            return None
        except AnalysisError:
            return None
        except AbsRaise as e:
            return False, f'raises {e.exc} on {x!r}'
        if got.kind not in ('float', 'int') or got.val is None or isinstance(got.val, tuple):
            return None
        if got.kind != 'float' or repr(float(got.val)) != repr(want):
            return False, f'gives {got.val!r} for {x!r}; the number rounded to 15 significant digits is {want!r}'
    return True, f'evaluated on {len(NORMALISER_PROBES)} doubles: float(<15 significant digits>)'


def normaliser_ok(fn: ast.FunctionDef):
    """the helper returns float(<15-significant-digit rendering of its argument>)"""
    params = [a.arg for a in fn.args.args if a.arg not in ('self', 'cls')]
    if len(params) != 1:
        return False, 'unexpected signature'
    x = params[0]
    rets = [n for n in ast.walk(fn) if isinstance(n, ast.Return)]
    if len(rets) != 1 or rets[0].value is None:
        return False, 'more than one return'
    v = rets[0].value
    if not (isinstance(v, ast.Call) and isinstance(v.func, ast.Name) and v.func.id == 'float' and len(v.args) == 1):
        return False, f'returns `{ast.unparse(v)[:60]}`, not float(<decimal rendering>)'
    a = v.args[0]
    spec = None
    if isinstance(a, ast.JoinedStr) and len(a.values) == 1 and isinstance(a.values[0], ast.FormattedValue):
        fv = a.values[0]
        if isinstance(fv.value, ast.Name) and fv.value.id == x and fv.format_spec is not None:
            spec = ''.join(c.value for c in fv.format_spec.values if isinstance(c, ast.Constant))
    elif isinstance(a, ast.Call) and isinstance(a.func, ast.Name) and a.func.id == 'format' and len(a.args) == 2 and \
            isinstance(a.args[0], ast.Name) and a.args[0].id == x and isinstance(a.args[1], ast.Constant):
        spec = a.args[1].value
    elif isinstance(a, ast.BinOp) and isinstance(a.op, ast.Mod) and isinstance(a.left, ast.Constant) and \
            isinstance(a.right, ast.Name) and a.right.id == x and isinstance(a.left.value, str) and a.left.value.startswith('%'):
        spec = a.left.value[1:]
    elif isinstance(a, ast.Call) and isinstance(a.func, ast.Attribute) and a.func.attr == 'format' and \
            isinstance(a.func.value, ast.Constant) and len(a.args) == 1 and isinstance(a.args[0], ast.Name) and a.args[0].id == x:
        s = a.func.value.value
        if s.startswith('{:') and s.endswith('}'):
            spec = s[2:-1]
    if spec is None:
        return False, f'`{ast.unparse(a)[:60]}` is not a recognised decimal rendering of the argument'
    if spec != '.15g':
        return False, f'format spec {spec!r} keeps a different number of significant digits than 15'
    return True, 'float(format(x, ".15g"))'


def r6(run: Run, src, g, em, rt, forms):
    loc = loc_of(src.cls('ExpressionTokenTranslator').module.path, src.cls('ExpressionTokenTranslator').node)
    pf = forms.get(('postfix', '%'))
    if pf is None:
        raise AnalysisError('C01.R6', 'no emission form for the postfix % operand')
    # every world of the postfix % (whatever the operand is: literal, cell, bracket) prints the same normalised division
    shown = set()
    for sk, la, _, e in (list(_POSTFIX_WORLDS) or [pf]):
        ok = False
        got = _plain(sk.text) if sk is not None else '<not text>'
        if sk is not None and sk.tree is not None:
            b = sk.tree.body
            if isinstance(b, ast.Call) and isinstance(b.func, ast.Attribute) and b.func.attr == '_normalize_float_number' and \
                    len(b.args) == 1 and isinstance(b.args[0], ast.BinOp) and isinstance(b.args[0].op, ast.Div) and \
                    _is_atom(b.args[0].left, la) and isinstance(b.args[0].right, ast.Constant) and b.args[0].right.value == 100 and \
                    type(b.args[0].right.value) is int:
                ok = True
        if (ok, got) in shown:
            continue
        shown.add((ok, got))
        run.check(ok, 'C01.R6', 'postfix %/form', 'percent-form',
                  f'`x%` is printed as `{got}` (world {e.world[:80]}); expected self._normalize_float_number(X / 100): an atomic call '
                  f'that divides by 100 -- also for a literal operand', fact=got, loc=loc)
    # the same % followed directly by a signed operand (x%+y, x%-y) is parsed as [operand, % operator, expression]: there too the
    # % must become the division by 100 of the left operand, never Python's modulo
    bf = forms.get(('bin', '%'))
    if bf is not None and bf[0] is not None:
        sk2, la2, ra2, e2 = bf
        txt = sk2.text
        head = f'self._normalize_float_number({la2} / 100)' if la2 else None
        ok2 = head is not None and txt.startswith(head) and '%' not in txt
        run.check(ok2, 'C01.R6', 'postfix % before a signed operand/form', 'percent-as-modulo',
                  f'`x%+y` / `x%-y` (the % parsed as an operator between an operand and a signed expression) is printed as '
                  f'`{_plain(txt)}`; the left operand must be divided by 100 through the normaliser -- a bare `%` is Python\'s modulo',
                  fact=_plain(txt), loc=loc)
    for cp in rt.copies():
        fn = cp.members.get('_normalize_float_number')
        if fn is None:
            run.bad('C01.R6', f'_normalize_float_number[{cp.label}]', 'missing', 'the 15-digit normaliser does not exist', loc=cp.path)
            continue
        verdict = normaliser_eval(cp)
        if verdict is None:
            ok, why = normaliser_ok(fn)                 # the evaluator cannot follow it: the text is read
        else:
            ok, why = verdict
        run.check(ok, 'C01.R6', f'_normalize_float_number[{cp.label}]', 'not-15-significant-digits',
                  f'the percent normaliser {why}', fact=why, loc=cp.loc(fn))
    # the blank object
    for cp in rt.copies():
        ec = cp.nested.get('EmptyCell')
        if ec is None:
            run.bad('C01.R6', f'EmptyCell[{cp.label}]', 'missing', 'the blank-cell class does not exist', loc=cp.path)
            continue
        bases = [ast.unparse(b) for b in ec.bases]
        arith = {'__add__', '__radd__', '__sub__', '__rsub__', '__mul__', '__rmul__', '__truediv__', '__rtruediv__', '__neg__',
                 '__pos__', '__int__', '__float__', '__index__', '__new__', '__init__', '__floordiv__', '__mod__', '__pow__',
                 '__abs__', '__bool__', '__round__', '__trunc__'}
        defined = {s.name for s in ec.body if isinstance(s, ast.FunctionDef)}
        run.check(bases == ['int'] and not (defined & arith), 'C01.R6', f'EmptyCell[{cp.label}]', 'blank-not-zero',
                  f'the blank object has bases {bases} and overrides {sorted(defined & arith)}: a blank operand must be the int 0 in '
                  f'arithmetic', fact='int subclass, constructed without arguments, no arithmetic override', loc=cp.loc(ec))
    # the blank is constructed without arguments
    from .common import normalized_method
    fi, fn_norm = normalized_method(src, 'CellTranslator', '_set_cell_to_context')
    consts = sorted({n.value for n in ast.walk(fn_norm) if isinstance(n, ast.Constant) and isinstance(n.value, str) and 'EmptyCell' in n.value})
    run.check(consts == ['self.EmptyCell()'], 'C01.R6', 'CellTranslator/blank', 'blank-construction',
              f'a blank cell is printed as {consts}', fact="'self.EmptyCell()'", loc=loc_of(fi.module.path, fi.node))


def run(run: Run):
    from .common import cached_guard as _cached_guard
    src = get_source()
    g = get_grammar(src)
    em = get_emission(src)
    rt = get_runtime(src)
    run.rule('C01.R1', 'operator -> Python operator table (emission form per operator)')
    run.rule('C01.R2', 'brackets are re-emitted around exactly the bracketed child')
    run.rule('C01.R3', 'unary sign applies to its operand only')
    run.rule('C01.R4', 'grouping of every ordered pair of adjacent operator classes equals the Excel precedence levels')
    run.rule('C01.R5', 'a numeric literal is one correctly rounded conversion of its text')
    run.rule('C01.R6', 'postfix % = /100 through a 15-significant-digit normaliser; blank is int 0')
    init_text_helpers(rt)
    forms = run.guard('C01.R1', _forms, run, src, g, em)
    if not forms:
        run.error('C01.R1', 'no emission forms could be extracted from ExpressionTokenTranslator')
        return INFO
    _cached_guard(run, 'C01.R1', r1, src, g, em, forms)
    _cached_guard(run, 'C01.R2', r2, src, g, em)
    _cached_guard(run, 'C01.R4', r3_r4, src, g, em, forms, run.tier)
    _cached_guard(run, 'C01.R5', r5, src, g, em)
    _cached_guard(run, 'C01.R6', r6, src, g, em, rt, forms)
    # the six comparisons are part of this property: exactness of the comparison helper is C10.R1/R2, shared here
    from .common import borrow
    from . import c10
    run.rule('C01.R7', 'comparison operators: no lossy coercion before comparing and operator table of the runtime (shared with C10.R1/R2)')
    borrow(run, 'C01.R7', c10.r1_r4, rt, only_rules={'C10.R1'})
    borrow(run, 'C01.R7', c10.r2, src, rt)
    borrow(run, 'C01.R7', c10.r9_concrete_operands, rt)
    from . import lexer_eval
    _cached_guard(run, 'C01.R5', lexer_eval.number_literal_obligations, 'C01.R5', src, g)
    # operand values: a reference operand is resolved for the cell that holds the formula, an override reaches the instance
    from . import c02, c04
    run.rule('C01.R8', 'operand values: the tree is parsed for its own cell (shared with C02.R8); every override batch is stored and '
                       'flushed, the formula only runs on an override miss (shared with C04.R1/R2)')
    borrow(run, 'C01.R8', c02.r8_fresh_parse, src)
    borrow(run, 'C01.R8', c04.r1, src, rt)
    borrow(run, 'C01.R8', c04.r2, rt)
    run.floor('C01.R8', 10)
    run.floor('C01.R7', 100)
    run.floor('C01.R1', 13)
    run.floor('C01.R2', 2)
    run.floor('C01.R3', 4)
    run.floor('C01.R4', 20)
    run.floor('C01.R5', 2)
    run.floor('C01.R6', 5)
    from .common import shared_mechanisms as _shared
    _shared(run, 'C01', 10, ['stored-values', 'addresses'])
    from .common import shared_mechanisms as _shared_f
    _shared_f(run, 'C01', 12, ['formulas', 'facade'])
    return INFO
