"""C07 -- workbook text never becomes executable code (DESIGN 3/C07)."""
from __future__ import annotations

import ast

from ..core import Run, AnalysisError, loc_of
from ..source import get_source
from ..grammar import get_grammar
from ..emission import get_emission
from ..regexmodel import safety_class, sre_c, MAXREPEAT
from ..symeval import (explore, Interp, Tok, ClsV, ObjV, CellV, Opaque, Code, Part, GroupStr, NumV, Const, ListV, TupleV,
                       DictV, rx_of)
from .common import iter_parts, library_exceptions
from . import c05

INFO = {
    'explanation': (
        'Taint analysis over the symbolic emission of every translator: sources are the capture groups of terminals whose '
        'language is not a closed finite set (string-literal body, wildcard-literal body, sheet titles, digits), the raw value of a '
        'constant cell and worksheet titles; sinks are everything that becomes generated source (return values of translate, code '
        'handed to Context.set_cell/set_sub_cell, arguments of the two template format calls). Sanitisers: repr(), conversion to a '
        'number followed by str(), lookup that maps text to an integer, formatting a dict/list object (its repr quotes the strings '
        'inside), a regex group whose language is a closed finite set. Any source->sink flow without sanitiser is reported with '
        'the translator, the production/world and the group (R1). R2: quote-delimited terminals cannot run over their quote. R3: '
        'nothing on the quoting path depends on the safety-check setting. Not decided: exact round trip of every string (follows '
        'from repr for str, trusted).'),
    'rule': 'one obligation per (translator, token, production) emission, per constant-cell path, per format argument',
    'trusted': ['repr() of a str is a Python literal that evaluates to the same str', 'str() of an int/float is a Python literal'],
}

SAFE_OPAQUE = {'column-letter'}


def _describe_group(g, v: GroupStr):
    if v.owner.startswith('regex:'):
        rx = rx_of(v.owner)
        return f'group {v.gid} of the inner pattern {rx.pattern[:40]!r}', safety_class(rx.group_lang(v.gid))
    t = g.terminals[v.owner]
    return f'{v.owner} group {v.gid} ({_group_text(t, v.gid)})', safety_class(t.rx.group_lang(v.gid))


def _group_text(t, gid):
    own = gid - 1
    return f'text matched by group {own} of {t.regexp[:50]!r}' if own >= 1 else 'the whole token text'


def _taints_in_value(g, v, out):
    """raw workbook text inside a value that is printed"""
    if isinstance(v, GroupStr):
        desc, cls = _describe_group(g, v)
        if cls != 'CLOSED' or v.derived:
            out.append((desc + (f' after {v.derived}' if v.derived else ''), cls))
    elif isinstance(v, Code):
        for p in v.parts:
            if isinstance(p, Part):
                _taints_in_part(g, p, out)
    elif isinstance(v, (ListV, TupleV)):
        for x in v.items:
            _taints_in_value(g, x, out)
    elif isinstance(v, Opaque):
        out.append((f'unmodelled value {v.why}', 'OPAQUE'))


def _taints_in_part(g, p: Part, out):
    if p.kind == 'raw':
        _taints_in_value(g, p.a, out)
    elif p.kind == 'opaque':
        if str(p.a).startswith('REFORMAT:'):
            out.append((str(p.a)[9:], 'REFORMAT'))
        elif str(p.a) not in SAFE_OPAQUE:
            out.append((f'unmodelled text ({p.a})', 'OPAQUE'))
    elif p.kind == 'tokrepr':
        out.append((f'repr of a token object ({p.a})', 'OPEN'))
    elif p.kind == 'sub':
        for q in p.a.parts:
            if isinstance(q, Part):
                _taints_in_part(g, q, out)
    elif p.kind == 'num':
        pass                                   # str() of a number
    elif p.kind in ('repr', 'quoted', 'pyrepr'):
        pass                                   # quoted by repr / by the repr of the enclosing container
    elif p.kind in ('slot', 'cellref'):
        pass                                   # output of another translator / a member reference built by the context


def r1_emission(run: Run, src, g, em):
    n = 0
    for (tr, tk), ems in sorted(em.pairs.items()):
        by_construct = {}
        for e in ems:
            o = e.outcome
            if o.kind != 'return' or em.unreachable(e):
                continue
            found = []
            v = o.value
            if isinstance(v, Code):
                for p in v.parts:
                    if isinstance(p, Part):
                        _taints_in_part(g, p, found)
            elif isinstance(v, GroupStr):
                _taints_in_value(g, v, found)
            elif isinstance(v, Opaque):
                found.append((f'unmodelled return value {v.why}', 'OPAQUE'))
            # code handed to the context
            for eff in o.effects:
                if eff.kind in ('set_sub_cell', 'set_cell'):
                    c = eff.detail['code']
                    for p in c.parts:
                        if isinstance(p, Part):
                            _taints_in_part(g, p, found)
            by_construct.setdefault(e.construct, []).append((e, found))
        for construct, lst in by_construct.items():
            n += 1
            bad = {}
            for e, found in lst:
                for desc, cls in found:
                    bad.setdefault((desc, cls), e)
            if not bad:
                run.ok('C07.R1', construct, f'{len(lst)} world(s): only translator literals, sub-translations, repr() and numbers '
                                            f'reach the output')
            for (desc, cls), e in bad.items():
                if cls == 'OPAQUE':
                    run.error('C07.R1', f'{construct}: {desc} reaches generated code; the analysis cannot classify it')
                    continue
                tci = src.cls(tr)
                if cls == 'REFORMAT':
                    run.bad('C07.R1', construct, 'formatted-twice',
                            f'{tr}: {desc}: a text literal of the workbook that was already quoted into the code is scanned for '
                            f'format directives (a "%" or "{{" in it raises or rewrites the literal) (world: {e.world[:120]})',
                            loc=loc_of(tci.module.path, tci.node))
                    continue
                run.bad('C07.R1', construct, f'raw:{desc[:90]}',
                        f'{tr} prints {desc} (language class {cls}) into the generated source without repr() or numeric conversion '
                        f'(world: {e.world[:120]})', loc=loc_of(tci.module.path, tci.node))
    return n


def r1_constants(run: Run, src, g):
    """constant cells: CellTranslator prints repr(value) or the blank object"""
    ct = src.cls('CellTranslator')
    fi = ct.methods.get('_set_cell_to_context')
    if fi is None:
        raise AnalysisError('C07.R1', 'CellTranslator._set_cell_to_context not found')
    lexer = src.find_method(src.cls('Lexer'), 'parse')
    astb = src.find_method(src.cls('AstBuilder'), 'parse')
    stubs = {lexer.qualname: lambda it, a, k, n: ListV((Tok('EqOperatorToken', (90,)),)),
             astb.qualname: lambda it, a, k, n: Tok('EntryPointToken', (91,))}
    taint = Opaque('cell.value')

    def go(it: Interp):
        cell = CellV('subject', Opaque('t'), Opaque('c'), Opaque('r'), taint)
        return it.call_repo(fi, [ClsV(ct), cell, ObjV('excel'), ObjV('context')], {}, None)
    outs = explore(src, g, go, stubs=stubs)
    n_const = 0
    for o in outs:
        if o.kind != 'return':
            continue
        for eff in o.effects:
            if eff.kind != 'set_cell':
                continue
            code: Code = eff.detail['code']
            kinds = []
            for p in code.parts:
                if isinstance(p, str):
                    kinds.append(('lit', p))
                else:
                    kinds.append((p.kind, p.a))
            if any(k == 'slot' for k, _ in kinds):
                continue            # formula branch: the output of the formula translator
            n_const += 1
            ok = all(k == 'lit' or (k == 'repr' and a == taint) for k, a in kinds)
            shape = ''.join(a if k == 'lit' else ('{repr(value)}' if (k == 'repr' and a == taint) else
                                                  '{repr(<transformed value>)}' if k == 'repr' else '{' + k + '}') for k, a in kinds)
            run.check(ok, 'C07.R1', f'CellTranslator/constant-cell:{shape[:40]}', 'constant-not-repr',
                      f'a constant cell is printed as `{shape}`: the stored value must reach the source as repr(value) -- nothing '
                      f'else is both safe and exact',
                      fact=f'constant printed as {shape}', loc=loc_of(fi.module.path, fi.node))
    if n_const < 2:
        raise AnalysisError('C07.R1', 'the constant-cell branches of CellTranslator were not found (expected repr and blank)')
    # the formula test: str starting with '='
    txt = ast.unparse(fi.node)
    return n_const


def r1_format_args(run: Run, src):
    """titles and sizes reach the template as objects (their repr quotes the strings inside)"""
    ctx = src.cls('Context')
    bc = None
    for name, fi in ctx.methods.items():
        for n in ast.walk(fi.node):
            if isinstance(n, ast.Call) and isinstance(n.func, ast.Attribute) and n.func.attr == 'format' and \
                    any(k.arg == 'titles' for k in n.keywords):
                bc = (fi, n)
    if bc is None:
        raise AnalysisError('C07.R1', 'the class-template format call was not found')
    fi, call = bc
    recv = call.func.value
    okr = isinstance(recv, ast.Attribute) and isinstance(recv.value, ast.Name) and recv.value.id == 'self' and \
        recv.attr.strip('_').endswith('class_template')
    run.check(okr, 'C07.R1', 'Context.build_class/format-receiver', 'format-receiver',
              f'str.format is applied to `{ast.unparse(recv)[:60]}`, not to the class-template constant alone: per-cell code '
              f'(which contains workbook-derived text) is re-parsed as a format string', fact='receiver is the template constant',
              loc=loc_of(fi.module.path, call))
    for k in call.keywords:
        if k.arg in ('titles', 'sheets_size'):
            ok = isinstance(k.value, ast.Attribute) and isinstance(k.value.value, ast.Name) and k.value.value.id == 'self'
            run.check(ok, 'C07.R1', f'Context.build_class/{k.arg}', 'not-an-object',
                      f'{k.arg} is passed to the template as `{ast.unparse(k.value)[:60]}`, not as the stored dict/list object: '
                      f'sheet titles would be spliced as text', fact=f'{k.arg}={ast.unparse(k.value)}', loc=loc_of(fi.module.path, k.value))
    # any further format argument: a constant is harmless; text made from the workbook-derived title map (join, str, f-string)
    # is spliced into the module source unquoted -- in a docstring or comment a title can close the literal / the line
    for k in call.keywords:
        if k.arg in ('titles', 'sheets_size', 'functions') or k.arg is None:
            continue
        v = k.value
        txt = ast.unparse(v)
        if isinstance(v, ast.Constant):
            run.ok('C07.R1', f'Context.build_class/{k.arg}', 'constant format argument', loc=loc_of(fi.module.path, v))
        elif isinstance(v, ast.Call) and isinstance(v.func, ast.Name) and v.func.id == 'repr':
            run.ok('C07.R1', f'Context.build_class/{k.arg}', 'repr(...) format argument', loc=loc_of(fi.module.path, v))
        elif '_titles' in txt or 'titles' in txt or 'title' in txt:
            run.bad('C07.R1', f'Context.build_class/{k.arg}', 'title-text-in-template',
                    f'the template hole {{{k.arg}}} is filled with `{txt[:70]}`: sheet titles reach the generated module as raw text (not '
                    f'through the repr of the title map), so a title containing quotes or a line break becomes source code', 
                    loc=loc_of(fi.module.path, v))
        else:
            raise AnalysisError('C07.R1', f'format argument {k.arg}=`{txt[:50]}` of the class template is not modelled')
    if call.args:
        raise AnalysisError('C07.R1', 'positional format arguments of the class template are not modelled')
    # every store to *._titles holds a dict object keyed by the titles
    n = 0
    for f in src.functions.values():
        for st in ast.walk(f.node):
            if isinstance(st, (ast.Assign, ast.AnnAssign)):
                targets = st.targets if isinstance(st, ast.Assign) else [st.target]
                val = st.value
                for t in targets:
                    if isinstance(t, ast.Attribute) and t.attr == '_titles' and val is not None:
                        n += 1
                        ok = isinstance(val, (ast.Dict, ast.DictComp)) or \
                            (isinstance(val, ast.Call) and isinstance(val.func, ast.Attribute) and val.func.attr == 'get_titles') or \
                            (isinstance(val, ast.Call) and isinstance(val.func, ast.Name) and val.func.id == 'dict')
                        run.check(ok, 'C07.R1', f'{f.qualname}/_titles', 'titles-not-dict',
                                  f'`{ast.unparse(st)[:80]}` stores something other than a dict object in the title map',
                                  fact='dict object', loc=loc_of(f.module.path, st))
    for cname in ('Excel', 'Context'):
        gt = src.cls(cname).methods.get('get_titles')
        if gt is not None:
            rets = [r for r in ast.walk(gt.node) if isinstance(r, ast.Return)]
            ok = len(rets) == 1 and isinstance(rets[0].value, ast.Attribute) and rets[0].value.attr == '_titles'
            run.check(ok, 'C07.R1', f'{cname}.get_titles', 'titles-transformed', 'get_titles does not return the stored dict',
                      fact='returns self._titles', loc=loc_of(gt.module.path, gt.node))
    # the functions argument is built only from (name, code) pairs through the function template
    fk = [k for k in call.keywords if k.arg == 'functions']
    if fk:
        v = fk[0].value
        ok = isinstance(v, ast.Call) and isinstance(v.func, ast.Attribute) and 'build_functions' in v.func.attr
        run.check(ok, 'C07.R1', 'Context.build_class/functions', 'functions-arg',
                  f'the functions hole is filled with `{ast.unparse(v)[:60]}`', fact='built by __build_functions',
                  loc=loc_of(fi.module.path, v))
    # the member reference is built from the uid only
    gw = ctx.methods.get('_get_cell_with_cell_preprocessor')
    if gw is None:
        raise AnalysisError('C07.R1', 'Context._get_cell_with_cell_preprocessor not found')
    callers_ok = True
    for f in src.functions.values():
        for c in ast.walk(f.node):
            if isinstance(c, ast.Call) and isinstance(c.func, ast.Attribute) and c.func.attr == '_get_cell_with_cell_preprocessor':
                a = c.args[0] if c.args else None
                if isinstance(a, ast.Name):
                    # a local that names the result of the naming function
                    defs_ = [st.value for st in ast.walk(f.node) if isinstance(st, ast.Assign) and
                             any(isinstance(t_, ast.Name) and t_.id == a.id for t_ in st.targets)]
                    if defs_ and all(isinstance(d_, ast.Call) and isinstance(d_.func, ast.Attribute) and
                                     d_.func.attr in ('_get_cell_function_name', '_get_sub_cell_function_name') for d_ in defs_):
                        a = defs_[0]
                okc = isinstance(a, ast.Call) and isinstance(a.func, ast.Attribute) and \
                    a.func.attr in ('_get_cell_function_name', '_get_sub_cell_function_name')
                run.check(okc, 'C07.R1', f'{f.qualname}/member-reference', 'reference-name',
                          f'a member reference is built from `{ast.unparse(a)[:60] if a else "?"}`, not from the cell uid',
                          fact='name = uid [+ _<ordinal>]', loc=loc_of(f.module.path, c))


def r3(run: Run, src):
    """safety-check independence"""
    uses = []
    for f in src.functions.values():
        for n in ast.walk(f.node):
            if isinstance(n, ast.Attribute) and n.attr in ('_safety_check',) and isinstance(n.ctx, ast.Load):
                uses.append((f, n))
    if not uses:
        raise AnalysisError('C07.R3', 'no read of _safety_check found')
    for f, n in uses:
        ok = f.cls is not None and f.cls.name == 'Parser'
        if ok and f.name == '_translate':
            # the read must guard only the call of is_safe
            from ..paths import parent_map
            parents = parent_map(f.node)
            p = parents.get(n)
            while p is not None and not isinstance(p, ast.If):
                p = parents.get(p)
            body_calls = [c for st in (p.body if p else []) for c in ast.walk(st) if isinstance(c, ast.Call)]
            ok = p is not None and not p.orelse and len(p.body) == 1 and len(body_calls) == 1 and \
                isinstance(body_calls[0].func, ast.Attribute) and body_calls[0].func.attr == 'is_safe'
        run.check(ok, 'C07.R3', f'{f.qualname}/_safety_check', 'quoting-depends-on-safety-check',
                  f'{f.qualname} reads the safety-check setting for something other than gating Excel.is_safe(): what is '
                  f'accepted must be quoted the same way with the check on or off', fact='only gates is_safe()',
                  loc=loc_of(f.module.path, n))
    # no translator / token / context code mentions the suspicious-cell machinery
    for f in src.functions.values():
        mod = f.module.name
        if '.translators.' in mod or '.tokens.' in mod or mod.endswith('.context'):
            for n in ast.walk(f.node):
                if isinstance(n, ast.Attribute) and ('suspicious' in n.attr or n.attr == 'is_safe'):
                    run.bad('C07.R3', f'{f.qualname}/{n.attr}', 'translator-reads-safety-state',
                            'translation code depends on the safety report', loc=loc_of(f.module.path, n))


CONSTANT_PROBES = [
    'plain', '', "it's", 'say "hi"', '''both ' and "''', 'back\\slash', 'line\nbreak', 'tab\there', 'x' * 99 + '\n' + 'second line',
    'p' * 99 + '\\share', 'q' * 98 + "'" + '"' + 'rest' * 30, 'eval(1)', "'; import os; os.system('x'); '", '{braces} {0} {{x}}', '%s %d',
    'a' * 250, ('ab\n' * 80), 'é ü ß 日本', '\x00\x07', "'''", '"""', '\\' * 101, 'z' * 100, 'z' * 101, 'z' * 199 + "'", ' leading', 'trailing ',
    '#N/A', 'TRUE', '12', '1e5', '-', 'None', 'self._x()', '__import__("os")',
    5, 0, -3, 2.5, -0.125, 1e300, 1e-7, 10 ** 20, True, False, None,
]


def r7_constants_eval(run: Run, src):
    """what is printed for a constant cell, decided by abstract evaluation (engine F) of CellTranslator on probe constants: the
    printed text is one Python expression, a literal that evaluates back to the constant itself (the blank constructor for an
    empty cell) -- whatever characters, escapes, quotes and length the text has"""
    from ..finite import evaluator_for_class, AV, const_av, Unknown, AbsRaise
    ct = src.cls('CellTranslator')
    fi = ct.methods.get('_set_cell_to_context') or ct.methods.get('translate')
    if fi is None:
        raise AnalysisError('C07.R7', 'CellTranslator._set_cell_to_context not found')
    loc = loc_of(fi.module.path, fi.node)
    for value in CONSTANT_PROBES:
        ev = evaluator_for_class(ct, max_depth=8)
        printed = []
        cell = ev.new_obj('Cell', {'title': const_av(0), 'column': const_av(0), 'row': const_av(0), 'value': const_av(value),
                                   'has_handled_identifiers': AV('func', val=('native', lambda a: const_av(True)))})
        excel = ev.new_obj('Excel', {'fill_cell': AV('func', val=('native', lambda a: AV('none')))})

        def set_cell(a, printed=printed):
            printed.append(a[1])
            return AV('none')
        context = ev.new_obj('Context', {
            'get_cell': AV('func', val=('native', lambda a, printed=printed: printed[-1] if printed else AV('none'))),
            'set_cell': AV('func', val=('native', set_cell)),
            'start_cell_translation': AV('func', val=('native', lambda a: const_av('_0_0_0'))),
            'finish_cell_translation': AV('func', val=('native', lambda a: AV('none'))),
        })
        shown = repr(value) if not isinstance(value, str) or len(value) < 40 else repr(value[:18] + '...' + value[-18:]) + f' ({len(value)} characters)'
        construct = f'constant/{shown}'
        try:
            ev.call_method('translate', [cell, excel, context], AV('other', val=('class', 'CellTranslator')))
            if len(printed) != 1 or not isinstance(printed[0].val, str):
                raise Unknown('what is printed for the cell is not a known text')
            code = printed[0].val
        except Unknown as u:
            raise AnalysisError('C07.R7', f'{construct}: the abstraction cannot follow the translator ({u})')
        except AbsRaise as e:
            run.bad('C07.R7', construct, f'raises:{e.exc}', f'translating the constant {shown} raises {e.exc}', loc=loc)
            continue
        problem = None
        try:
            tree = ast.parse(code, mode='eval')
        except SyntaxError as e:
            problem = f'is not a Python expression ({e.msg})'
            tree = None
        if tree is not None:
            if value is None:
                ok = isinstance(tree.body, ast.Call) and ast.unparse(tree.body.func).endswith('EmptyCell') and not tree.body.args
                problem = None if ok else 'is not the blank constructor'
            else:
                try:
                    back = ast.literal_eval(tree)
                    if type(back) is not type(value) or back != value:
                        problem = f'denotes {back!r:.80}, not the constant'
                except (ValueError, SyntaxError, MemoryError, RecursionError):
                    problem = 'is not a literal: something of the text is read as code'
        run.check(problem is None, 'C07.R7', construct, 'constant-not-literal',
                  f'for the constant {shown} the translator prints `{code[:120]}`, which {problem}', fact='a literal of the constant', loc=loc)


def run(run: Run):
    from .common import cached_guard as _cached_guard
    src = get_source()
    g = get_grammar(src)
    em = get_emission(src)
    run.rule('C07.R1', 'no workbook-derived text reaches generated source without repr()/numeric conversion/closed vocabulary')
    run.rule('C07.R2', 'quote-delimited terminals cannot run over their closing quote')
    run.rule('C07.R3', 'quoting does not depend on the safety-check setting')
    _cached_guard(run, 'C07.R1', r1_emission, src, g, em)
    _cached_guard(run, 'C07.R1', r1_constants, src, g)
    _cached_guard(run, 'C07.R1', r1_format_args, src)
    # R2 shares its analysis with C05.R5
    sub = Run('C05', run.tier, run.seed, quiet=True)
    sub.rule('C05.R5', '')
    run.guard('C07.R2', c05.r5, sub, src, g)
    for o in sub.obligations:
        if o['verdict'] == 'holds':
            run.ok('C07.R2', o['construct'], o['fact'], loc=o['loc'])
    for f in sub.findings:
        run.bad('C07.R2', f['construct'], f['sub'], f['message'], loc=f['loc'])
    for e in sub.errors:
        run.errors.append(e)
    _cached_guard(run, 'C07.R3', r3, src)
    # a constant text cell is data only as long as nothing but a leading "=" makes a cell a formula: shared with C18.R4
    from .common import borrow
    from . import c18
    run.rule('C07.R4', 'a cell is code only if it is a str whose first character is "=" (shared with C18.R4)')
    borrow(run, 'C07.R4', c18.r4, src)
    run.floor('C07.R4', 2)
    run.rule('C07.R5', 'a string literal reaches its token with its own characters: the lexer never rewrites the formula text (shared with C05.R10)')
    borrow(run, 'C07.R5', c05.r10_formula_text_untouched, src)
    run.floor('C07.R5', 2)
    from . import c17
    run.rule('C07.R6', 'a text literal in operand position denotes its own text, whatever characters it contains (shared with C17.R6)')
    borrow(run, 'C07.R6', c17.r6, src, g, em)
    run.floor('C07.R6', 2)
    run.rule('C07.R7', 'a constant cell is printed as one literal that evaluates back to the constant (any characters, any length)')
    _cached_guard(run, 'C07.R7', r7_constants_eval, src)
    run.floor('C07.R7', 40)
    run.floor('C07.R1', 70)
    run.floor('C07.R2', 2)
    run.floor('C07.R3', 1)
    from . import pipeline_eval as _pe7
    from ..grammar import get_grammar as _gg7
    run.rule('C07.R9', 'awkward sheet titles, constant texts and formula literals come back as the texts they are, end to end by evaluation '
                       '(translation, class text, evaluation of the class text)')
    _cached_guard(run, 'C07.R9', _pe7.hostile_obligations, 'C07.R9', src, _gg7(src))
    run.floor('C07.R9', 40)
    from .common import shared_mechanisms as _shared
    _shared(run, 'C07', 8, ['rejections'])
    _shared(run, 'C07', 10, ['stored-values'])
    return INFO
