"""C16 -- rounding and percent (DESIGN 3/C16).

That each result is the nearest double of the exact decimal is a claim about binary floating point on a dense domain and is
NOT decided.  Decided is the rounding MODE each helper can possibly implement -- which follows from the primitives its result
flows through and from how the sign is handled --, the decimal basis of the computation, the sign of the digit count in the
quantum, that every result depends on the digit count, the percent normaliser, plumbing and defaults.
"""
from __future__ import annotations

import ast

from ..core import Run, AnalysisError, loc_of
from ..source import get_source
from ..grammar import get_grammar
from ..emission import get_emission
from ..runtime import get_runtime
from ..paths import parent_map, path_conditions
from .common import check_plumbing

INFO = {
    'explanation': (
        'Decided: R1 rounding-mode classification of _round/_roundup/_rounddown (both copies) per sign class of the number: the '
        'path from `number` to each return is followed through builtin round (half-even on binary), math.ceil (toward +inf), '
        'math.floor (toward -inf), trunc/int (toward zero), Decimal.quantize(rounding=M), negation, abs, copysign and branches on '
        'the sign; required: ROUND half away from zero, ROUNDUP away from zero, ROUNDDOWN toward zero, for negative and positive '
        'numbers. R2 decimal basis: a directed primitive applied to number * 10**n in binary, or a Decimal built from the binary '
        'value instead of a decimal rendering of at most 15 significant digits, exposes representation error; the quantum is '
        '10**(-digits). R3 percent = /100 through the 15-significant-digit normaliser (shared with C01.R6). R4 plumbing '
        'ROUND(number, digits), ROUNDUP/ROUNDDOWN digits default 0. R5 every returned value depends on the digit count (data or '
        'control): a result that ignores the digit count cannot be right for negative digit counts. NOT decided: nearest-double '
        'claims on concrete decimals (they follow from Decimal arithmetic, which is trusted).'),
    'rule': 'one obligation per (helper, copy, return path, sign class) / helper basis / plumbing form',
    'trusted': ['decimal.Decimal.quantize and its rounding modes', 'format(x, ".15g") renders 15 significant digits',
                'math.ceil/floor/trunc, builtin round (half-to-even)'],
}

REQUIRED = {'_round': 'half-away', '_roundup': 'away', '_rounddown': 'toward-zero'}
DECIMAL_MODES = {'ROUND_HALF_UP': 'half-away', 'ROUND_UP': 'away', 'ROUND_DOWN': 'toward-zero', 'ROUND_HALF_EVEN': 'half-even',
                 'ROUND_CEILING': '+inf', 'ROUND_FLOOR': '-inf', 'ROUND_HALF_DOWN': 'half-toward-zero', 'ROUND_05UP': '05up'}
FUNCS = ['ROUND', 'ROUNDUP', 'ROUNDDOWN']


class Unmodelled(Exception):
    pass


def _names(node):
    return {n.id for n in ast.walk(node) if isinstance(n, ast.Name)}


def _callname(c: ast.Call) -> str:
    return ast.unparse(c.func)


class Flow:
    """abstract value of an expression relative to the parameter `number` = x:
       ('x', sigma, rounded, basis)  -- sigma*x up to a positive scale; rounded = None or a mode name relative to x's sign class
       ('pos',)                      -- a positive quantity independent of x (scale factor, quantum)
       ('other',)                    -- independent of x
    """


def classify(expr, number: str, digits: str, env: dict, sign: str, notes: dict):
    """returns (kind, sigma, mode, basis); mode is relative to zero for the sign class `sign` ('pos' | 'neg')"""
    def rel(direction: str, sigma: int) -> str:
        # direction of rounding of the value v = sigma * x, expressed for x
        if direction in ('half-even', 'half-away', 'away', 'toward-zero', 'half-toward-zero', '05up'):
            return direction                     # symmetric modes are unchanged by negation
        up = direction == '+inf'
        if sigma < 0:
            up = not up                          # ceil(-x) = -floor(x)
        x_positive = sign == 'pos'
        return 'away' if up == x_positive else 'toward-zero'

    def ev(e):
        if isinstance(e, ast.Name):
            if e.id == number:
                return ('x', 1, None, 'binary')
            if e.id in env:
                return ev(env[e.id])
            return ('other', 0, None, None)
        if isinstance(e, ast.Constant):
            return ('other', 0, None, None)
        if isinstance(e, ast.UnaryOp) and isinstance(e.op, ast.USub):
            k = ev(e.operand)
            return (k[0], -k[1], k[2], k[3]) if k[0] == 'x' else k
        if isinstance(e, ast.IfExp):
            t = _sign_test(e.test, number)
            if t is None:
                raise Unmodelled(f'condition `{ast.unparse(e.test)}`')
            return ev(e.body if t[sign] else e.orelse)
        if isinstance(e, ast.BinOp):
            a, b = ev(e.left), ev(e.right)
            if isinstance(e.op, (ast.Mult, ast.Div, ast.Pow)) and a[0] == 'x' and b[0] != 'x':
                # scale by a factor independent of x: positive factors keep the orientation (10**n, a quantum);
                # a sign variable (-1 if x < 0 else 1) is resolved by the IfExp case
                if isinstance(e.op, ast.Pow):
                    raise Unmodelled('power of the number')
                sig = _const_sign(e.right, env, number, sign)
                if a[2] is None and isinstance(e.op, (ast.Mult,)) and a[3] == 'binary':
                    notes['binary-scaling'] = ast.unparse(e)
                return ('x', a[1] * sig, a[2], a[3])
            if isinstance(e.op, ast.Mult) and b[0] == 'x' and a[0] != 'x':
                sig = _const_sign(e.left, env, number, sign)
                if b[2] is None and b[3] == 'binary':
                    notes['binary-scaling'] = ast.unparse(e)
                return ('x', b[1] * sig, b[2], b[3])
            if a[0] != 'x' and b[0] != 'x':
                return ('other', 0, None, None)
            raise Unmodelled(f'arithmetic `{ast.unparse(e)[:60]}`')
        if isinstance(e, ast.Call):
            fn = _callname(e)
            args = e.args
            if fn in ('float', 'int') and fn == 'float' and len(args) == 1:
                return ev(args[0])
            if fn in ('abs', 'math.fabs', 'fabs') and len(args) == 1:
                k = ev(args[0])
                if k[0] != 'x':
                    return k
                return ('x', 1 if sign == 'pos' else -1, k[2], k[3])     # |x| = x for x > 0, -x for x < 0
            if fn in ('copysign', 'math.copysign') and len(args) == 2:
                k = ev(args[0])
                s2 = ev(args[1])
                if k[0] == 'x' and s2[0] == 'x':
                    # magnitude of k with the sign of x
                    return ('x', 1, k[2], k[3])
                raise Unmodelled('copysign')
            if fn in ('round',) and args:
                k = ev(args[0])
                if k[0] != 'x':
                    return k
                if k[2] is not None:
                    raise Unmodelled('rounding applied twice')
                return ('x', k[1], 'half-even', k[3])
            if fn in ('ceil', 'math.ceil', 'floor', 'math.floor', 'trunc', 'math.trunc', 'int') and len(args) == 1:
                k = ev(args[0])
                if k[0] != 'x':
                    return k
                if k[2] is not None:
                    raise Unmodelled('rounding applied twice')
                direction = '+inf' if fn.endswith('ceil') else '-inf' if fn.endswith('floor') else 'toward-zero'
                return ('x', k[1], rel(direction, k[1]), k[3])
            if fn in ('Decimal', 'decimal.Decimal') and len(args) == 1:
                a0 = args[0]
                if isinstance(a0, ast.Call) and _callname(a0) in ('repr', 'str', 'format') or isinstance(a0, ast.JoinedStr):
                    k = ev(a0.args[0]) if isinstance(a0, ast.Call) else ev(a0.values[0].value) if a0.values and isinstance(
                        a0.values[0], ast.FormattedValue) else ('other', 0, None, None)
                    if k[0] != 'x':
                        return k
                    basis = 'decimal'
                    if isinstance(a0, ast.Call) and _callname(a0) == 'format':
                        spec = a0.args[1].value if len(a0.args) == 2 and isinstance(a0.args[1], ast.Constant) else None
                        basis = 'decimal:' + str(spec)
                    elif isinstance(a0, ast.JoinedStr):
                        fv = a0.values[0]
                        spec = ''.join(c.value for c in fv.format_spec.values if isinstance(c, ast.Constant)) if fv.format_spec else ''
                        basis = 'decimal:' + spec
                    else:
                        basis = 'decimal:' + _callname(a0)
                    return ('x', k[1], k[2], basis)
                k = ev(a0)
                if k[0] == 'x':
                    return ('x', k[1], k[2], 'decimal-of-binary')
                return k
            if isinstance(e.func, ast.Attribute) and e.func.attr == 'quantize':
                k = ev(e.func.value)
                if k[0] != 'x':
                    raise Unmodelled('quantize of something else')
                if k[2] is not None:
                    raise Unmodelled('rounding applied twice')
                mode = None
                cands = list(e.args[1:2]) + [kw.value for kw in e.keywords if kw.arg == 'rounding']
                for c in cands:
                    while isinstance(c, ast.Name) and c.id in env:
                        c = env[c.id]
                    nm = ast.unparse(c).split('.')[-1]
                    if nm in DECIMAL_MODES:
                        mode = DECIMAL_MODES[nm]
                    elif not (isinstance(c, ast.Call)):
                        raise Unmodelled(f'rounding mode `{ast.unparse(c)[:30]}`')
                if mode is None:
                    mode = 'half-even'            # the default context rounds half to even
                    notes['default-rounding'] = ast.unparse(e)[:60]
                notes['quantum'] = e.args[0] if e.args else None
                return ('x', k[1], rel(mode, k[1]), k[3])
            if fn in ('repr', 'str', 'format') and args:
                return ev(args[0])
            if isinstance(e.func, ast.Attribute) and isinstance(e.func.value, ast.Name) and e.func.value.id == 'self':
                raise Unmodelled(f'call of {fn}')
            ks = [ev(a) for a in args]
            if any(k[0] == 'x' for k in ks):
                raise Unmodelled(f'call of {fn} on the number')
            return ('other', 0, None, None)
        if isinstance(e, ast.JoinedStr):
            for v in e.values:
                if isinstance(v, ast.FormattedValue):
                    return ev(v.value)
            return ('other', 0, None, None)
        if isinstance(e, ast.Attribute):
            return ev(e.value) if number in _names(e) else ('other', 0, None, None)
        if number in _names(e):
            raise Unmodelled(f'expression {type(e).__name__}')
        return ('other', 0, None, None)
    return ev(expr)


def _sign_test(test, number):
    """{'pos': bool, 'neg': bool} for tests on the sign of `number`"""
    if isinstance(test, ast.Compare) and len(test.ops) == 1 and isinstance(test.left, ast.Name) and test.left.id == number and \
            isinstance(test.comparators[0], ast.Constant) and test.comparators[0].value == 0:
        op = type(test.ops[0])
        return {ast.Lt: {'pos': False, 'neg': True}, ast.LtE: {'pos': False, 'neg': True}, ast.Gt: {'pos': True, 'neg': False},
                ast.GtE: {'pos': True, 'neg': False}}.get(op)
    return None


def _const_sign(e, env, number, sign) -> int:
    """sign of a factor that does not depend on x's magnitude"""
    if isinstance(e, ast.Name) and e.id in env:
        return _const_sign(env[e.id], env, number, sign)
    if isinstance(e, ast.IfExp):
        t = _sign_test(e.test, number)
        if t is None:
            raise Unmodelled(f'condition `{ast.unparse(e.test)}`')
        return _const_sign(e.body if t[sign] else e.orelse, env, number, sign)
    if isinstance(e, ast.Constant) and isinstance(e.value, (int, float)):
        if e.value == 0:
            raise Unmodelled('scale by zero')
        return 1 if e.value > 0 else -1
    if isinstance(e, ast.UnaryOp) and isinstance(e.op, ast.USub):
        return -_const_sign(e.operand, env, number, sign)
    if isinstance(e, ast.BinOp) and isinstance(e.op, ast.Pow):
        return 1 if _const_sign(e.left, env, number, sign) > 0 else 1      # positive base ** anything > 0
    if isinstance(e, ast.Call) and _callname(e) in ('Decimal', 'float', 'int', 'decimal.Decimal') and e.args:
        return _const_sign(e.args[0], env, number, sign)
    if isinstance(e, ast.Call) and isinstance(e.func, ast.Attribute) and e.func.attr == 'scaleb':
        return _const_sign(e.func.value, env, number, sign)
    raise Unmodelled(f'factor `{ast.unparse(e)[:40]}`')


def _affine_digits(e, digits, env):
    """coefficient of the digit count in an exponent expression (int()/trunc() wrappers ignored)"""
    if isinstance(e, ast.Name):
        if e.id == digits:
            return 1
        if e.id in env:
            return _affine_digits(env[e.id], digits, env)
        return None
    if isinstance(e, ast.UnaryOp) and isinstance(e.op, ast.USub):
        k = _affine_digits(e.operand, digits, env)
        return None if k is None else -k
    if isinstance(e, ast.Call) and _callname(e) in ('int', 'trunc', 'math.trunc') and len(e.args) == 1:
        return _affine_digits(e.args[0], digits, env)
    return None


def _quantum_exponent(q, digits, env):
    """exponent (as a coefficient of the digit count) of a quantum expression 10**E"""
    if isinstance(q, ast.Name) and q.id in env:
        return _quantum_exponent(env[q.id], digits, env)
    if isinstance(q, ast.Call) and isinstance(q.func, ast.Attribute) and q.func.attr == 'scaleb' and len(q.args) == 1:
        base = q.func.value
        if isinstance(base, ast.Call) and _callname(base) in ('Decimal', 'decimal.Decimal') and len(base.args) == 1 and \
                isinstance(base.args[0], ast.Constant) and str(base.args[0].value) in ('1', '1.0'):
            return _affine_digits(q.args[0], digits, env)
    if isinstance(q, ast.BinOp) and isinstance(q.op, ast.Pow):
        base = q.left
        if isinstance(base, ast.Call) and _callname(base) in ('Decimal', 'decimal.Decimal') and len(base.args) == 1:
            base = base.args[0]
        if isinstance(base, ast.Constant) and str(base.value) in ('10', '10.0'):
            return _affine_digits(q.right, digits, env)
    return None


def _return_paths(fn):
    """[(return node, path conditions)]"""
    parents = parent_map(fn)
    out = []
    for r in ast.walk(fn):
        if isinstance(r, ast.Return) and r.value is not None:
            out.append((r, path_conditions(fn, r, parents)))
    return out


def _local_env(fn):
    env = {}
    for st in fn.body:
        if isinstance(st, ast.Assign) and len(st.targets) == 1 and isinstance(st.targets[0], ast.Name):
            env[st.targets[0].id] = st.value
    return env


def r1_r2_r5(run: Run, rt):
    for cp in rt.copies():
        for h, required in REQUIRED.items():
            fn = cp.members.get(h)
            if fn is None:
                run.bad('C16.R1', f'{h}[{cp.label}]', 'missing', f'helper {h} is missing', loc=cp.path)
                continue
            ps = [a.arg for a in fn.args.args if a.arg not in ('self', 'cls')]
            if len(ps) != 2:
                raise AnalysisError('C16.R1', f'{h}: expected (number, num_digits)')
            number, digits = ps
            env = _local_env(fn)
            # a helper that only delegates (`return self._shared(number, num_digits, MODE)`) is analysed through the shared
            # function, with the extra arguments (the rounding mode) bound to what this helper passes
            rets0 = [r for r in ast.walk(fn) if isinstance(r, ast.Return) and r.value is not None]
            if len(rets0) == 1 and isinstance(rets0[0].value, ast.Call) and isinstance(rets0[0].value.func, ast.Attribute) and \
                    isinstance(rets0[0].value.func.value, ast.Name) and rets0[0].value.func.value.id == 'self' and \
                    rets0[0].value.func.attr in cp.members and not rets0[0].value.keywords:
                call0 = rets0[0].value
                callee = cp.members[call0.func.attr]
                cps = [a.arg for a in callee.args.args if a.arg not in ('self', 'cls')]
                amap = dict(zip(cps, call0.args))
                num2 = [k for k, a in amap.items() if isinstance(a, ast.Name) and a.id == number]
                dig2 = [k for k, a in amap.items() if isinstance(a, ast.Name) and a.id == digits]
                if len(num2) == 1 and len(dig2) == 1 and len(amap) == len(cps):
                    env = _local_env(callee)
                    for k, a in amap.items():
                        if k not in (num2[0], dig2[0]):
                            env[k] = a
                    fn, number, digits = callee, num2[0], dig2[0]
            paths = _return_paths(fn)
            if not paths:
                raise AnalysisError('C16.R1', f'{h} has no return')
            for r, conds in paths:
                # R5: the result depends on the digit count, in its value or in the conditions of its path
                dep = set()
                stack = [r.value] + [t for t, _ in conds]
                seen = set()
                while stack:
                    e = stack.pop()
                    for nm in _names(e):
                        if nm in seen:
                            continue
                        seen.add(nm)
                        dep.add(nm)
                        if nm in env:
                            stack.append(env[nm])
                pinned_zero = any(pol and isinstance(t, ast.Compare) and len(t.ops) == 1 and isinstance(t.ops[0], ast.Eq) and
                                  ast.unparse(t.left) == number and isinstance(t.comparators[0], ast.Constant) and t.comparators[0].value == 0
                                  for t, pol in conds)
                where = ' and '.join(('' if pol else 'not ') + f'({ast.unparse(t)[:40]})' for t, pol in conds) or 'every call'
                run.check(digits in dep or pinned_zero, 'C16.R5', f'{h}[{cp.label}]/return `{ast.unparse(r.value)[:40]}`', 'ignores-digits',
                          f'{h} returns `{ast.unparse(r.value)[:60]}` when {where}: neither the value nor the condition looks at '
                          f'`{digits}`, so the result is the same for every digit count (a whole number still has to be rounded for a '
                          f'negative digit count)', fact=f'depends on {digits}', loc=cp.loc(r))
                if pinned_zero:
                    continue
                for sign in ('pos', 'neg'):
                    # skip paths that are infeasible for this sign class
                    feasible = True
                    for t, pol in conds:
                        st = _sign_test(t, number)
                        if st is not None and st[sign] != pol:
                            feasible = False
                    if not feasible:
                        continue
                    notes = {}
                    try:
                        kind, sigma, mode, basis = classify(r.value, number, digits, env, sign, notes)
                    except Unmodelled as u:
                        raise AnalysisError('C16.R1', f'{h}: {u} is outside the modelled rounding primitives')
                    construct = f'{h}[{cp.label}]/{"positive" if sign == "pos" else "negative"} numbers'
                    if kind != 'x':
                        if digits in dep:
                            raise AnalysisError('C16.R1', f'{h}: the returned value `{ast.unparse(r.value)[:50]}` does not derive from the number')
                        continue
                    if sigma != 1:
                        run.bad('C16.R1', f'{h}/{"positive" if sign == "pos" else "negative"} numbers', 'sign-flipped',
                                f'{h} returns a value of the opposite sign for {"positive" if sign == "pos" else "negative"} numbers',
                                loc=cp.loc(r))
                        continue
                    if mode is None:
                        # an unrounded return: wrong when it ignores the digit count (reported by R5); when the path is conditioned
                        # on the digit count (e.g. a whole number and digits >= 0) this classification cannot decide it
                        if digits in dep:
                            raise AnalysisError('C16.R1', f'{h} returns `{ast.unparse(r.value)[:40]}` unrounded on a path conditioned on '
                                                          f'`{digits}`: whether the value is already at that precision is not decidable here')
                        continue
                    if mode == required:
                        run.ok('C16.R1', construct, f'{mode}', loc=cp.loc(r))
                    else:
                        run.bad('C16.R1', f'{h}/{"positive" if sign == "pos" else "negative"} numbers', f'mode:{mode}',
                                f'{h} rounds {"positive" if sign == "pos" else "negative"} numbers {_words(mode)}; '
                                f'{h[1:].upper()} must round {_words(required)}', loc=cp.loc(r))
                    # R2: basis
                    if sign == 'pos':
                        c2 = f'{h}[{cp.label}]/basis'
                        if 'binary-scaling' in notes:
                            run.bad('C16.R2', f'{h}/binary scaling', 'binary-scaling',
                                    f'{h} scales the binary value (`{notes["binary-scaling"][:50]}`) before a rounding primitive: '
                                    f'0.07*100 is 7.000000000000001, 2.675*100 is 267.49999999999997', loc=cp.loc(r))
                        elif basis == 'binary':
                            run.bad('C16.R2', f'{h}/binary basis', 'binary-basis',
                                    f'{h} rounds the binary value: ties such as 2.675 or 0.125 are decided by representation error',
                                    loc=cp.loc(r))
                        elif basis == 'decimal-of-binary':
                            run.bad('C16.R2', f'{h}/Decimal(number)', 'decimal-of-binary',
                                    f'{h} converts the double to its exact binary expansion (Decimal(number)): 2.675 becomes '
                                    f'2.67499999999999982236431605997495353221893310546875 and ROUND(2.675, 2) gives 2.67', loc=cp.loc(r))
                        elif basis and basis.startswith('decimal:'):
                            spec = basis.split(':', 1)[1]
                            ok = spec in ('.15g', 'repr', 'str')
                            run.check(ok, 'C16.R2', c2, f'decimal-digits:{spec}',
                                      f'{h} rounds the rendering `{spec}` of the number, which does not keep the (up to) 15 significant '
                                      f'decimal digits the number was written with', fact=f'decimal rendering {spec}', loc=cp.loc(r))
                        else:
                            raise AnalysisError('C16.R2', f'{h}: unknown basis {basis}')
                        q = notes.get('quantum')
                        if q is not None:
                            k = _quantum_exponent(q, digits, env)
                            if k is None:
                                raise AnalysisError('C16.R2', f'{h}: unmodelled quantum `{ast.unparse(q)[:50]}`')
                            run.check(k == -1, 'C16.R2', f'{h}[{cp.label}]/quantum', 'quantum-sign',
                                      f'{h} quantizes to `{ast.unparse(q)[:50]}` = 10**({k:+d}*{digits}); n digits after the decimal point '
                                      f'is the quantum 10**(-n)', fact=f'10**(-{digits})', loc=cp.loc(r))
                        if 'default-rounding' in notes:
                            run.note(f'{h}: quantize without an explicit rounding mode (context default = half-even)')


ROUND_CASES = [
    (2.5, 0), (-2.5, 0), (3.5, 0), (0.5, 0), (1.5, 0), (2.4, 0), (2.6, 0), (-2.4, 0), (-2.6, 0), (1.005, 2), (2.675, 2), (1.045, 2),
    (0.285, 2), (3.14, 2), (3.14, 5), (3.14159, 3), (0.1, 1), (0.3, 1), (2.999, 2), (-3.14159, 2), (123.456, -1), (125, -1), (-125, -1),
    (1250, -2), (149.9, -2), (0, 0), (0, 2), (7, 0), (7, 3), (1e-7, 3), (123456.789, 2), (1234567890.1234, 6), (99.995, 2), (-0.5, 0),
    (0.000123456, 8), (5.55, 1), (1.15, 1), (1e15, 0), (1e20, 2), (8.04, 1), (2.5, 0.9), (2.55, 1.7), (True, 0),
]


def excel_round(x, d, mode):
    from decimal import Decimal, Context
    shown = Decimal(format(float(x), '.15g'))
    return float(shown.quantize(Decimal(1).scaleb(-int(d)), mode, Context(prec=800)))


def r1_eval(run: Run, rt):
    """ROUND / ROUNDUP / ROUNDDOWN decided by abstract evaluation (engine F; decimal arithmetic is done by the standard library
    on concrete numbers): the number as Excel shows it (15 significant digits) is rounded in decimal at the requested position --
    half away from zero, away from zero, towards zero --, for positive, negative and zero digit counts"""
    import decimal
    from ..finite import evaluator_for, const_av, Unknown, AbsRaise
    modes = {'_round': decimal.ROUND_HALF_UP, '_roundup': decimal.ROUND_UP, '_rounddown': decimal.ROUND_DOWN}
    for cp in rt.copies():
        for h, mode in modes.items():
            fn = cp.members.get(h)
            if fn is None:
                run.bad('C16.R1', f'{h}[{cp.label}]', 'missing', f'helper {h} is missing', loc=cp.path)
                continue
            for x, d in ROUND_CASES:
                want = excel_round(x, d, mode)
                ev = evaluator_for(cp, max_depth=6)
                construct = f'{h}[{cp.label}]/{x!r},{d!r}'
                try:
                    res = ev.call_method(h, [const_av(x), const_av(d)])
                    got = res.val if isinstance(res.val, (int, float)) and not isinstance(res.val, bool) else repr(res)
                except Unknown as u:
                    raise AnalysisError('C16.R1', f'{construct}: the abstraction cannot follow the helper ({u})')
                except AbsRaise as e:
                    got = f'raises {e.exc}'
                run.check(got == want, 'C16.R1', construct, 'rounded-value',
                          f'{h[1:].upper()}({x!r}, {d!r}) gives {got!r}; the number as shown with 15 significant digits, rounded in decimal '
                          f'{ {"_round": "half away from zero", "_roundup": "away from zero", "_rounddown": "towards zero"}[h] } at that '
                          f'position, is {want!r}', fact=f'-> {got!r}', loc=cp.loc(fn))


def r7_quantize_context(run: Run, rt):
    """Decimal.quantize raises InvalidOperation when the result needs more digits than the context precision: a double printed
    with 15 significant digits has up to 309 integer digits, and ROUND may ask for 15 more decimals -- the context must hold
    them (the default context holds 28)"""
    need = 330
    n = 0
    for cp in rt.copies():
        consts = {}
        for st in cp.cls_node.body + list(cp.module_tree.body):
            if isinstance(st, ast.Assign) and len(st.targets) == 1 and isinstance(st.targets[0], ast.Name):
                consts[st.targets[0].id] = st.value
            elif isinstance(st, ast.AnnAssign) and isinstance(st.target, ast.Name) and st.value is not None:
                consts[st.target.id] = st.value
        for name, fn in sorted(cp.members.items()):
            local = {}
            for st in ast.walk(fn):
                if isinstance(st, ast.Assign) and len(st.targets) == 1 and isinstance(st.targets[0], ast.Name):
                    local.setdefault(st.targets[0].id, []).append(st.value)
            for c in ast.walk(fn):
                if not (isinstance(c, ast.Call) and isinstance(c.func, ast.Attribute) and c.func.attr == 'quantize'):
                    continue
                n += 1
                ctx = next((k.value for k in c.keywords if k.arg == 'context'), c.args[2] if len(c.args) > 2 else None)
                for _ in range(3):
                    if isinstance(ctx, ast.Attribute) and isinstance(ctx.value, ast.Name) and ctx.value.id in ('self', 'cls') and ctx.attr in consts:
                        ctx = consts[ctx.attr]
                    elif isinstance(ctx, ast.Name) and ctx.id in consts:
                        ctx = consts[ctx.id]
                    elif isinstance(ctx, ast.Name) and len(local.get(ctx.id, [])) == 1:
                        ctx = local[ctx.id][0]
                prec = None
                if ctx is None:
                    prec = 28
                elif isinstance(ctx, ast.Call):
                    pv = next((k.value for k in ctx.keywords if k.arg == 'prec'), ctx.args[0] if ctx.args else None)
                    if pv is None:
                        prec = 28
                    elif isinstance(pv, ast.Constant) and isinstance(pv.value, int):
                        prec = pv.value
                if prec is None:
                    raise AnalysisError('C16.R7', f'{name}[{cp.label}]: the context of quantize `{ast.unparse(c)[:60]}` cannot be resolved')
                run.check(prec >= need, 'C16.R7', f'{name}[{cp.label}]/quantize context', 'context-precision-too-small',
                          f'{name} quantizes in a context of {prec} digits: when the integer digits of the number plus the requested '
                          f'decimals exceed {prec} (1234567890.1234 to 6 places needs 16) quantize raises InvalidOperation instead of '
                          f'returning the number', fact=f'prec {prec}', loc=cp.loc(c))
    if n < 2:
        raise AnalysisError('C16.R7', f'only {n} quantize call(s) found in the runtime copies')


def _words(mode):
    return {'half-away': 'half away from zero', 'away': 'away from zero', 'toward-zero': 'toward zero',
            'half-even': 'half to even (on the binary value for round())', '+inf': 'toward +infinity', '-inf': 'toward -infinity',
            'half-toward-zero': 'half toward zero', '05up': 'with ROUND_05UP'}.get(mode, mode)


def r3(run: Run, src, g, em, rt):
    from . import c01
    forms = c01._forms(Run('tmp', run.tier, run.seed, quiet=True), src, g, em)
    if not forms:
        raise AnalysisError('C16.R3', 'no emission forms of the expression translator')
    sub = Run('tmp', run.tier, run.seed, quiet=True)
    c01.r6(sub, src, g, em, rt, forms)
    n = 0
    for o in sub.obligations:
        if 'postfix %' in o['construct'] or '_normalize_float_number' in o['construct']:
            n += 1
            if o['verdict'] == 'holds':
                run.ok('C16.R3', o['construct'], o['fact'], loc=o['loc'])
    for f in sub.findings:
        if 'postfix %' in f['construct'] or '_normalize_float_number' in f['construct']:
            run.bad('C16.R3', f['construct'], f['sub'], f['message'], loc=f['loc'], facts=f['facts'])
    for e in sub.errors:
        run.errors.append(f'C16.R3 <- {e}')
    if n < 3:
        raise AnalysisError('C16.R3', 'percent form / normaliser were not analysed')


def run(run: Run):
    from .common import cached_guard as _cached_guard
    src = get_source()
    g = get_grammar(src)
    em = get_emission(src)
    rt = get_runtime(src)
    run.rule('C16.R1', 'rounding mode of each helper per sign class (primitives reached, sign handling)')
    run.rule('C16.R2', 'decimal basis (no binary scaling, 15 significant digits) and quantum 10**(-digits)')
    run.rule('C16.R3', 'percent = /100 through the 15-significant-digit normaliser (shared with C01.R6)')
    run.rule('C16.R4', 'argument plumbing ROUND(number, digits); ROUNDUP/ROUNDDOWN digits default 0')
    run.rule('C16.R5', 'every returned value depends on the digit count')
    evaluated = False
    sub = Run('tmp', run.tier, run.seed, quiet=True)
    try:
        r1_eval(sub, rt)
        evaluated = True
    except AnalysisError as e:
        run.note(f'C16.R1: the rounding helpers by structure only ({e.reason[:120]})')
    if evaluated:
        for o in sub.obligations:
            if o['verdict'] == 'holds':
                run.ok('C16.R1', o['construct'], o['fact'], loc=o['loc'])
        for f_ in sub.findings:
            run.bad('C16.R1', f_['construct'], f_['sub'], f_['message'], loc=f_['loc'])
        # the structural reading (which primitive, which sign handling, for all numbers at once) is kept where the code can be read
        sub2 = Run('tmp', run.tier, run.seed, quiet=True)
        try:
            r1_r2_r5(sub2, rt)
            for o in sub2.obligations:
                if o['verdict'] == 'holds':
                    run.ok(o['rule'], o['construct'], o['fact'], loc=o['loc'])
            for f_ in sub2.findings:
                run.bad(f_['rule'], f_['construct'], f_['sub'], f_['message'], loc=f_['loc'])
        except AnalysisError as e:
            run.note(f'C16.R1/R2/R5: the structural reading gave up ({e.reason[:120]}); the evaluated cases decide')
            run.extra['c16_structural_skipped'] = True
    else:
        run.guard('C16.R1', r1_r2_r5, run, rt)
    _cached_guard(run, 'C16.R3', r3, src, g, em, rt)
    _cached_guard(run, 'C16.R4', check_plumbing, 'C16.R4', src, em, rt, FUNCS)
    # a function result depends on its arguments only: no runtime helper keeps results or other state between calls
    from .common import borrow as _borrow
    from . import c08 as _c08
    from ..callgraph import get_callgraph as _gcg
    from ..source import get_source as _gs
    from ..runtime import get_runtime as _grt
    run.rule('C16.R6', 'runtime helpers are pure functions of their arguments: no write effects, no value cache (shared with C08.R1/R4)')
    _src = _gs()
    _borrow(run, 'C16.R6', _c08.r1, _src, _grt(_src), _gcg(_src))
    _borrow(run, 'C16.R6', _c08.r4, _src, _grt(_src))
    run.rule('C16.R7', 'the decimal context of quantize holds every result (integer digits + requested decimals)')
    _cached_guard(run, 'C16.R7', r7_quantize_context, rt)
    run.floor('C16.R7', 2)
    run.floor('C16.R6', 50)
    run.floor('C16.R1', 12)
    if not run.extra.get('c16_structural_skipped'):
        run.floor('C16.R2', 6)
        run.floor('C16.R5', 6)
    run.floor('C16.R3', 3)
    run.floor('C16.R4', 3)
    from .common import shared_mechanisms as _shared
    _shared(run, 'C16', 8, ['stored-values', 'literals', 'overrides'])
    from .common import shared_mechanisms as _shared_f
    _shared_f(run, 'C16', 11, ['formulas'])
    return INFO
