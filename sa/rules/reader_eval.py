"""The workbook reader decided by abstract evaluation (engine F): Excel.parse is evaluated on a modelled openpyxl workbook and
the object it constructs is compared with what the workbook holds.  Independent of how the reader is written (loops,
comprehensions, helpers) -- the model is of openpyxl's read-only API, not of the reader's shape.

Modelled API (trusted, as in DESIGN 3/C18): load_workbook(...) -> workbook with .worksheets / .sheetnames / .close();
worksheet .title, .reset_dimensions(), .iter_rows() (rows of cells; BEFORE reset_dimensions() only the area of the stale
dimension record A1:A1 is streamed), .max_row / .max_column / .calculate_dimension() (stale record); cell .value, .row (1-based),
.column (1-based), .col_idx, .column_letter, .coordinate; ArrayFormula objects with .text and .ref."""
from __future__ import annotations

import ast

from ..core import AnalysisError
from ..finite import Evaluator, AV, const_av, Unknown, AbsRaise

AF = 'ArrayFormula'
# sheet title -> rows of stored values (('AF', text) = array formula object)
LONG = 'n' * 9000 + ' exec(2)'              # a long note: texts of up to 32767 characters are legal cell contents
WORKBOOK = [
    ('Data', [[1, 'x', None], [0, False, ''], [None, None, 2.5]]),
    ('S 2', [[('AF', ' =A1*2 '), 'eval(1)'], ['SUM(A1)', 'pad '], ['os.system("x") + ABS(1)', 'eval(1)'], [LONG, 7], ['NOTE( see below', 'exec(9)']]),
    ('Empty', []),
    ('Sparse', [[5, 6], [None, None], [0, False]]),
    # rows of different lengths, as a streaming reader hands them out: what a short row does not have is blank, not empty text
    ('Ragged', [[1, 2, 3], [4], [], [7, 8]]),
    # a cell far below the rest of its sheet: every row in between exists and is blank
    ('Gap', [['top', 1]] + [[None, None] for _ in range(1200)] + [['eval(3)', True]]),
    # texts that look like values of another type are texts: what the cell stores is what a formula reads
    ('Texts', [['12.5', '0.1', '-3.25'], ['1e5', '007', 'nan'], ['TRUE', '2024-01-31', ' 5 '], ['inf', '42', '=']]),
]
EXPECTED_DATA = [
    [[1, 'x', None], [0, False, ''], [None, None, 2.5]],
    [['=A1*2', 'eval(1)'], ['SUM(A1)', 'pad '], ['os.system("x") + ABS(1)', 'eval(1)'], [LONG, 7], ['NOTE( see below', 'exec(9)']],
    [],
    [[5, 6], [None, None], [0, False]],
    [[1, 2, 3], [4], [], [7, 8]],
    [['top', 1]] + [[None, None] for _ in range(1200)] + [['eval(3)', True]],
    [['12.5', '0.1', '-3.25'], ['1e5', '007', 'nan'], ['TRUE', '2024-01-31', ' 5 '], ['inf', '42', '=']],
]
EXPECTED_TITLES = ['Data', 'S 2', 'Empty', 'Sparse', 'Ragged', 'Gap', 'Texts']
EXPECTED_SIZES = [{'last_column': 3, 'last_row': 3}, {'last_column': 2, 'last_row': 5}, {'last_column': 0, 'last_row': 0},
                  {'last_column': 2, 'last_row': 3}, {'last_column': 3, 'last_row': 4}, {'last_column': 2, 'last_row': 1202},
                  {'last_column': 3, 'last_row': 4}]
EXPECTED_SUSPICIOUS = {"'S 2'B1": ['eval(1)'], "'S 2'A3": ['system("x")'], "'S 2'B3": ['eval(1)'], "'S 2'A4": ['exec(2)'], "'S 2'B5": ['exec(9)'],
                       "'Gap'A1202": ['eval(3)']}


def _letters(n: int) -> str:
    s = ''
    while n:
        n, r = divmod(n - 1, 26)
        s = chr(65 + r) + s
    return s


_READER_MEMO: dict = {}


def evaluate_reader(src):
    """-> dict(data, titles, sizes, suspicious, closed, resets) read from the Excel object that parse() constructs"""
    if id(src) not in _READER_MEMO:
        try:
            _READER_MEMO[id(src)] = (src, _evaluate_reader(src), None)
        except AnalysisError as e:
            _READER_MEMO[id(src)] = (src, None, e)
    _, got, err = _READER_MEMO[id(src)]
    if err is not None:
        raise err
    return got


def _evaluate_reader(src):
    ex = src.cls('Excel')
    if 'parse' not in ex.methods:
        raise AnalysisError('C18', 'Excel.parse not found')
    members = {n: m.node for n, m in ex.methods.items()}
    ev = Evaluator(members, max_depth=14)
    ev.functions = {st.name: st for st in ex.module.tree.body if isinstance(st, ast.FunctionDef)}
    # class-level constants of the reader (compiled patterns, ...)
    cc = {}
    for st in ex.node.body:
        if isinstance(st, ast.Assign) and len(st.targets) == 1 and isinstance(st.targets[0], ast.Name):
            cc[st.targets[0].id] = st.value
        elif isinstance(st, ast.AnnAssign) and isinstance(st.target, ast.Name) and st.value is not None:
            cc[st.target.id] = st.value
    ev.class_consts = cc
    log = {'resets': [], 'closed': 0}

    def native(fn):
        return AV('func', val=('native', fn))

    def make_cell(value, r, c):
        if isinstance(value, tuple) and value[0] == 'AF':
            v = ev.new_obj(AF, {'text': const_av(value[1]), 'ref': const_av('A1:A2')})
        else:
            v = const_av(value)
        return ev.new_obj('ReadOnlyCell', {'value': v, 'row': const_av(r), 'column': const_av(c), 'col_idx': const_av(c),
                                           'column_letter': const_av(_letters(c)), 'coordinate': const_av(f'{_letters(c)}{r}')})

    def make_sheet(title, rows):
        state = {'reset': False}
        width = max((len(r) for r in rows), default=0)

        def iter_rows(a):
            if a:
                raise Unknown('iter_rows with arguments')
            use = rows if state['reset'] else [r[:1] for r in rows[:1]]       # a stale <dimension ref="A1"/> record
            return AV('list', items=tuple(AV('list', items=tuple(make_cell(v, i + 1, j + 1) for j, v in enumerate(
                list(r) + ([] if state['reset'] else [None] * (1 - len(r)))))) for i, r in enumerate(use)))       # no record: rows end at their last cell

        def reset(a):
            state['reset'] = True
            log['resets'].append(title)
            return AV('none')
        return ev.new_obj('ReadOnlyWorksheet', {
            'title': const_av(title), 'reset_dimensions': native(reset), 'iter_rows': native(iter_rows),
            'max_row': const_av(1), 'max_column': const_av(1), 'calculate_dimension': native(lambda a: const_av('A1:B1')),
            'rows': native(iter_rows)})

    def load_workbook(args, kwargs):
        sheets = AV('list', items=tuple(make_sheet(t, rows) for t, rows in WORKBOOK))

        def close(a):
            log['closed'] += 1
            return AV('none')
        # a chartsheet appears in sheetnames but not in worksheets
        return ev.new_obj('Workbook', {'worksheets': sheets, 'sheetnames': AV('list', items=tuple(const_av(t) for t in ['Chart1'] + EXPECTED_TITLES)),
                                       'close': native(close)})
    built = {}

    def construct(args, kwargs):
        me = ev.new_obj('Excel', {})
        init = members.get('__init__')
        if init is None:
            raise Unknown('Excel has no __init__')
        ev.call_method('__init__', args, me, kwargs)
        built['obj'] = me
        return me
    from ..roles import cell_field_order
    fields = cell_field_order(src)

    def make_Cell(args, kwargs):
        vals = dict(zip(fields, args))
        vals.update(kwargs)
        at_ = {'title': vals.get('title', const_av(None)), 'column': vals.get('column', const_av(None)), 'row': vals.get('row', const_av(None)),
               'value': vals.get('value', const_av(None)), '_handled_identifiers': const_av(False), 'uid': const_av('_uid')}
        c_ = ev.new_obj('Cell', at_)
        real = ev.obj_attrs(c_)
        real['has_handled_identifiers'] = native(lambda a, real=real: real['_handled_identifiers'])
        return c_
    try:
        hc = src.func('handle_cell')
        for st in hc.module.tree.body:
            if isinstance(st, ast.FunctionDef):
                ev.functions.setdefault(st.name, st)
    except AnalysisError:
        pass
    ev.constructors = {'load_workbook': load_workbook, 'cls': construct, 'Excel': construct, 'Cell': make_Cell}
    cls_av = AV('other', val=('class', 'Excel'))
    try:
        ev.call_method('parse', [const_av('book.xlsx')], cls_av)
    except Unknown as u:
        raise AnalysisError('C18', f'the abstraction cannot follow Excel.parse ({u})')
    except AbsRaise as e:
        return {'raised': e.exc}
    if 'obj' not in built:
        raise AnalysisError('C18', 'Excel.parse did not construct the Excel object')
    at = ev.obj_attrs(built['obj'])

    def py(v):
        if v.kind == 'none':
            return None
        if v.kind == 'dict':
            return {py(kv.items[0]): py(kv.items[1]) for kv in (v.items or ())}
        if v.items is not None:
            return [py(x) for x in v.items]
        if v.kind == 'obj':
            return f'<{v.val[2]} object>'
        if v.val is not None and not isinstance(v.val, tuple):
            return v.val
        return f'<{v.kind}>'
    out = {'resets': log['resets'], 'closed': log['closed']}
    # the whole-file enumeration: one cell per stored coordinate, with its stored value
    if 'get_cells' in members:
        try:
            cells = ev.call_method('get_cells', [], built['obj'])
            if cells.items is None:
                raise Unknown('get_cells result')
            listed = []
            for c_ in cells.items:
                a_ = ev.obj_attrs(c_)
                listed.append(tuple(py(a_[k]) for k in ('title', 'column', 'row', 'value')))
            out['cells'] = listed
        except Unknown as u:
            out['cells'] = f'<not followed: {u}>'
        except AbsRaise as e:
            out['cells'] = f'<raises {e.exc}>'
    for key, attr in (('data', '_data'), ('titles', '_titles'), ('sizes', '_sheets_size'), ('suspicious', '_suspicious_cells')):
        out[key] = py(at[attr]) if attr in at else '<missing>'
    return out


def _strip(rows):
    """rows without their trailing blanks (a reader may or may not pad a short row with blanks: the cells are the same)"""
    if not isinstance(rows, list):
        return rows
    out = []
    for r in rows:
        if isinstance(r, list):
            r = list(r)
            while r and r[-1] is None:
                r.pop()
        out.append(r)
    return out


def reader_obligations(run, rule: str, src, parts=('data', 'titles', 'sizes', 'suspicious')):
    """obligations of `rule` from the evaluated reader; raises AnalysisError when the abstraction cannot follow Excel.parse"""
    from ..core import loc_of
    ex = src.cls('Excel')
    fi = ex.methods['parse']
    loc = loc_of(fi.module.path, fi.node)
    got = evaluate_reader(src)
    if 'raised' in got:
        run.bad(rule, 'Excel.parse/model workbook', f'raises:{got["raised"]}',
                f'Excel.parse raises {got["raised"]} on a three-sheet workbook (numbers, text, booleans, blanks, an array formula, an empty sheet)',
                loc=loc)
        return
    if 'data' in parts:
        for (title, _), want, have in zip(WORKBOOK, EXPECTED_DATA, got['data'] if isinstance(got['data'], list) else []):
            run.check(_strip(have) == _strip(want), rule, f'Excel.parse/data of sheet {title!r}', 'stored-values',
                      f'the reader delivers {have} for the sheet {title!r} whose cells hold {want}: every cell must be seen at its '
                      f'coordinate with its stored value (0, FALSE and empty text are values, trailing blanks keep their place, an array '
                      f'formula is its formula text, text keeps its blanks)', fact='stored values at their coordinates', loc=loc)
        run.check(isinstance(got['data'], list) and len(got['data']) == len(WORKBOOK), rule, 'Excel.parse/number of sheets', 'sheet-count',
                  f'the reader delivers {len(got["data"]) if isinstance(got["data"], list) else got["data"]} sheet(s) of data for a workbook '
                  f'with {len(WORKBOOK)} worksheets', fact=f'{len(WORKBOOK)} sheets', loc=loc)
    if 'data' in parts and isinstance(got.get('cells'), (list, str)):
        want_cells = [(t, c, r, v) for t, rows in enumerate(EXPECTED_DATA) for r, row in enumerate(rows) for c, v in enumerate(row) if v is not None]
        if isinstance(got['cells'], str) and got['cells'].startswith('<not followed'):
            raise AnalysisError('C18', f'the abstraction cannot follow Excel.get_cells {got["cells"]}')
        have_c = [x for x in got['cells'] if not (isinstance(x, tuple) and len(x) == 4 and x[3] is None)] if isinstance(got['cells'], list) else got['cells']
        missing = [x for x in want_cells if x not in have_c] if isinstance(have_c, list) else want_cells
        run.check(isinstance(have_c, list) and sorted(map(str, have_c)) == sorted(map(str, want_cells)), rule, 'Excel.get_cells/every stored cell',
                  'whole-file-enumeration',
                  f'get_cells lists {len(have_c) if isinstance(have_c, list) else have_c} cell(s) for a workbook with {len(want_cells)} stored '
                  f'coordinates; missing or different: {[m[:3] + (str(m[3])[:12],) for m in missing[:5]]} (a cell holding 0, FALSE or empty '
                  f'text is a cell)', fact=f'{len(want_cells)} cells with their values', loc=loc)
    if 'titles' in parts:
        want_t = {t: i for i, t in enumerate(EXPECTED_TITLES)}
        run.check(got['titles'] == want_t, rule, 'Excel.parse/titles', 'title-table',
                  f'the title table is {got["titles"]}; the worksheets of the workbook are {want_t} (a chart sheet is in sheetnames but '
                  f'holds no cells)', fact='title -> position among the worksheets', loc=loc)
    if 'sizes' in parts:
        run.check(got['sizes'] == EXPECTED_SIZES, rule, 'Excel.parse/sheet sizes', 'sheet-sizes',
                  f'the reported sizes are {got["sizes"]}; the sheets are {EXPECTED_SIZES} (widest row x number of rows, per sheet)',
                  fact='per-sheet widest row and row count', loc=loc)
    if 'suspicious' in parts:
        run.check(got['suspicious'] == EXPECTED_SUSPICIOUS, rule, 'Excel.parse/report of Python-like cells', 'report',
                  f'the report is {got["suspicious"]}; the cells with Python-like call syntax are {EXPECTED_SUSPICIOUS} (keyed by sheet '
                  f'title and A1 address of the cell itself, each with its fragments; upper-case calls and other cells are not listed)',
                  fact='exactly the Python-like cells', loc=loc)
