"""helpers shared by the rule modules"""
from __future__ import annotations

import ast

from ..core import Run, AnalysisError, loc_of
from ..source import SourceModel, ClassInfo, get_source
from ..grammar import Grammar, get_grammar
from ..emission import EmissionModel, get_emission, Emission, render, Skeleton, helper_calls, atom_names
from ..symeval import Code, Part, Tok, Const, CellV, GroupStr, NumV, ListV, TupleV, DictV, Opaque, world_str

LIB_ROOT = 'E2PyclException'
PUNCTUATION = {'BracketStartToken', 'BracketFinishToken', 'SeparatorToken'}


def library_exceptions(src: SourceModel) -> set:
    if not src.has_cls(LIB_ROOT):
        raise AnalysisError('common', f'{LIB_ROOT} not found')
    root = src.cls(LIB_ROOT)
    return {root.name} | {c.name for c in src.subclasses(root)}


def excel_name(g: Grammar, token_cls: str) -> str:
    """Excel function name of a function token class: the literal of the keyword terminal its productions start with"""
    comp = g.composites.get(token_cls)
    if not comp or not comp.productions or not comp.productions[0]:
        return token_cls
    t = g.terminals.get(comp.productions[0][0])
    if t is None:
        return token_cls
    lang = t.rx_own.lang()
    if lang.finite and len(lang.finite) == 1:
        return next(iter(lang.finite))
    return t.regexp


def function_token_of(g: Grammar, excel: str):
    for c in g.functions():
        if excel_name(g, c.name) == excel:
            return c
    return None


def iter_parts(code: Code, deep=True):
    """every Part of a Code, descending into sub-cell code, reprs and quoted list items"""
    for p in code.parts:
        if isinstance(p, Part):
            yield p
            if deep:
                if p.kind == 'sub' and isinstance(p.a, Code):
                    yield from iter_parts(p.a)
                elif p.kind in ('pyrepr', 'repr'):
                    yield from _parts_in_value(p.a)
                elif p.kind == 'quoted' and isinstance(p.a, Part):
                    yield p.a


def _parts_in_value(v):
    if isinstance(v, Code):
        yield from iter_parts(v)
    elif isinstance(v, (ListV, TupleV)):
        for x in v.items:
            yield from _parts_in_value(x)
    elif isinstance(v, DictV):
        for k, x in v.items:
            yield from _parts_in_value(k)
            yield from _parts_in_value(x)


def consumed_paths(code: Code) -> set:
    """token paths whose text or translation occurs in the emitted code"""
    out = set()
    for p in iter_parts(code):
        if p.kind == 'slot' and isinstance(p.b, Tok):
            out.add(p.b.path)
        elif p.kind == 'slot' and isinstance(p.b, CellV) and p.b.tag.startswith('tok:'):
            t = p.b.tag[4:]
            out.add(tuple(int(x) for x in t.split('/') if x != ''))
        elif p.kind in ('raw', 'repr') and isinstance(p.a, GroupStr):
            out.add(p.a.path)
        elif p.kind == 'num':
            for g in _groups_in_num(p.a):
                out.add(g.path)
        elif p.kind == 'tokrepr' and isinstance(p.a, Tok):
            out.add(p.a.path)
    return out


def _tag_path(tag: str):
    if not isinstance(tag, str) or not tag.startswith('tok:'):
        return None
    return tuple(int(x) for x in tag[4:].split('/') if x != '')


class _PathCarrier:
    def __init__(self, path):
        self.path = path


def _groups_in_num(v):
    if isinstance(v, GroupStr):
        yield v
    elif isinstance(v, NumV):
        if v.op == 'coord' and len(v.args) > 2:
            p = _tag_path(v.args[2])
            if p is not None:
                yield _PathCarrier(p)
        for a in v.args:
            yield from _groups_in_num(a)
    elif isinstance(v, CellV):
        p = _tag_path(v.tag)
        if p is not None:
            yield _PathCarrier(p)
    elif isinstance(v, Code):
        for p in iter_parts(v):
            if p.kind in ('raw', 'repr') and isinstance(p.a, GroupStr):
                yield p.a


def expanded_leaves(g: Grammar, token_cls: str, world: dict) -> list:
    """(path, symbol) for the leaves of the part of the parse tree that the world fixed, starting at the root token"""
    out = []

    def rec(cls, path):
        r = world.get(('prod', path))
        if cls in g.composites and r is not None:
            for k, sym in enumerate(g.composites[cls].productions[r]):
                rec(sym, path + (k,))
        else:
            out.append((path, cls))
    rec(token_cls, ())
    return out


def dropped_arguments(em: EmissionModel, e: Emission) -> list:
    """arguments of the production that never reach the emitted code: [(path of the highest dropped node, its symbol)]"""
    o = e.outcome
    if o.kind != 'return':
        return []
    g = em.g
    if isinstance(o.value, Code):
        used = consumed_paths(o.value)
    elif isinstance(o.value, NumV):
        used = {c.path for c in _groups_in_num(o.value)}
    else:
        return []
    # Cell objects built from reference tokens and handed to the workbook model determine the emitted area
    for eff in o.effects:
        if eff.kind == 'excel-call':
            for a in eff.detail.get('args', []):
                if isinstance(a, CellV):
                    p = _tag_path(a.tag)
                    if p is not None:
                        used.add(p)
                    if isinstance(a.title, TupleV):      # get_similar_second(base, first, second)
                        for x in a.title.items:
                            if isinstance(x, CellV) and _tag_path(x.tag) is not None:
                                used.add(_tag_path(x.tag))
    # accessor effects: a translate-call whose result was discarded still consumed nothing -> only emitted code counts
    missing = []
    for path, sym in expanded_leaves(g, e.token_cls, o.world):
        if not path:
            continue
        if sym in PUNCTUATION or (sym in g.terminals and g.terminals[sym].keyword):
            continue
        covered = any(path[:len(u)] == u for u in used if u) or any(u[:len(path)] == path for u in used if u)
        if not covered:
            missing.append((path, sym))
    if not missing:
        return []
    # collapse to the highest node under which nothing is consumed
    leaves = expanded_leaves(g, e.token_cls, o.world)
    miss_set = {p for p, _ in missing}
    punct = {p for p, sym in leaves if sym in PUNCTUATION or (sym in g.terminals and g.terminals[sym].keyword)}

    def all_missing_under(prefix):
        sub = [p for p, _ in leaves if p[:len(prefix)] == prefix and p not in punct]
        return bool(sub) and all(p in miss_set for p in sub)

    def cls_at(path):
        cls = e.token_cls
        for i in range(len(path)):
            r = o.world.get(('prod', path[:i]))
            cls = g.composites[cls].productions[r][path[i]]
        return cls
    tops = {}
    for p, sym in missing:
        top = p
        while len(top) > 1 and all_missing_under(top[:-1]):
            top = top[:-1]
        tops[top] = cls_at(top)
    return sorted(tops.items())


def skeleton_of(em: EmissionModel, e: Emission) -> Skeleton | None:
    o = e.outcome
    if o.kind != 'return':
        return None
    v = o.value
    if isinstance(v, Code):
        return render(em.inline(v))
    if isinstance(v, Const):
        return render(Code((str(v.value),)))
    if isinstance(v, NumV):
        return render(Code((Part('num', v),)))
    if isinstance(v, GroupStr):
        return render(Code((Part('raw', v),)))
    return None


def all_skeletons(sk: Skeleton):
    yield sk
    for s in sk.subs.values():
        yield from all_skeletons(s)


def reachable_function_emissions(em: EmissionModel):
    """(emission, unreachable-reason or None) for the function translators"""
    for (tr, tk) in em.function_pairs():
        for e in em.pairs[(tr, tk)]:
            yield e, em.unreachable(e)


def find_call_arg_atoms(sk: Skeleton, helper: str):
    """for the (first) call of self.<helper> anywhere in the skeleton tree: list of per-argument descriptions
    [(kind, value)] where kind in 'atom' (atom name), 'const' (python constant), 'star' (starred expr), 'expr' """
    for s in all_skeletons(sk):
        if s.tree is None:
            continue
        for name, call in helper_calls(s.tree):
            if name == helper:
                return s, call
    return None, None
