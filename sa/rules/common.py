"""helpers shared by the rule modules"""
from __future__ import annotations

import ast

from ..core import Run, AnalysisError, loc_of
from ..source import SourceModel, ClassInfo, get_source
from ..grammar import Grammar, get_grammar
from ..emission import EmissionModel, get_emission, Emission, render, Skeleton, helper_calls, atom_names
from ..symeval import Code, Part, Tok, Const, CellV, GroupStr, NumV, ListV, TupleV, DictV, Opaque, world_str

LIB_ROOT = 'E2PyclException'
PUNCTUATION = {'BracketStartToken', 'BracketFinishToken', 'SeparatorToken'}


def library_exceptions(src: SourceModel) -> set:
    if not src.has_cls(LIB_ROOT):
        raise AnalysisError('common', f'{LIB_ROOT} not found')
    root = src.cls(LIB_ROOT)
    return {root.name} | {c.name for c in src.subclasses(root)}


def excel_name(g: Grammar, token_cls: str) -> str:
    """Excel function name of a function token class: the literal of the keyword terminal its productions start with"""
    comp = g.composites.get(token_cls)
    if not comp or not comp.productions or not comp.productions[0]:
        return token_cls
    t = g.terminals.get(comp.productions[0][0])
    if t is None:
        return token_cls
    lang = t.rx_own.lang()
    if lang.finite and len(lang.finite) == 1:
        return next(iter(lang.finite))
    return t.regexp


def function_token_of(g: Grammar, excel: str):
    for c in g.functions():
        if excel_name(g, c.name) == excel:
            return c
    return None


def iter_parts(code: Code, deep=True):
    """every Part of a Code, descending into sub-cell code, reprs and quoted list items"""
    for p in code.parts:
        if isinstance(p, Part):
            yield p
            if deep:
                if p.kind == 'sub' and isinstance(p.a, Code):
                    yield from iter_parts(p.a)
                elif p.kind in ('pyrepr', 'repr'):
                    yield from _parts_in_value(p.a)
                elif p.kind == 'quoted' and isinstance(p.a, Part):
                    yield p.a


def _parts_in_value(v):
    if isinstance(v, Code):
        yield from iter_parts(v)
    elif isinstance(v, (ListV, TupleV)):
        for x in v.items:
            yield from _parts_in_value(x)
    elif isinstance(v, DictV):
        for k, x in v.items:
            yield from _parts_in_value(k)
            yield from _parts_in_value(x)


def consumed_paths(code: Code) -> set:
    """token paths whose text or translation occurs in the emitted code"""
    out = set()
    for p in iter_parts(code):
        if p.kind == 'slot' and isinstance(p.b, Tok):
            out.add(p.b.path)
        elif p.kind == 'slot' and isinstance(p.b, CellV) and p.b.tag.startswith('tok:'):
            out.add(_tag_path(p.b.tag))
        elif p.kind in ('raw', 'repr') and isinstance(p.a, GroupStr):
            out.add(p.a.path)
        elif p.kind == 'num':
            for g in _groups_in_num(p.a):
                out.add(g.path)
        elif p.kind == 'tokrepr' and isinstance(p.a, Tok):
            out.add(p.a.path)
    return out


def _tag_path(tag: str):
    if not isinstance(tag, str) or not tag.startswith('tok:'):
        return None
    return tuple(int(x) for x in tag[4:].split('#')[0].split('/') if x != '')


class _PathCarrier:
    def __init__(self, path):
        self.path = path


def _groups_in_num(v):
    if isinstance(v, GroupStr):
        yield v
    elif isinstance(v, NumV):
        if v.op == 'coord' and len(v.args) > 2:
            p = _tag_path(v.args[2])
            if p is not None:
                yield _PathCarrier(p)
        for a in v.args:
            yield from _groups_in_num(a)
    elif isinstance(v, CellV):
        p = _tag_path(v.tag)
        if p is not None:
            yield _PathCarrier(p)
    elif isinstance(v, Code):
        for p in iter_parts(v):
            if p.kind in ('raw', 'repr') and isinstance(p.a, GroupStr):
                yield p.a


def expanded_leaves(g: Grammar, token_cls: str, world: dict) -> list:
    """(path, symbol) for the leaves of the part of the parse tree that the world fixed, starting at the root token"""
    out = []

    def rec(cls, path):
        r = world.get(('prod', path))
        if cls in g.composites and r is not None:
            for k, sym in enumerate(g.composites[cls].productions[r]):
                rec(sym, path + (k,))
        else:
            out.append((path, cls))
    rec(token_cls, ())
    return out


def dropped_arguments(em: EmissionModel, e: Emission) -> list:
    """arguments of the production that never reach the emitted code: [(path of the highest dropped node, its symbol)]"""
    o = e.outcome
    if o.kind != 'return':
        return []
    g = em.g
    if isinstance(o.value, Code):
        used = consumed_paths(o.value)
    elif isinstance(o.value, NumV):
        used = {c.path for c in _groups_in_num(o.value)}
    else:
        return []
    # Cell objects built from reference tokens and handed to the workbook model determine the emitted area
    for eff in o.effects:
        if eff.kind == 'excel-call':
            for a in eff.detail.get('args', []):
                if isinstance(a, CellV):
                    p = _tag_path(a.tag)
                    if p is not None:
                        used.add(p)
                    if isinstance(a.title, TupleV):      # get_similar_second(base, first, second)
                        for x in a.title.items:
                            if isinstance(x, CellV) and _tag_path(x.tag) is not None:
                                used.add(_tag_path(x.tag))
    # accessor effects: a translate-call whose result was discarded still consumed nothing -> only emitted code counts
    missing = []
    for path, sym in expanded_leaves(g, e.token_cls, o.world):
        if not path:
            continue
        if sym in PUNCTUATION or (sym in g.terminals and g.terminals[sym].keyword):
            continue
        covered = any(path[:len(u)] == u for u in used if u) or any(u[:len(path)] == path for u in used if u)
        if not covered:
            missing.append((path, sym))
    if not missing:
        return []
    # collapse to the highest node under which nothing is consumed
    leaves = expanded_leaves(g, e.token_cls, o.world)
    miss_set = {p for p, _ in missing}
    punct = {p for p, sym in leaves if sym in PUNCTUATION or (sym in g.terminals and g.terminals[sym].keyword)}

    def all_missing_under(prefix):
        sub = [p for p, _ in leaves if p[:len(prefix)] == prefix and p not in punct]
        return bool(sub) and all(p in miss_set for p in sub)

    def cls_at(path):
        cls = e.token_cls
        for i in range(len(path)):
            r = o.world.get(('prod', path[:i]))
            cls = g.composites[cls].productions[r][path[i]]
        return cls
    tops = {}
    for p, sym in missing:
        top = p
        while len(top) > 1 and all_missing_under(top[:-1]):
            top = top[:-1]
        tops[top] = cls_at(top)
    return sorted(tops.items())


def skeleton_of(em: EmissionModel, e: Emission) -> Skeleton | None:
    o = e.outcome
    if o.kind != 'return':
        return None
    v = o.value
    if isinstance(v, Code):
        return render(em.inline(v))
    if isinstance(v, Const):
        return render(Code((str(v.value),)))
    if isinstance(v, NumV):
        return render(Code((Part('num', v),)))
    if isinstance(v, GroupStr):
        return render(Code((Part('raw', v),)))
    return None


def all_skeletons(sk: Skeleton):
    yield sk
    for s in sk.subs.values():
        yield from all_skeletons(s)


def reachable_function_emissions(em: EmissionModel):
    """(emission, unreachable-reason or None) for the function translators"""
    for (tr, tk) in em.function_pairs():
        for e in em.pairs[(tr, tk)]:
            yield e, em.unreachable(e)


def find_call_arg_atoms(sk: Skeleton, helper: str):
    """for the (first) call of self.<helper> anywhere in the skeleton tree: list of per-argument descriptions
    [(kind, value)] where kind in 'atom' (atom name), 'const' (python constant), 'star' (starred expr), 'expr' """
    for s in all_skeletons(sk):
        if s.tree is None:
            continue
        for name, call in helper_calls(s.tree):
            if name == helper:
                return s, call
    return None, None


# ---------------------------------------------------------------------------------------------------
# shared rules
# ---------------------------------------------------------------------------------------------------
def check_plumbing(run: Run, rule: str, src, em, rt, excel_functions: list):
    """argument plumbing of the given Excel functions against the frozen, hand-confirmed reference"""
    from ..plumbing import canonical, load_reference, helpers_in, keyword_names
    ref = load_reference()
    g = em.g
    for fname in excel_functions:
        comp = function_token_of(g, fname)
        if comp is None:
            run.bad(rule, f'{fname}', 'function-missing', f'no function token class starts with the keyword {fname}')
            continue
        if fname not in ref:
            raise AnalysisError(rule, f'no frozen plumbing reference for {fname}')
        r = ref[fname]
        trs = [tr for (tr, tk) in em.function_pairs() if tk == comp.name]
        if not trs:
            run.bad(rule, fname, 'no-translator', f'{comp.name} is never handed to a translator')
            continue
        tr = trs[0]
        loc = loc_of(src.cls(tr).module.path, src.cls(tr).node)
        got = {}
        for e in em.pairs[(tr, comp.name)]:
            if e.outcome.kind != 'return' or em.unreachable(e):
                continue
            text, problems = canonical(em, e, rt)
            got.setdefault(f'production[{e.production}]', [])
            if text not in got[f'production[{e.production}]']:
                got[f'production[{e.production}]'].append(text)
        # stale reference (helper or parameter renamed): not a violation, the reference has to be re-confirmed
        ref_helpers = set()
        ref_kws = {}
        for fs in r['forms'].values():
            for f in fs:
                ref_helpers |= helpers_in(f)
                for h, ks in keyword_names(f).items():
                    ref_kws.setdefault(h, set()).update(ks)
        for h in ref_helpers:
            if h not in rt.template.members:
                raise AnalysisError(rule, f'{fname}: the frozen reference names the helper {h}, which no longer exists in the class '
                                          f'template (renamed?): re-confirm and re-freeze sa/reference/plumbing.json')
            fn = rt.template.members[h]
            params = {a.arg for a in fn.args.posonlyargs + fn.args.args + fn.args.kwonlyargs}
            if not ref_kws.get(h, set()) <= params:
                raise AnalysisError(rule, f'{fname}: parameters {sorted(ref_kws[h] - params)} of {h} named by the frozen reference no '
                                          f'longer exist (renamed?): re-confirm and re-freeze sa/reference/plumbing.json')
        for prod in sorted(set(got) | set(r['forms'])):
            construct = f'{fname}/{prod}'
            a, b = got.get(prod), r['forms'].get(prod)
            if a is None:
                run.bad(rule, construct, 'form-missing',
                        f'{fname} {prod} no longer produces code (reference: {b[0][:120]})', loc=loc)
            elif b is None:
                run.bad(rule, construct, 'form-unconfirmed',
                        f'{fname} has a new form {prod}: `{a[0][:160]}` that was never confirmed against Excel\'s signature', loc=loc)
            elif set(a) == set(b):
                run.ok(rule, construct, a[0][:160], loc=loc)
            else:
                new = [x for x in a if x not in b]
                gone = [x for x in b if x not in a]
                run.bad(rule, construct, 'plumbing',
                        f'{fname} {prod} now prints `{(new or a)[0][:200]}`; the confirmed form ({r.get("confirmed", "")[:120]}) is '
                        f'`{(gone or b)[0][:200]}`', loc=loc,
                        facts={'now': new[:5], 'confirmed': gone[:5]})


def check_atomic(run: Run, rule: str, src, em, excel_functions: list):
    """the emitted code of a function keeps its meaning as an operand of any operator"""
    from ..emission import is_atomic
    g = em.g
    for fname in excel_functions:
        comp = function_token_of(g, fname)
        if comp is None:
            continue
        for (tr, tk) in em.function_pairs():
            if tk != comp.name:
                continue
            seen = set()
            for e in em.pairs[(tr, tk)]:
                if e.outcome.kind != 'return' or em.unreachable(e):
                    continue
                sk = skeleton_of(em, e)
                if sk is None or sk.tree is None:
                    continue
                key = (e.production, _shape(sk.text))
                if key in seen:
                    continue
                seen.add(key)
                text = sk.text.strip()
                atomic = is_atomic(sk.tree) or _fully_parenthesised(text)
                run.check(atomic, rule, f'{fname}/production[{e.production}]:{_shape(text)[:50]}', 'not-atomic',
                          f'{fname} is printed as `{_shape(text)[:120]}`, which is not atomic for Python precedence: next to an '
                          f'operator (IF(...)*2, 1+IF(...)) the operator attaches to a part of it',
                          fact=f'atomic: {_shape(text)[:60]}', loc=loc_of(src.cls(tr).module.path, src.cls(tr).node))


def _shape(text: str) -> str:
    import re as _re
    return _re.sub(r'__[A-Z][A-Za-z0-9]*__', '_', text)


def _fully_parenthesised(text: str) -> bool:
    if not (text.startswith('(') and text.endswith(')')):
        return False
    depth = 0
    instr = None
    for i, ch in enumerate(text):
        if instr:
            if ch == instr:
                instr = None
            continue
        if ch in '"\'':
            instr = ch
        elif ch == '(':
            depth += 1
        elif ch == ')':
            depth -= 1
            if depth == 0 and i != len(text) - 1:
                return False
    return depth == 0


def _plain_args(args) -> str | None:
    """a text that identifies the arguments of a shared rule function: model objects by their kind (they are functions of the
    analysed tree), plain values by their text; None when an argument is neither"""
    out = []
    for a in args:
        if isinstance(a, (str, int, float, bool, type(None))):
            out.append(repr(a))
        elif isinstance(a, (list, tuple, set, frozenset)):
            inner = [_plain_args([x]) for x in a]
            if any(x is None for x in inner):
                return None
            out.append('[' + ','.join(sorted(inner) if isinstance(a, (set, frozenset)) else inner) + ']')
        elif isinstance(a, dict):
            inner = [(_plain_args([k]), _plain_args([v])) for k, v in a.items()]
            if any(k is None or v is None for k, v in inner):
                return None
            out.append('{' + ','.join(f'{k}:{v}' for k, v in sorted(inner)) + '}')
        elif type(a).__name__ in ('SourceModel', 'Grammar', 'EmissionModel', 'RuntimeModel', 'CallGraph'):
            from ..source import REPO, get_source
            model_src = a if type(a).__name__ == 'SourceModel' else getattr(a, 'src', None)
            if model_src is None or model_src is not get_source() or str(model_src.repo) != str(REPO):
                return None                 # a model of something else than the analysed tree (a self-check example)
            out.append(type(a).__name__)
        elif callable(a) and hasattr(a, '__name__'):
            out.append(f'fn:{getattr(a, "__module__", "")}.{a.__name__}')
        else:
            return None
    return '|'.join(out)


def evaluate_shared(run: Run, fn, args, kwargs=None):
    """obligations, findings, errors and notes of `fn(<scratch run>, *args)`: from the cross-process cache when the same function was
    evaluated on the same tree by another check, evaluated (and stored) otherwise"""
    from .. import cache
    from ..source import REPO
    kwargs = kwargs or {}
    plain_extra = {k: v for k, v in run.extra.items() if isinstance(v, (str, int, float, bool))}
    sig = _plain_args(list(args) + [f'{k}={v!r}' for k, v in sorted(kwargs.items())] + [f'extra:{sorted(plain_extra.items())!r}'])
    key = None
    if sig is not None:
        key = cache.key_for(REPO, f'{getattr(fn, "__module__", "")}.{fn.__name__}', sig, run.tier)
        hit = cache.load(key)
        if hit is not None:
            return hit
    sub = Run('tmp', run.tier, run.seed, quiet=True)
    sub.extra.update(plain_extra)
    err = None
    try:
        fn(sub, *args, **kwargs)
    except AnalysisError as e:
        err = {'rule': e.rule, 'reason': e.reason, 'kind': 'analysis'}
    except Exception as e:
        err = {'rule': '', 'reason': f'internal error in shared rule: {type(e).__name__}: {e}', 'kind': 'internal'}
    data = {'obligations': [{k: o.get(k) for k in ('rule', 'construct', 'fact', 'nontrivial', 'loc', 'verdict')} for o in sub.obligations],
            'findings': [{k: f.get(k) for k in ('rule', 'construct', 'sub', 'message', 'loc', 'facts')} for f in sub.findings],
            'errors': list(sub.errors), 'notes': list(sub.notes), 'error': err, 'extra': {k: v for k, v in sub.extra.items()
                                                                                          if isinstance(v, (str, int, float, bool, list))}}
    if key is not None:
        cache.store(key, data)
    return data


def borrow(run: Run, as_rule: str, fn, *args, only_rules=None):
    """run a rule function of another property in a scratch Run and re-label its obligations/findings as `as_rule`"""
    data = evaluate_shared(run, fn, args)
    if data['error'] is not None:
        e = data['error']
        run.error(as_rule, f'{e["rule"]}: {e["reason"]}' if e['kind'] == 'analysis' else e['reason'])   # what was found before still counts
    for o in data['obligations']:
        if only_rules and o['rule'] not in only_rules:
            continue
        if o['verdict'] == 'holds':
            run.ok(as_rule, o['construct'], o['fact'], nontrivial=o.get('nontrivial', True), loc=o['loc'])
    for f in data['findings']:
        if only_rules and f['rule'] not in only_rules:
            continue
        run.bad(as_rule, f['construct'], f['sub'], f['message'], loc=f['loc'], facts=f.get('facts'))
    for e in data['errors']:
        run.errors.append(f'{as_rule} <- {e}')
    for n in data['notes']:
        run.note(n)
    return data


def cached_guard(run: Run, rule: str, fn, *args):
    """run.guard(rule, fn, run, *args) through the cross-process cache: the obligations keep the rule ids the function gave them"""
    data = evaluate_shared(run, fn, args)
    for o in data['obligations']:
        if o['verdict'] == 'holds':
            run.ok(o['rule'], o['construct'], o['fact'], nontrivial=o.get('nontrivial', True), loc=o['loc'])
    for f in data['findings']:
        run.bad(f['rule'], f['construct'], f['sub'], f['message'], loc=f['loc'], facts=f.get('facts'))
    for e in data['errors']:
        run.errors.append(e)
    for n in data['notes']:
        run.note(n)
    for k, v in data.get('extra', {}).items():
        run.extra[k] = v
    if data['error'] is not None:
        e = data['error']
        run.error(e['rule'] or rule, e['reason'])


def shared(run: Run, rule: str, fn, *args, **kwargs):
    """a rule function that takes its rule id as second argument (fn(run, rule, ...)), evaluated once per tree: its obligations are
    replayed under `rule`; an analysis error is raised again"""
    data = evaluate_shared(run, fn, ('<rule>',) + tuple(args), kwargs)
    for o in data['obligations']:
        if o['verdict'] == 'holds':
            run.ok(rule if o['rule'] == '<rule>' else o['rule'], o['construct'], o['fact'], nontrivial=o.get('nontrivial', True), loc=o['loc'])
    for f in data['findings']:
        run.bad(rule if f['rule'] == '<rule>' else f['rule'], f['construct'], f['sub'], f['message'], loc=f['loc'], facts=f.get('facts'))
    for n in data['notes']:
        run.note(n)
    for k, v in data.get('extra', {}).items():
        run.extra.setdefault(k, v)
    if data['error'] is not None:
        e = data['error']
        raise AnalysisError(rule, e['reason'].replace('<rule>', rule))


# ---------------------------------------------------------------------------------------------------
# normalised views of functions (helper calls inlined, guard clauses nested) and flattened path conditions
# ---------------------------------------------------------------------------------------------------
_norm_cache: dict = {}


def normalized_method(src, cls_name: str, method: str, depth: int = 2):
    """the method with calls of helpers of its own class / module inlined and guard clauses turned into nesting"""
    from ..inline import inline_methods, nest_guards, class_resolver, inline_class_constants
    key = (id(src), cls_name, method, depth)
    if key in _norm_cache:
        return _norm_cache[key]
    ci = src.cls(cls_name)
    fi = ci.methods.get(method) or src.find_method(ci, method)
    if fi is None:
        raise AnalysisError('common', f'{cls_name}.{method} not found')
    fn = nest_guards(inline_methods(fi.node, class_resolver(src, ci, fi), depth=depth))
    fn = inline_class_constants(fn, ci.node, ci.name)
    _norm_cache[key] = (fi, fn)
    return fi, fn


def flat_conditions(conds) -> list:
    """[(atomic test, polarity)]: conjunctions that hold are split, negations are folded into the polarity, disjunctions that
    do not hold are split"""
    out = []

    def add(t, pol):
        if isinstance(t, ast.UnaryOp) and isinstance(t.op, ast.Not):
            add(t.operand, not pol)
        elif isinstance(t, ast.BoolOp) and isinstance(t.op, ast.And) and pol:
            for v in t.values:
                add(v, True)
        elif isinstance(t, ast.BoolOp) and isinstance(t.op, ast.Or) and not pol:
            for v in t.values:
                add(v, False)
        else:
            out.append((t, pol))
    for t, pol in conds:
        add(t, pol)
    return out


def strict_get_lookup(src, fi, gcall: ast.Call):
    """`V = <map>.get(key, SENTINEL)` followed by `if V is SENTINEL: raise <library exception>`: as strict as a guarded subscript.
    Returns the name V when the lookup is of that form, else None."""
    from ..callgraph import raises_of
    from ..runtime import may_complete_normally
    from ..paths import parent_map
    lib = library_exceptions(src)
    fn = fi.node
    parents = parent_map(fn)
    st = parents.get(gcall)
    if not (isinstance(st, ast.Assign) and len(st.targets) == 1 and isinstance(st.targets[0], ast.Name)):
        return None
    v = st.targets[0].id
    d = gcall.args[1] if len(gcall.args) > 1 else next((k.value for k in gcall.keywords if k.arg == 'default'), None)
    if d is None:
        dtxt = 'None'
    elif isinstance(d, ast.Constant) and d.value is None:
        dtxt = 'None'
    elif isinstance(d, ast.Name):
        # module-level sentinel: NAME = object()
        ok = any(isinstance(m, ast.Assign) and any(isinstance(t, ast.Name) and t.id == d.id for t in m.targets) and
                 isinstance(m.value, ast.Call) and isinstance(m.value.func, ast.Name) and m.value.func.id == 'object'
                 for m in fi.module.tree.body)
        if not ok:
            return None
        dtxt = d.id
    else:
        return None
    for n in ast.walk(fn):
        if isinstance(n, ast.If):
            t = ast.unparse(n.test)
            if t in (f'{v} is {dtxt}', f'{dtxt} is {v}', f'{v} == {dtxt}') :
                rs = raises_of(ast.Module(body=n.body, type_ignores=[]))
                if rs and all(e in lib for e, _ in rs) and not may_complete_normally(n.body):
                    return v
            if t in (f'{v} is not {dtxt}', f'{v} != {dtxt}') and n.orelse:
                rs = raises_of(ast.Module(body=n.orelse, type_ignores=[]))
                if rs and all(e in lib for e, _ in rs) and not may_complete_normally(n.orelse):
                    return v
    return None


def inlined_function(src, qualname: str, depth: int = 2):
    """(FunctionInfo copy whose node has the calls of helpers of its own class inlined -- top-level statement order kept)"""
    import copy as _copy
    from ..inline import inline_methods, class_resolver
    key = (id(src), 'inl', qualname, depth)
    if key in _norm_cache:
        return _norm_cache[key]
    fi = src.func(qualname)
    if fi is None:
        raise AnalysisError('common', f'{qualname} not found')
    if fi.cls is None:
        # a module-level function: private helpers of the same module are read in place
        from ..inline import module_resolver
        f2 = _copy.copy(fi)
        f2.node = inline_methods(fi.node, module_resolver(fi.module.tree, exclude={fi.node.name}), depth=depth)
        _norm_cache[key] = f2
        return f2
    from ..inline import inline_class_constants
    f2 = _copy.copy(fi)
    f2.node = inline_class_constants(inline_methods(fi.node, class_resolver(src, fi.cls, fi), depth=depth), fi.cls.node, fi.cls.name)
    _norm_cache[key] = f2
    return f2


# ---------------------------------------------------------------------------------------------------
# state of the runtime class is per instance
# ---------------------------------------------------------------------------------------------------
_MUTATORS = {'append', 'extend', 'insert', 'pop', 'remove', 'clear', 'update', 'setdefault', 'popitem', 'add', 'discard', 'sort',
             'reverse', '__setitem__', '__delitem__'}


def check_per_instance_state(run: Run, rule: str, rt):
    """a mutable object bound at class level of a runtime copy is one object for all instances of the generated class: when it
    is changed in place or handed out (returned), overrides / sizes of one instance show up in every other one"""
    import ast as _ast
    for cp in rt.copies():
        init = cp.members.get('__init__')
        per_instance = set()
        if init is not None:
            for n in _ast.walk(init):
                tg = n.targets if isinstance(n, _ast.Assign) else [n.target] if isinstance(n, (_ast.AnnAssign, _ast.AugAssign)) else []
                for t in tg:
                    if isinstance(t, _ast.Attribute) and isinstance(t.value, _ast.Name) and t.value.id == 'self':
                        per_instance.add(t.attr)

        def mutable(v):
            if isinstance(v, (_ast.Dict, _ast.List, _ast.Set, _ast.ListComp, _ast.DictComp, _ast.SetComp)):
                return True
            if isinstance(v, _ast.Name) and v.id.startswith('__HOLE_'):
                return True
            if isinstance(v, _ast.Call) and isinstance(v.func, _ast.Name) and v.func.id in ('dict', 'list', 'set', 'defaultdict',
                                                                                            'OrderedDict', 'bytearray'):
                return True
            return False
        n_seen = 0
        for st in cp.cls_node.body:
            names = []
            if isinstance(st, _ast.Assign):
                names, val = [t.id for t in st.targets if isinstance(t, _ast.Name)], st.value
            elif isinstance(st, _ast.AnnAssign) and st.value is not None and isinstance(st.target, _ast.Name):
                names, val = [st.target.id], st.value
            for name in names:
                if not mutable(val):
                    continue
                n_seen += 1
                construct = f'{name}[{cp.label}]'
                if name in per_instance:
                    run.ok(rule, construct, 'class-level default re-bound per instance in __init__', loc=cp.loc(st))
                    continue
                uses = []
                for mname, fn in cp.members.items():
                    for n in _ast.walk(fn):
                        if isinstance(n, _ast.Attribute) and n.attr == name and isinstance(n.value, _ast.Name) and n.value.id in ('self', 'cls'):
                            uses.append((mname, n))
                how = None
                for mname, fn in cp.members.items():
                    pm = {c: p for p in _ast.walk(fn) for c in _ast.iter_child_nodes(p)}
                    for n in _ast.walk(fn):
                        if not (isinstance(n, _ast.Attribute) and n.attr == name and isinstance(n.value, _ast.Name) and
                                n.value.id in ('self', 'cls')):
                            continue
                        p = pm.get(n)
                        # self.X[...] = / del self.X[...] / self.X[...][...] =
                        q, child = p, n
                        while isinstance(q, _ast.Subscript) and q.value is child:
                            if isinstance(q.ctx, (_ast.Store, _ast.Del)):
                                how = how or f'{mname} stores into it (`{_ast.unparse(q)[:50]}`)'
                            child, q = q, pm.get(q)
                        if isinstance(p, _ast.Attribute) and p.attr in _MUTATORS and isinstance(pm.get(p), _ast.Call) and pm.get(p).func is p:
                            how = how or f'{mname} calls .{p.attr}() on it'
                        if isinstance(p, _ast.Return) and p.value is n:
                            how = how or f'{mname} hands the object itself out'
                        if isinstance(p, _ast.AugAssign) and p.target is n:
                            how = how or f'{mname} updates it in place (`{_ast.unparse(p)[:50]}`)'
                run.check(how is None, rule, construct, 'state-shared-between-instances',
                          f'`{name}` of the {cp.label} copy is a mutable object bound at class level and not re-bound in __init__, and '
                          f'{how}: every instance of one generated class then shares it (overrides or sizes set through one instance '
                          f'appear in all others)', fact='class-level value never changed in place nor handed out', loc=cp.loc(st))
        # the instance attributes that hold state are bound in __init__
        for attr in ('_arguments', '_titles', '_sheets_size'):
            if any(isinstance(n, _ast.Attribute) and n.attr == attr for fn in cp.members.values() for n in _ast.walk(fn)):
                run.check(attr in per_instance, rule, f'{attr}[{cp.label}]/bound-per-instance', 'state-not-per-instance',
                          f'`self.{attr}` of the {cp.label} copy is not bound in __init__: the instance works on an object that '
                          f'belongs to the class', fact='bound in __init__', loc=cp.loc(init) if init is not None else cp.path)


def check_mutable_defaults(run: Run, rule: str, src, functions=None):
    """a mutable default value is created once per process: when the function changes it in place or hands it out, what one call
    put there is seen by every later call (other workbooks, other translations)"""
    import ast as _ast
    n = 0
    for f in (functions if functions is not None else src.functions.values()):
        a = f.node.args
        params = a.posonlyargs + a.args
        pairs = list(zip(params[len(params) - len(a.defaults):], a.defaults)) + \
            [(p, d) for p, d in zip(a.kwonlyargs, a.kw_defaults) if d is not None]
        for p, d in pairs:
            n += 1
            mutable = isinstance(d, (_ast.Dict, _ast.List, _ast.Set, _ast.ListComp, _ast.DictComp, _ast.SetComp)) or \
                (isinstance(d, _ast.Call) and isinstance(d.func, _ast.Name) and d.func.id in ('dict', 'list', 'set', 'defaultdict'))
            construct = f'{f.qualname}({p.arg}=...)'
            if not mutable:
                run.ok(rule, construct, 'immutable default', nontrivial=False, loc=loc_of(f.module.path, f.node))
                continue
            how = None
            rebound = any(isinstance(x, _ast.Name) and x.id == p.arg and isinstance(x.ctx, _ast.Store) for x in _ast.walk(f.node))
            pm = {c: q for q in _ast.walk(f.node) for c in _ast.iter_child_nodes(q)}
            for x in _ast.walk(f.node):
                if not (isinstance(x, _ast.Name) and x.id == p.arg and isinstance(x.ctx, _ast.Load)):
                    continue
                q = pm.get(x)
                child = x
                while isinstance(q, _ast.Subscript) and q.value is child:
                    if isinstance(q.ctx, (_ast.Store, _ast.Del)):
                        how = how or f'stores into it (`{_ast.unparse(q)[:50]}`)'
                    child, q = q, pm.get(q)
                q = pm.get(x)
                if isinstance(q, _ast.Attribute) and q.attr in _MUTATORS and isinstance(pm.get(q), _ast.Call) and pm.get(q).func is q:
                    how = how or f'calls .{q.attr}() on it'
                if isinstance(q, _ast.Return) and q.value is x:
                    how = how or 'returns the object itself'
                if isinstance(q, _ast.Assign) and q.value is x and any(isinstance(t, _ast.Attribute) for t in q.targets):
                    how = how or f'keeps the object (`{_ast.unparse(q)[:50]}`)'
            run.check(how is None or rebound, rule, construct, 'mutable-default-shared',
                      f'{f.qualname}: the default of `{p.arg}` is a mutable object created once per process and the function {how}: '
                      f'what one call leaves in it shows up in every later call that omits the argument', fact='default never changed '
                      'nor handed out', loc=loc_of(f.module.path, f.node))
    return n


# ---------------------------------------------------------------------------------------------------
# rejections propagate: a library exception raised below a call is not turned into a value on the way up
def swallowing_handlers(fn: ast.FunctionDef, catches) -> list:
    """(Try, handler, caught names) for the handlers of `fn` that catch one of the exceptions `catches(handler names) -> bool`
    decides on and that can end without raising (fall off their end, return, break or continue)"""
    from ..runtime import may_complete_normally
    out = []
    for t in ast.walk(fn):
        if not isinstance(t, ast.Try):
            continue
        for h in t.handlers:
            if h.type is None:
                names = ['<bare>']
            else:
                elts = h.type.elts if isinstance(h.type, ast.Tuple) else [h.type]
                names = [e.id if isinstance(e, ast.Name) else e.attr if isinstance(e, ast.Attribute) else '?' for e in elts]
            if not catches(names):
                continue
            leaves = may_complete_normally(h.body) or any(isinstance(n, (ast.Return, ast.Break, ast.Continue)) for st in h.body for n in ast.walk(st))
            if leaves:
                out.append((t, h, names))
    return out


def _selftest_swallowing():
    src_ = ("def f(x):\n    try:\n        return g(x)\n    except LibError:\n        if x:\n            raise\n        return 0\n"
            "def k(x):\n    try:\n        return g(x)\n    except LibError as e:\n        raise Other(str(e)) from e\n")
    tree = ast.parse(src_)
    a = swallowing_handlers(tree.body[0], lambda names: 'LibError' in names)
    b = swallowing_handlers(tree.body[1], lambda names: 'LibError' in names)
    if len(a) != 1 or b:
        raise AnalysisError('common', 'self-test of the swallowed-rejection rule failed')


def check_rejections_propagate(run: Run, rule: str, src, cg, raised_in: list, what: str, entry: str = 'Parser._translate'):
    """`raised_in`: qualified names of the functions whose library exception must reach the caller of `entry` (e.g. the cycle
    check).  For every function on the path from `entry`, every handler that catches that exception class, one of its bases, or
    everything, and whose guarded block can reach one of those functions, must end by raising."""
    _selftest_swallowing()
    lib = library_exceptions(src)
    targets = [src.func(q) for q in raised_in if src.has_func(q)]
    if not targets:
        raise AnalysisError(rule, f'none of {raised_in} found')
    # the classes those functions raise, with their bases inside the library hierarchy
    from ..callgraph import raises_of
    raised = set()
    for t in targets:
        for name, _ in raises_of(t.node):
            if name in lib:
                raised.add(name)
    if not raised:
        raise AnalysisError(rule, f'{raised_in} raise no library exception')
    wide = set()
    for name in raised:
        ci = src.cls(name)
        wide |= {getattr(c, 'name', str(c)).split('.')[-1] for c in src.mro(ci)}
    wide |= {'Exception', 'BaseException', '<bare>'}
    reach = cg.reachable([src.func(entry)])
    n = 0
    for key, (f, parent) in sorted(reach.items()):
        if f.module.name.endswith('abstract_excel_in_python_class'):
            continue
        n += 1
        sw = swallowing_handlers(f.node, lambda names: any(x in wide for x in names))
        hit = []
        for t, h, names in sw:
            # can the guarded block reach one of the raising functions?
            calls = [c for st in t.body for c in ast.walk(st) if isinstance(c, ast.Call)]
            sites = [s for s in cg.sites.get(f.key, []) if any(s.node is c for c in calls)]
            callees = [x for s in sites for x in s.targets]
            inner = cg.reachable(callees) if callees else {}
            if any(tt.key in inner for tt in targets) or any(s.how in ('unresolved',) for s in sites):
                hit.append((t, h, names))
        for t, h, names in hit:
            run.bad(rule, f'{f.qualname}/except {",".join(names)}', 'rejection-swallowed',
                    f'{f.qualname} catches {", ".join(names)} around a call that can reach {", ".join(raised_in)} and can go on without '
                    f'raising: {what} is turned into a value instead of rejecting the workbook', loc=loc_of(f.module.path, h))
        if not hit:
            run.ok(rule, f.qualname, 'no handler between the rejection and the caller', nontrivial=False, loc=loc_of(f.module.path, f.node))
    if n < 50:
        raise AnalysisError(rule, f'only {n} functions on the translation path')


def exception_bases(src) -> dict:
    """library exception class -> names of its ancestors (for handlers that name a base class)"""
    out = {}
    if not src.has_cls(LIB_ROOT):
        return out
    root = src.cls(LIB_ROOT)
    for c in [root] + list(src.subclasses(root)):
        out[c.name] = {getattr(b, 'name', str(b)).split('.')[-1] for b in src.mro(c)[1:]}
    return out


# ---------------------------------------------------------------------------------------------------
# mechanisms several properties rest on: each property that states something about values borrows the rules of the mechanisms
# its statement goes through, so that a change there is reported by every property it breaks
def shared_mechanisms(run: Run, prop: str, first: int, which: list):
    """borrows the named mechanisms as rules <prop>.R<first>, R<first+1>, ..."""
    from ..source import get_source
    from ..grammar import get_grammar
    from ..emission import get_emission
    from ..runtime import get_runtime
    from ..callgraph import get_callgraph
    src = get_source()
    g = get_grammar(src)
    n = first
    for name in which:
        rule = f'{prop}.R{n}'
        n += 1
        if name == 'stored-values':
            from . import c18
            run.rule(rule, 'the value a formula reads from a cell is the value stored in the workbook (shared with C18.R1/R3)')
            borrow(run, rule, c18.r1_any, src)
            run.floor(rule, 3)
        elif name == 'addresses':
            from . import c02
            run.rule(rule, 'a reference denotes the cells its text spells, beyond column Z and on other sheets too (shared with C02.R1)')
            borrow(run, rule, c02.r1_any, src, g)
            run.floor(rule, 20)
        elif name == 'areas':
            from . import c02
            run.rule(rule, 'an area consists of every cell between its corners, whole columns of every row of the sheet (shared with C02.R2)')
            borrow(run, rule, c02.r2, src)
            run.floor(rule, 8)
        elif name == 'references-minted':
            from . import c03
            run.rule(rule, 'every reference is translated through the cell translator for a registered member (shared with C03.R1/R2)')
            borrow(run, rule, c03.r1, src, g, get_emission(src), get_callgraph(src))
            borrow(run, rule, c03.r2, src, get_callgraph(src))
            run.floor(rule, 10)
        elif name == 'fresh-parse':
            from . import c02
            run.rule(rule, 'a formula is parsed for the cell that holds it (shared with C02.R8)')
            borrow(run, rule, c02.r8_fresh_parse, src)
            run.floor(rule, 1)
        elif name == 'literals':
            from . import lexer_eval
            run.rule(rule, 'a number literal denotes the number its text spells (shared with C05.R3)')
            run.guard(rule, shared, run, rule, lexer_eval.number_literal_obligations, src, g)
            run.floor(rule, 10)
        elif name == 'lexer':
            from . import lexer_eval
            run.rule(rule, 'the formula is cut into the tokens its text spells: separators, blanks, references (shared with C05.R3)')
            run.guard(rule, shared, run, rule, lexer_eval.lexer_obligations, src, g)
            run.floor(rule, 40)
        elif name == 'overrides':
            from . import executor_eval
            run.rule(rule, 'a value supplied as an override reaches the formulas as supplied -- zero, blank, dates and date-times too '
                           '(shared with C04.R1)')
            run.guard(rule, shared, run, rule, executor_eval.evaluate_histories, src)
            run.floor(rule, 40)
        elif name == 'no-value-specialisation':
            from . import c04
            run.rule(rule, 'no translator reads the stored value of a referenced cell into the code (shared with C04.R7)')
            borrow(run, rule, c04.r7_no_value_specialisation, src, get_emission(src))
            run.floor(rule, 20)
        elif name == 'rejections':
            run.rule(rule, 'a formula that is rejected is rejected: no handler on the translation path turns it into text (shared with C05.R11)')
            run.guard(rule, shared, run, rule, check_rejections_propagate, src, get_callgraph(src),
                      ['AstBuilder.parse', 'CompositeBaseToken.get', 'UndefinedToken.get'], 'a formula that does not fit the grammar')
            run.floor(rule, 50)
        elif name == 'override-lookup':
            from . import c04
            run.rule(rule, 'a cell that was given an override reports the override, whatever its value -- None, zero, empty text -- (shared '
                           'with C04.R2)')
            borrow(run, rule, c04.r2_eval, get_runtime(src))
            run.floor(rule, 10)
        elif name == 'no-history':
            from . import c09
            run.rule(rule, 'nothing computed from one translation is kept where the next one finds it: process-global stores on the '
                           'translation path are lazily initialised tables that depend on the class only (shared with C09.R4)')
            borrow(run, rule, c09.r3_r4, src, get_callgraph(src), only_rules={'C09.R4'})
            run.floor(rule, 5)
        elif name == 'current-values':
            from . import c08
            run.rule(rule, 'a reference evaluates to the value its cell has now for this object: no helper keeps a value between queries, '
                           'the state of the generated class is per instance (shared with C08.R1/R4, C18.R5)')
            borrow(run, rule, c08.r1, src, get_runtime(src), get_callgraph(src))
            borrow(run, rule, c08.r4, src, get_runtime(src))
            run.guard(rule, shared, run, rule, check_per_instance_state, get_runtime(src))
            run.floor(rule, 50)
        elif name == 'facade':
            from . import c09
            run.rule(rule, 'a request on the Parser answers for the workbook as it is now: a path set again is read again, a failed request '
                           'is not remembered as done (shared with C09.R1)')
            borrow(run, rule, c09.r1_any, src)
            run.floor(rule, 30)
        elif name == 'formulas':
            from . import pipeline_eval
            run.rule(rule, 'probe formulas of this property, translated and evaluated end to end by the evaluator (lexer, parser, translators, '
                           'context, generated class, runtime helpers as written), give the values Excel defines')
            run.guard(rule, shared, run, rule, pipeline_eval.formula_obligations, src, g, [prop], None if run.tier == 'thorough' else 6)
            run.floor(rule, 5)
        else:
            raise AnalysisError('common', f'unknown mechanism {name}')


def uid_by_evaluation(src):
    """{(title, column, row): uid text | 'raises <exc>'} of Cell.uid evaluated (engine F) on a few handled and unhandled cells"""
    from ..finite import evaluator_for_class, const_av, Unknown, AbsRaise
    ci = src.cls('Cell')
    fields = [(st.target.id, st.value) for st in ci.node.body if isinstance(st, ast.AnnAssign) and isinstance(st.target, ast.Name)]
    out = {}
    for coords, handled in (((1, 2, 3), True), ((0, 0, 0), True), ((12, 27, 104), True), ((0, 5, None), True), ((3, 4, 5), False), ((0, 'B', '2'), False),
                            (('S', 1, 2), True)):
        ev = evaluator_for_class(ci, max_depth=6)
        ev.classes = {'Cell': {n: m.node for n, m in ci.methods.items()}}
        at = {}
        vals = dict(zip(['title', 'column', 'row'], coords))
        for n, d in fields:
            at[n] = const_av(vals[n]) if n in vals else (ev.ev(d, {}) if d is not None else const_av(None))
        if handled and '_handled_identifiers' in at:
            at['_handled_identifiers'] = const_av(True)
        cell = ev.new_obj('Cell', at)
        try:
            v = ev.ev(ast.parse('c.uid', mode='eval').body, {'c': cell})
            out[(coords, handled)] = v.val if isinstance(v.val, str) else repr(v)
        except AbsRaise as e:
            out[(coords, handled)] = f'raises {e.exc}'
        except Unknown as u:
            raise AnalysisError('common', f'Cell.uid cannot be followed ({u})')
    return out


def check_uid(run: Run, rule: str, src):
    """the member name of a cell: '_' + title, column, row in this order joined by '_' ('any' for a whole column), a Python
    identifier, different for different cells; coordinates that are not numbers yet are refused"""
    got = uid_by_evaluation(src)
    ci = src.cls('Cell')
    loc = loc_of(ci.module.path, ci.methods['uid'].node) if 'uid' in ci.methods else ''
    want = {((1, 2, 3), True): '_1_2_3', ((0, 0, 0), True): '_0_0_0', ((12, 27, 104), True): '_12_27_104', ((0, 5, None), True): '_0_5_any',
            ((3, 4, 5), False): '_3_4_5'}
    for k, w in want.items():
        run.check(got.get(k) == w, rule, f'Cell.uid/{k[0]}', 'uid-order',
                  f'the member name of the cell (title, column, row) {k[0]} is {got.get(k)!r}; every consumer (executor, context, generated '
                  f'class) relies on {w!r}: title, column, row in this order', fact=f'-> {got.get(k)!r}', loc=loc)
    k = ((0, 'B', '2'), False)
    run.check(str(got.get(k, '')).startswith('raises'), rule, f'Cell.uid/{k[0]} unhandled', 'uid-of-unhandled-cell',
              f'a cell whose coordinates are still texts gets the member name {got.get(k)!r}; it must be refused (the name would not be the one '
              f'of the cell)', fact=f'-> {got.get(k)!r}', loc=loc)
