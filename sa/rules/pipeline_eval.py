"""Formula -> value, end to end, by abstract evaluation (engine F).

A small workbook is given as data; for every probe formula the whole translation pipeline is evaluated as written -- Lexer,
AstBuilder, the token classes and their accessors, every translator the formula reaches, the Excel reader's area methods on the
model data, the Context and its class template -- which yields the text of a generated class.  That text is parsed, and the cell
member of the formula is evaluated with the same evaluator against the helpers printed into the class (the template copy of the
runtime).  The value must be the one Excel defines for the formula.  Nothing of the repository is imported or run; the generated
text is only parsed.
"""
from __future__ import annotations

import ast
import sys

from ..core import AnalysisError, Run, loc_of

SHEETS = [
    ('S0', [[1, 2, 3, 'x', None], [4, 5, 6, 'y', None], [7.5, -2, 0, 'Abc', None]]),
    ('S1', [[10, 20, '=A1/0'], [30, 40]]),
]
FORMULA_AT = (0, 6, 0)            # G1 of the first sheet holds the probe formula

# (formula, value Excel defines, properties the formula belongs to)
PROBES = [
    ('=1+2*3', 7, 'C01'), ('=(1+2)*3', 9, 'C01'), ('=10-4-3', 3, 'C01'), ('=2*3+4*5', 26, 'C01'), ('=8/4/2', 1.0, 'C01'), ('=10%', 0.1, 'C01'),
    ('=A1+B1*C1', 7, 'C01'), ('=A2/B1', 2.0, 'C01'), ('=A1-B1-C1', -4, 'C01'), ('=A1&B1', '12', 'C01'), ('="a"&"b"', 'ab', 'C01'),
    ('=A1<B1', True, 'C10'), ('=A1=1', True, 'C10'), ('=D1="x"', True, 'C10'), ('=A1<>B1', True, 'C10'), ('=A3>=7.5', True, 'C10'),
    ('=B3<0', True, 'C10'), ('=A1>B1', False, 'C10'), ('=E1=0', True, 'C10'), ('=1.5<1.25', False, 'C10'),
    ('=SUM(A1:C1)', 6, 'C11'), ('=SUM(A1:C2)', 21, 'C11'), ('=SUM(A1;B1)', 3, 'C11'), ('=SUM(A1,B1,10)', 13, 'C11'), ('=SUM(A:A)', 12.5, 'C11'),
    ('=AVERAGE(A1:C1)', 2.0, 'C11'), ('=MIN(A1:C3)', -2, 'C11'), ('=MAX(A1:C3)', 7.5, 'C11'), ('=COUNT(A1:D2)', 6, 'C11'),
    ('=COUNTBLANK(A1:E1)', 1, 'C11'), ('=AND(TRUE;FALSE)', False, 'C11'), ('=OR(A1>5;B1>1)', True, 'C11'), ('=SUM(A1:D1)', 6, 'C11'),
    ('=IF(A1>0;"yes";"no")', 'yes', 'C13'), ('=IF(A1>5;1;2)', 2, 'C13'), ('=IF(C3=0;0;A1/C3)', 0, 'C13'), ('=IF(C3<>0;A1/C3;-1)', -1, 'C13'),
    ('=IFERROR("r"&S1!C1;"fb")', 'fb', 'C13'), ('=IFERROR(S1!C1*2;"fb")', 'fb', 'C13'), ('=IFERROR(A1/C3;"err")', 'err', 'C13'), ('=IFERROR(A1/B1;"err")', 0.5, 'C13'), ('=IFS(A1>5;1;A1>0;2)', 2, 'C13'), ('=1+IF(A1>0;10;20)', 11, 'C13'),
    ('=SUMIFS(A1:A3;A1:A3;">0";B1:B3;"<10";C1:C3;">0")', 5, 'C12'), ('=COUNTIFS(A1:A3;">0";B1:B3;"<10";C1:C3;"<7";D1:D3;"y")', 1, 'C12'),
    ('=SUMIF(A1:A3;">2")', 11.5, 'C12'), ('=SUMIF(A1:A3;">2";B1:B3)', 3, 'C12'), ('=SUMIFS(C1:C3;A1:A3;">2")', 6, 'C12'),
    ('=COUNTIFS(A1:A3;">2")', 2, 'C12'), ('=AVERAGEIFS(B1:B3;A1:A3;">2")', 1.5, 'C12'), ('=SUMIF(A1:A3;">2";S1!A1:A3)', 30, 'C12'),
    ('=COUNTIFS(D1:D3;"x")', 1, 'C12'), ('=SUMIFS(A1:A3;D1:D3;"y")', 4, 'C12'),
    ('=AVERAGEIFS(A1:A3;A1:A3;">0";B1:B3;"<10";C1:C3;">0")', 2.5, 'C12'), ('=SUMIF(A1:A3;">2";B1:B2)', 3, 'C12'), ('=SUMIF(A1:A3;">0";B1)', 5, 'C12'),
    ('=VLOOKUP(4;A1:C3;2;FALSE)', 5, 'C14'), ('=MATCH(4;A1:A3;0)', 2, 'C14'), ('=INDEX(A1:C3;2;3)', 6, 'C14'), ('=VLOOKUP(4;A1:C3;3;FALSE)', 6, 'C14'),
    ('=MATCH(5;A1:A3;1)', 2, 'C14'), ('=INDEX(A1:C3;1;1)', 1, 'C14'),
    ('=LEFT("abcdef";2)', 'ab', 'C17'), ('=RIGHT("abcdef";2)', 'ef', 'C17'), ('=MID("abcdef";2;3)', 'bcd', 'C17'), ('=SEARCH("c";"abcdef")', 3, 'C17'),
    ('=CONCATENATE("a";"b";A1)', 'ab1', 'C17'), ('=VALUE("12")', 12, 'C17'), ('=LEFT(D3;1)&RIGHT(D3;1)', 'Ac', 'C17'), ('=D1&D2', 'xy', 'C17'),
    ('=ROUND(2.5;0)', 3.0, 'C16'), ('=ROUNDUP(2.41;1)', 2.5, 'C16'), ('=ROUNDDOWN(2.49;1)', 2.4, 'C16'), ('=ROUND(A3;0)', 8.0, 'C16'),
    ('=ROUND(1234.5675;3)', 1234.568, 'C16'), ('=A3%', 0.075, 'C16'),
    ('=YEAR(DATE(2024;3;5))', 2024, 'C15'), ('=MONTH(DATE(2024;3;5))', 3, 'C15'), ('=DAY(DATE(2024;3;5))', 5, 'C15'), ('=MONTH(DATE(2024;14;1))', 2, 'C15'),
    ('=DAY(EOMONTH(DATE(2024;1;15);1))', 29, 'C15'), ('=DAY(EDATE(DATE(2024;1;31);1))', 29, 'C15'),
    ('=S1!A1+1', 11, 'C02'), ('=SUM(S1!A1:B2)', 100, 'C02'), ("='S1'!B2", 40, 'C02'), ('=S1!B1-S1!A1', 10, 'C02'), ('=SUM(S1!A:A)', 40, 'C02'),
    ('=$A$1+$B1+C$1', 6, 'C02'), ('=SUM(A1:A1)', 1, 'C02'), ('=SUM(B:C)', 14, 'C02'),
]


# formulas the library must reject with an exception of its own (never a foreign one, never a value)
REJECT_PROBES = ['=SUM(B:C5)', '=SUM(B:B5)', "=SUM('S1'!B:C2)", '=SUM(A1:B2:C3)', '=A1+', '=SUM(1;2', '=NOSUCH(1)', '=1 2', '=IF()', '=LEFT("a";1;2;3)',
                 '=NoSheet!A1', '=SUM(NoSheet!A1:A2)']


def reject_obligations(run: Run, rule: str, src, g):
    from ..finite import Unknown, AbsRaise
    from .common import library_exceptions
    lib = library_exceptions(src)
    ct = src.cls('CellTranslator')
    loc = loc_of(ct.module.path, ct.node)
    old = sys.getrecursionlimit()
    sys.setrecursionlimit(max(old, 120000))
    try:
        for formula in REJECT_PROBES:
            construct = f'rejected formula/{formula}'
            try:
                pl = Pipeline(src, g)
                text, uid = pl.translate(SHEETS, formula)
                got = 'translated'
            except Unknown as u:
                raise AnalysisError(rule, f'{construct}: the abstraction cannot follow the pipeline ({str(u)[:160]})')
            except AbsRaise as e:
                got = 'library exception' if e.exc in lib else f'raises {e.exc}'
            run.check(got == 'library exception', rule, construct, 'not-rejected',
                      f'the formula {formula} ends in: {got}; a formula the library cannot translate is rejected with an exception of the '
                      f'library, wherever the problem is noticed', fact=got, loc=loc)
    finally:
        sys.setrecursionlimit(old)


CYCLIC_BOOKS = [
    ('two cells', [('S', [[1, '=C1+1', '=B1*2']])]),
    ('a cell inside its own area', [('S', [[1], [2], ['=SUM(A1:A3)']])]),
    ('across sheets', [('S', [['=T!A1+1', 5]]), ('T', [["=S!A1*2", 7]])]),
    ('a cell that mentions itself in a branch', [('S', [[0, '=IF(A1>0;B1;2)']])]),
]


def cycle_obligations(run: Run, rule: str, src, g):
    """a workbook whose formulas depend on themselves is rejected with an exception of the library -- whole file and from an entry
    point inside the cycle; a translation that does not come back (the evaluator's depth bound on a workbook of three cells) is the
    unbounded descent a RecursionError ends"""
    from ..finite import Unknown, AbsRaise, AV, const_av
    from .common import library_exceptions
    lib = library_exceptions(src)
    ct = src.cls('CellTranslator')
    loc = loc_of(ct.module.path, ct.node)
    old = sys.getrecursionlimit()
    sys.setrecursionlimit(max(old, 120000))
    try:
        for name, sheets in CYCLIC_BOOKS:
            for mode in ('whole file', 'entry point'):
                construct = f'cyclic workbook/{name}/{mode}'
                try:
                    pl = Pipeline(src, g)
                    pl.ev.max_depth = 400
                    if mode == 'whole file':
                        pl.translate_file(sheets)
                    else:
                        formula_at = next((t, c, r) for t, (_, d) in enumerate(sheets) for r, row in enumerate(d) for c, v in enumerate(row)
                                          if isinstance(v, str) and v.startswith('='))
                        t, c, r = formula_at
                        pl.translate(sheets, sheets[t][1][r][c], where=formula_at)
                    got = 'translated'
                except Unknown as u:
                    if 'depth exceeded' in str(u):
                        got = 'unbounded descent (RecursionError)'
                    else:
                        raise AnalysisError(rule, f'{construct}: the abstraction cannot follow the pipeline ({str(u)[:160]})')
                except RecursionError:
                    got = 'unbounded descent (RecursionError)'
                except AbsRaise as e:
                    got = 'library exception' if e.exc in lib else f'raises {e.exc}'
                run.check(got == 'library exception', rule, construct, 'cycle-not-rejected',
                          f'the workbook with a dependency cycle ({name}, {mode}) ends in: {got}; it is rejected with an exception of the library',
                          fact=got, loc=loc)
    finally:
        sys.setrecursionlimit(old)


def _lst(x):
    from ..finite import AV, const_av
    return AV('list', items=tuple(_lst(y) for y in x)) if isinstance(x, list) else const_av(x)


class Pipeline:
    def __init__(self, src, g):
        from . import lexer_eval as L
        from .common import exception_bases
        from ..finite import AV, const_av
        self.src, self.g = src, g
        ev, _ = L.build(src, g)
        ev.max_depth = 900
        table = L._composite_table(src, g)
        table['Lexer'] = ev.class_table['Lexer']

        def add(ci):
            table[ci.name] = {'mro': [getattr(c, 'name', str(c)) for c in src.mro(ci)], 'attrs': dict(ci.attrs),
                              'bases': [getattr(b, 'name', str(b)) for b in src.bases(ci)],
                              'methods': {n: m.node for n, m in ci.methods.items()}}
            for st in ci.module.tree.body:
                if isinstance(st, ast.FunctionDef):
                    ev.functions.setdefault(st.name, st)
        for name in ('AstBuilder', 'CellTranslator', 'Context', 'Excel', 'Cell'):
            add(src.cls(name))
        cc = src.cls('Cell')
        table['Cell']['fields'] = [(st.target.id, st.value) for st in cc.node.body if isinstance(st, ast.AnnAssign) and isinstance(st.target, ast.Name)]
        decos = [ast.unparse(d) for d in cc.node.decorator_list]
        if any(d.split('(')[0].endswith('dataclass') for d in decos) and not any('eq=False' in d.replace(' ', '') for d in decos):
            ev.dataclass_fields = {'Cell': [n for n, _ in table['Cell']['fields']]}
        at = src.cls('AbstractTranslator')
        add(at)
        for ci in src.subclasses(at):
            add(ci)
        hc = src.func('handle_cell')
        for mod in [hc.module] + [m for n, m in src.modules.items() if n.endswith('.helper') or n.endswith('utilities.helper')]:
            for st in mod.tree.body:
                if isinstance(st, ast.FunctionDef):
                    ev.functions.setdefault(st.name, st)
        ev.exception_bases = exception_bases(src)
        ev.class_table = table
        from ..finite import memoizable
        tokens_only = L._composite_table(src, g)
        ev.memo_functions, ev.pure_ids = memoizable(tokens_only, {'get'}, set(ev.exception_bases), {'subclasses'})
        self.memoized = len(ev.memo_functions)
        mods = {}
        for ci_ in src.subclasses(src.cls('BaseToken')):
            mods[ci_.module.name] = ci_.module
        for m_ in mods.values():
            for st in m_.tree.body:
                if isinstance(st, ast.Expr) and isinstance(st.value, ast.Call) and isinstance(st.value.func, ast.Attribute) and \
                        st.value.func.attr == 'add_token_set':
                    ev.exec_stmt(st, {})
        leaves = [k for k in table if not any(k in e.get('bases', []) for e in table.values())]

        sub_memo = {}

        def subclasses_of(cname):
            if cname in sub_memo:
                return sub_memo[cname]
            out = [k for k in leaves if cname in table[k]['mro'][1:]]
            if 'UndefinedToken' in table and 'UndefinedToken' not in out:
                out.append('UndefinedToken')
            sub_memo[cname] = AV('list', items=tuple(AV('other', val=('class', k)) for k in out))
            return sub_memo[cname]
        for cname in table:
            if 'subclasses' in {n for k in table[cname]['mro'] if k in table for n in table[k]['methods']}:
                ev.class_state[(cname, 'subclasses')] = AV('func', val=('native', lambda a, c_=cname: subclasses_of(c_)))
        self.ev = ev

    def _objects(self, sheets):
        from ..finite import AV, const_av
        ev = self.ev
        rows = [[list(r) for r in data] for _, data in sheets]
        titles = AV('dict', items=tuple(AV('tuple', items=(const_av(n), const_av(i))) for i, (n, _) in enumerate(sheets)))
        sizes = [{'last_column': max((len(x) for x in d), default=0), 'last_row': len(d)} for d in rows]
        excel = ev.new_obj('Excel', {'_data': _lst(rows), '_titles': titles, '_suspicious_cells': AV('dict', items=()),
                                     '_sheets_size': AV('list', items=tuple(AV('dict', items=tuple(AV('tuple', items=(const_av(k), const_av(v)))
                                                                                               for k, v in z.items())) for z in sizes))})
        ctx = ev.construct('Context', [])
        ev.obj_attrs(ctx)['_titles'] = titles
        ev.obj_attrs(ctx)['_sheets_size'] = ev.obj_attrs(excel)['_sheets_size']
        return rows, excel, ctx

    def translate_file(self, sheets):
        """(class text, {(sheet, column, row): uid}) of the whole-file translation"""
        from ..finite import AV, const_av, Unknown
        ev = self.ev
        rows, excel, ctx = self._objects(sheets)
        ev.call_class_func(ev.class_table['CellTranslator']['methods']['translate_file'], AV('other', val=('class', 'CellTranslator')), [excel, ctx])
        text = ev.call_bound(ev.class_method(ctx, 'build_class'), ctx, [])
        if not isinstance(text.val, str):
            raise Unknown('the class text is not a known text')
        uids = {}
        for t, d in enumerate(rows):
            for r, row in enumerate(d):
                for c, _ in enumerate(row):
                    cell = ev.construct('Cell', [const_av(t), const_av(c), const_av(r)])
                    uids[(t, c, r)] = ev.ev(ast.parse('c.uid', mode='eval').body, {'c': cell}).val
        return text.val, uids

    def translate(self, sheets, formula, where=FORMULA_AT):
        """the text of the class generated for the workbook with the formula at `where`, translated from that cell"""
        from ..finite import AV, const_av
        ev = self.ev
        rows = [[list(r) for r in data] for _, data in sheets]
        t, c, r = where
        while len(rows[t]) <= r:
            rows[t].append([])
        while len(rows[t][r]) <= c:
            rows[t][r].append(None)
        if formula is not None:
            rows[t][r][c] = formula
        titles = AV('dict', items=tuple(AV('tuple', items=(const_av(n), const_av(i))) for i, (n, _) in enumerate(sheets)))
        sizes = [{'last_column': max((len(x) for x in d), default=0), 'last_row': len(d)} for d in rows]
        excel = ev.new_obj('Excel', {'_data': _lst(rows), '_titles': titles, '_suspicious_cells': AV('dict', items=()),
                                     '_sheets_size': AV('list', items=tuple(AV('dict', items=tuple(AV('tuple', items=(const_av(k), const_av(v)))
                                                                                               for k, v in z.items())) for z in sizes))})
        ctx = ev.construct('Context', [])
        ev.obj_attrs(ctx)['_titles'] = titles
        ev.obj_attrs(ctx)['_sheets_size'] = ev.obj_attrs(excel)['_sheets_size']
        cell = ev.construct('Cell', [const_av(t), const_av(c), const_av(r)])
        ev.call_class_func(ev.class_table['CellTranslator']['methods']['translate'], AV('other', val=('class', 'CellTranslator')), [cell, excel, ctx])
        text = ev.call_bound(ev.class_method(ctx, 'build_class'), ctx, [])
        if not isinstance(text.val, str):
            from ..finite import Unknown
            raise Unknown('the class text is not a known text')
        uid = ev.ev(ast.parse('c.uid', mode='eval').body, {'c': cell})
        return text.val, uid.val


def evaluate_generated(text: str, uid: str, overrides=None):
    """the value of the member `uid` of the generated class text, by evaluation of that text"""
    import warnings
    from types import SimpleNamespace
    from ..finite import evaluator_for, AV, const_av, Unknown
    from ..runtime import _collect
    with warnings.catch_warnings():
        warnings.simplefilter('ignore')
        tree = ast.parse(text)
    from ..normalize import canonicalize_module
    tree = canonicalize_module(tree)
    cls = [st for st in tree.body if isinstance(st, ast.ClassDef)]
    if len(cls) != 1:
        raise Unknown('the generated module does not define exactly one class')
    members, nested = _collect(cls[0])
    ev = evaluator_for(SimpleNamespace(members=members, cls_node=cls[0], module_tree=tree), max_depth=400)
    me = ev.new_obj('ExcelInPython', {})
    methods = AV('dict', items=tuple(AV('tuple', items=(const_av(n), AV('func', val=('native', lambda a, n_=n: ev.call_method(n_, [], me)))))
                                     for n in members if '.' not in n))
    ev.text_attrs = {'self.__dict__': AV('dict', items=()), 'self.__class__.__dict__': methods, 'type(self).__dict__': methods}
    ev.call_method('__init__', [], me)
    if overrides:
        batch = AV('list', items=tuple(AV('dict', items=(AV('tuple', items=(const_av('uid'), const_av(u))), AV('tuple', items=(const_av('value'), const_av(v)))))
                                       for u, v in overrides))
        ev.call_method('set_arguments', [batch], me)
    return ev, ev.call_method('exec_function_in', [const_av(uid)], me)


def _plain(res):
    if res.kind == 'blank':
        return 'blank'
    if res.kind == 'none':
        return None
    if res.kind in ('date', 'datetime') and isinstance(res.val, tuple) and res.val[:1] == ('ymd',):
        return res.val[1:]
    if res.val is not None and not isinstance(res.val, tuple):
        return res.val
    return repr(res)


def _same(got, want):
    if isinstance(want, bool) or isinstance(got, bool):
        return isinstance(got, bool) and isinstance(want, bool) and got == want
    if isinstance(want, (int, float)) and isinstance(got, (int, float)):
        return abs(got - want) < 1e-9
    return type(got) is type(want) and got == want


def formula_obligations(run: Run, rule: str, src, g, props=None, limit=None):
    from ..finite import Unknown, AbsRaise
    ct = src.cls('CellTranslator')
    loc = loc_of(ct.module.path, ct.node)
    old = sys.getrecursionlimit()
    sys.setrecursionlimit(max(old, 120000))
    try:
        probes = [p for p in PROBES if props is None or p[2] in props]
        if limit:
            probes = probes[:limit]
        for formula, want, prop in probes:
            construct = f'formula/{formula}'
            try:
                pl = Pipeline(src, g)
                text, uid = pl.translate(SHEETS, formula)
                _, res = evaluate_generated(text, uid)
                got = _plain(res)
            except Unknown as u:
                raise AnalysisError(rule, f'{construct}: the abstraction cannot follow the pipeline ({str(u)[:160]})')
            except AbsRaise as e:
                got = f'raises {e.exc}'
            except SyntaxError as e:
                got = f'generated text does not parse ({e.msg})'
            run.check(_same(got, want), rule, construct, 'formula-value',
                      f'on the workbook {[(n, d) for n, d in SHEETS]} the formula {formula} in G1 evaluates to {got!r}; Excel: {want!r}',
                      fact=f'-> {got!r}', loc=loc)
    finally:
        sys.setrecursionlimit(old)


# ---------------------------------------------------------------------------------------------------
# a workbook of dependent formulas: whole-file translation, entry-point slices, overrides
BOOK = [
    ('S0', [[1, '=SUM(A1:A3)', '=IF(B1>5;B2;B3)', '=SUM(A1:B3)', '=SUMIF(A1:A3;">1";B1:B2)'], [2, '=B1*2'], [3, '=S1!A1+B2']]),
    ('S1', [['=S0!A1+10', 5, '=S0!A1/0', '=IFERROR("r"&C1;"fb")', '=IFERROR(C1*2;"fb2")']]),
]
BOOK_VALUES = {(0, 0, 0): 1, (0, 0, 1): 2, (0, 0, 2): 3, (0, 1, 0): 6, (0, 1, 1): 12, (1, 0, 0): 11, (0, 1, 2): 23, (0, 2, 0): 12, (0, 3, 0): 47, (1, 1, 0): 5, (0, 4, 0): 35,
               (1, 3, 0): 'fb', (1, 4, 0): 'fb2'}
# overrides: (batch of (sheet, column, row, value), expected values of some cells afterwards)
BOOK_OVERRIDES = [
    ('a constant', [((0, 0, 0), 10)], {(0, 1, 0): 15, (0, 1, 1): 30, (1, 0, 0): 20, (0, 1, 2): 50, (0, 3, 0): 110}),
    ('a formula cell', [((0, 1, 0), 100)], {(0, 1, 1): 200, (0, 2, 0): 200, (0, 3, 0): 1 + 2 + 3 + 100 + 200 + 211}),
    ('zero', [((0, 0, 1), 0)], {(0, 1, 0): 4, (0, 1, 1): 8}),
    ('two cells', [((0, 0, 0), 0), ((0, 0, 2), -3)], {(0, 1, 0): -1, (0, 1, 1): -2, (1, 0, 0): 10}),
    ('the same cell twice', [((0, 0, 0), 7), ((0, 0, 0), 8)], {(0, 1, 0): 13}),
]


def book_obligations(run: Run, rule_slice: str, rule_override: str, src, g):
    """whole-file translation and entry-point slices of a workbook of dependent formulas give every cell the same value -- the
    one Excel computes --, and an override replaces the cell for everything that depends on it"""
    from ..finite import AV, const_av, Unknown, AbsRaise
    ct = src.cls('CellTranslator')
    loc = loc_of(ct.module.path, ct.node)
    old = sys.getrecursionlimit()
    sys.setrecursionlimit(max(old, 120000))
    try:
        def value(text, uid, overrides=None):
            try:
                _, res = evaluate_generated(text, uid, overrides)
                return _plain(res)
            except AbsRaise as e:
                return f'raises {e.exc}'
        try:
            pl = Pipeline(src, g)
            whole, uids = pl.translate_file(BOOK)
        except Unknown as u:
            raise AnalysisError(rule_slice, f'whole-file translation: the abstraction cannot follow the pipeline ({str(u)[:160]})')
        except AbsRaise as e:
            run.bad(rule_slice, 'workbook/whole file', f'raises:{e.exc}', f'translating the probe workbook raises {e.exc}', loc=loc)
            return
        for key, want in sorted(BOOK_VALUES.items()):
            construct = f'workbook/whole file/{key}'
            try:
                got = value(whole, uids[key])
            except Unknown as u:
                raise AnalysisError(rule_slice, f'{construct}: the abstraction cannot follow the generated class ({str(u)[:160]})')
            run.check(_same(got, want), rule_slice, construct, 'workbook-value',
                      f'in the whole-file translation of the probe workbook the cell (sheet, column, row) {key} evaluates to {got!r}; Excel: {want!r}',
                      fact=f'-> {got!r}', loc=loc)
        formulas = [k for k in BOOK_VALUES if isinstance(_cell(BOOK, k), str) and _cell(BOOK, k).startswith('=')]
        for key in sorted(formulas):
            construct = f'workbook/entry {key}'
            try:
                pl2 = Pipeline(src, g)
                text, uid = pl2.translate(BOOK, None, where=key)
                got = value(text, uid)
            except Unknown as u:
                raise AnalysisError(rule_slice, f'{construct}: the abstraction cannot follow the pipeline ({str(u)[:160]})')
            except AbsRaise as e:
                got = f'raises {e.exc}'
            run.check(_same(got, BOOK_VALUES[key]), rule_slice, construct, 'slice-value',
                      f'translated from the entry point {key} the cell evaluates to {got!r}; the whole workbook gives {BOOK_VALUES[key]!r}: the '
                      f'slice must hold every cell the entry point depends on, with the same meaning', fact=f'-> {got!r}', loc=loc)
        for name, batch, wants in BOOK_OVERRIDES:
            ov = [(uids[k], v) for k, v in batch]
            for key, want in sorted(wants.items()):
                construct = f'workbook/override {name}/{key}'
                try:
                    got = value(whole, uids[key], ov)
                except Unknown as u:
                    raise AnalysisError(rule_override, f'{construct}: the abstraction cannot follow the generated class ({str(u)[:160]})')
                run.check(_same(got, want), rule_override, construct, 'override-value',
                          f'with the overrides {batch} the cell {key} evaluates to {got!r}; a workbook edited that way gives {want!r}',
                          fact=f'-> {got!r}', loc=loc)
    finally:
        sys.setrecursionlimit(old)


def _cell(book, key):
    t, c, r = key
    rows = book[t][1]
    return rows[r][c] if r < len(rows) and c < len(rows[r]) else None


# ---------------------------------------------------------------------------------------------------
# the Context: which references it hands out and which members the class text defines for them
def context_obligations(run: Run, rule: str, src, g):
    """Context evaluated as written on a short history: a reference is handed out exactly for a registered cell, the same
    sub-expression of one cell gets the same reference whenever it is asked for, different ones and other cells get their own,
    and the class text defines every member a reference names -- with the code that was registered for it"""
    import re
    from ..finite import AV, const_av, Unknown, AbsRaise
    ctxc = src.cls('Context')
    loc = loc_of(ctxc.module.path, ctxc.node)
    try:
        pl = Pipeline(src, g)
        ev = pl.ev
        ctx = ev.construct('Context', [])
        ev.obj_attrs(ctx)['_titles'] = AV('dict', items=())
        ev.obj_attrs(ctx)['_sheets_size'] = AV('list', items=())

        def cell(t, c, r):
            return ev.construct('Cell', [const_av(t), const_av(c), const_av(r)])

        def call(name, *args):
            return ev.call_bound(ev.class_method(ctx, name), ctx, list(args))
        c1, c2, c3 = cell(0, 0, 0), cell(0, 1, 0), cell(1, 0, 0)
        before = call('get_cell', c1)
        r1 = call('set_cell', c1, const_av('CODE_1'))
        again = call('get_cell', c1)
        other = call('get_cell', c2)
        s_a = call('set_sub_cell', c1, const_av('SUB_A'))
        s_a2 = call('set_sub_cell', c1, const_av('SUB_A'))
        s_b = call('set_sub_cell', c1, const_av('SUB_B'))
        s_a3 = call('set_sub_cell', c1, const_av('SUB_A'))
        s_c = call('set_sub_cell', c1, const_av('SUB_C'))
        s_b2 = call('set_sub_cell', c1, const_av('SUB_B'))
        o_a = call('set_sub_cell', c3, const_av('SUB_A'))
        r3 = call('set_cell', c3, const_av('CODE_3'))
        text = call('build_class')
    except Unknown as u:
        raise AnalysisError(rule, f'Context: the abstraction cannot follow the context ({str(u)[:160]})')
    except AbsRaise as e:
        run.bad(rule, 'Context/history', f'raises:{e.exc}', f'the context raises {e.exc} on a plain history of registrations', loc=loc)
        return

    def txt(v):
        return None if v.kind == 'none' else v.val if isinstance(v.val, str) else repr(v)
    vals = {k: txt(v) for k, v in dict(before=before, r1=r1, again=again, other=other, s_a=s_a, s_a2=s_a2, s_b=s_b, s_a3=s_a3, s_c=s_c, s_b2=s_b2,
                                       o_a=o_a, r3=r3).items()}
    checks = [
        ('unregistered-cell-has-no-reference', vals['before'] is None and vals['other'] is None,
         f'get_cell gives {vals["before"]!r} before the cell is registered and {vals["other"]!r} for a cell that never is: a reference may only name '
         f'a member that exists'),
        ('registered-cell-has-one-reference', vals['r1'] is not None and vals['again'] == vals['r1'],
         f'set_cell returned {vals["r1"]!r}, get_cell afterwards {vals["again"]!r}'),
        ('same-sub-expression-same-reference', vals['s_a'] is not None and vals['s_a2'] == vals['s_a'] == vals['s_a3'] and vals['s_b2'] == vals['s_b'],
         f'the sub-expression SUB_A of one cell was given {vals["s_a"]!r}, {vals["s_a2"]!r} and, after SUB_B was registered, {vals["s_a3"]!r}; SUB_B '
         f'{vals["s_b"]!r} then {vals["s_b2"]!r}'),
        ('different-sub-expressions-differ', len({vals['s_a'], vals['s_b'], vals['s_c'], vals['o_a'], vals['r1'], vals['r3']}) == 6,
         f'references {[vals[k] for k in ("s_a", "s_b", "s_c", "o_a", "r1", "r3")]} must be six different members'),
    ]
    for sub, ok, msg in checks:
        run.check(ok, rule, f'Context/{sub}', sub, msg, fact=sub, loc=loc)
    if not isinstance(text.val, str):
        raise AnalysisError(rule, 'Context.build_class: the class text is not a known text')
    defs = dict(re.findall(r"def (\w+)\(self\):\n\s+return (.*)", text.val))
    for key, code in (('r1', 'CODE_1'), ('r3', 'CODE_3'), ('s_a', 'SUB_A'), ('s_b', 'SUB_B'), ('s_c', 'SUB_C'), ('o_a', 'SUB_A')):
        ref = vals[key] or ''
        m = re.search(r"\('([^']+)'\)", ref)
        name = m.group(1) if m else None
        got = defs.get(name) if name else None
        run.check(got == code, rule, f'Context/member of {key}', 'member-of-reference',
                  f'the reference {ref!r} names the member {name!r}; the class text defines it as `{got}`, registered was `{code}`',
                  fact=f'{name} -> {code}', loc=loc)


# ---------------------------------------------------------------------------------------------------
# hostile text end to end: titles, constants and formula literals come back as the texts they are
HOSTILE_TITLES = ["It's", 'Say "hi"', '{0} {x} {}', "a'''b", 'back\\slash', 'q"""q', 'plain']
HOSTILE_TEXTS = ["it's", 'say "hi"', '{name}', '}}', '{', "'quoted'", "'", '\\', 'a\\nb', 'line\nbreak', "''' + __import__('os').getcwd() + '''",
                 '"); import os; ("', '%s %(x)s', 'é ü 日本', '\\x41', 'eval(1)', "'=A1+1", '{{}}', '#{x}', 'tab\there']
# string literals of a formula cannot hold a double quote; everything else must come back unchanged
HOSTILE_LITERALS = ["it's", '{name}', '}}', "'", '\\', 'a\\nb', "''' + 1 + '''", '%s', 'é ü', '{0}', "x'); import os; ('", 'C:\\new\\table', 'C:\\отчёты\\new', 'ü\\n']


def hostile_obligations(run: Run, rule: str, src, g):
    from ..finite import AV, const_av, Unknown, AbsRaise
    ct = src.cls('Context')
    loc = loc_of(ct.module.path, ct.node)
    old = sys.getrecursionlimit()
    sys.setrecursionlimit(max(old, 120000))
    try:
        rows0 = [[t] for t in HOSTILE_TEXTS]
        rows1 = [[f'="{lit}"', f'="<"&"{lit}"&">"', f'=CONCATENATE("{lit}";"c";"d")', f'=CONCATENATE("c";"{lit}")'] for lit in HOSTILE_LITERALS]
        sheets = [(HOSTILE_TITLES[0], rows0), (HOSTILE_TITLES[1], rows1)] + [(t, [[1]]) for t in HOSTILE_TITLES[2:]]
        try:
            pl = Pipeline(src, g)
            text, uids = pl.translate_file(sheets)
        except Unknown as u:
            raise AnalysisError(rule, f'hostile workbook: the abstraction cannot follow the pipeline ({str(u)[:160]})')
        except AbsRaise as e:
            run.bad(rule, 'hostile workbook/translation', f'raises:{e.exc}', f'translating a workbook of awkward titles and texts raises {e.exc}', loc=loc)
            return
        try:
            import warnings
            with warnings.catch_warnings():
                warnings.simplefilter('ignore')
                ast.parse(text)
            parsed = True
        except SyntaxError as e:
            parsed = False
            run.bad(rule, 'hostile workbook/class text', 'does-not-parse', f'the class generated for a workbook of awkward titles and texts is not '
                    f'Python: {e.msg} at line {e.lineno}: `{(text.splitlines()[e.lineno - 1] if e.lineno else "")[:90]}`', loc=loc)
        if not parsed:
            return
        run.ok(rule, 'hostile workbook/class text', 'parses', loc=loc)

        def value(uid):
            try:
                _, res = evaluate_generated(text, uid)
                return _plain(res)
            except AbsRaise as e:
                return f'raises {e.exc}'
        try:
            ev2, titles = _titles_of(text)
        except Unknown as u:
            raise AnalysisError(rule, f'hostile workbook/titles: the abstraction cannot follow the generated class ({str(u)[:120]})')
        want_titles = {t: i for i, t in enumerate(HOSTILE_TITLES)}
        run.check(titles == want_titles, rule, 'hostile workbook/titles', 'titles', f'the generated class reports the titles {titles}; the workbook has '
                  f'{want_titles}', fact='titles as in the workbook', loc=loc)
        for r, t in enumerate(HOSTILE_TEXTS):
            try:
                got = value(uids[(0, 0, r)])
            except Unknown as u:
                raise AnalysisError(rule, f'hostile constant {t!r}: the abstraction cannot follow the generated class ({str(u)[:120]})')
            run.check(got == t, rule, f'hostile workbook/constant {t!r}', 'constant-text', f'the constant text {t!r} evaluates to {got!r}', fact='unchanged', loc=loc)
        for r, lit in enumerate(HOSTILE_LITERALS):
            for c, want in ((0, lit), (1, '<' + lit + '>'), (2, lit + 'cd'), (3, 'c' + lit)):
                try:
                    got = value(uids[(1, c, r)])
                except Unknown as u:
                    raise AnalysisError(rule, f'hostile literal {lit!r}: the abstraction cannot follow the generated class ({str(u)[:120]})')
                run.check(got == want, rule, f'hostile workbook/literal {lit!r}/{c}', 'literal-text',
                          f'the formula {rows1[r][c]} evaluates to {got!r}; the literals denote {want!r}', fact='unchanged', loc=loc)
    finally:
        sys.setrecursionlimit(old)


def _titles_of(text):
    from types import SimpleNamespace
    import warnings
    from ..finite import evaluator_for, AV
    from ..runtime import _collect
    with warnings.catch_warnings():
        warnings.simplefilter('ignore')
        tree = ast.parse(text)
    cls = [st for st in tree.body if isinstance(st, ast.ClassDef)][0]
    members, _ = _collect(cls)
    ev = evaluator_for(SimpleNamespace(members=members, cls_node=cls, module_tree=tree), max_depth=50)
    me = ev.new_obj('ExcelInPython', {})
    ev.call_method('__init__', [], me)
    res = ev.call_method('get_titles', [], me)
    return ev, ev._deep_python(res)
